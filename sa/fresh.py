"""`what a function returns was built in THIS call`: on no returning path does the returned value go back to
something that outlives the call (an attribute of self / cls, a module-level table, a getattr(self, ..) read)."""
from __future__ import annotations

import ast
from typing import Optional

from .match import Expander, text
from .source import AnalysisError, Project, dotted

_UNWRAP = ("deepcopy", "copy", "ungroom")
_READERS = ("get", "pop", "setdefault", "__getitem__")


def _is_store(p: Project, modname: str, e) -> bool:
    """e denotes (part of) a store that outlives the call"""
    while True:
        if isinstance(e, (ast.Attribute, ast.Subscript)):
            inner = e.value
            if isinstance(inner, ast.Name):
                return inner.id in ("self", "cls") or p.has_binding(modname, inner.id) and not _is_module_or_class(p, modname, inner.id)
            e = inner
            continue
        if isinstance(e, ast.Call):
            f = e.func
            if isinstance(f, ast.Name) and f.id in ("getattr", "vars") and e.args:
                a = e.args[0]
                return isinstance(a, ast.Name) and a.id in ("self", "cls") or _is_store(p, modname, a)
            if isinstance(f, ast.Attribute) and f.attr in _READERS:
                e = f.value
                if isinstance(e, ast.Name):
                    return e.id in ("self", "cls") or p.has_binding(modname, e.id) and not _is_module_or_class(p, modname, e.id)
                continue
            return False
        return False


def _is_module_or_class(p: Project, modname: str, name: str) -> bool:
    from .source import ClassInfo, Ext, Func, ModRef

    v = p.resolve(modname, name)
    return isinstance(v, (ClassInfo, Ext, Func, ModRef))


def kept_from_earlier_call(p: Project, modname: str, fn) -> Optional[str]:
    """text of a returned value that is read from a store outliving the call, or None; raises AnalysisError when the
    paths cannot be enumerated"""
    from . import paths as PT

    pl = PT.enumerate_paths(fn, None, Expander(fn), resolve=False)
    for q in pl:
        if q.outcome != "return" or q.value is None:
            continue
        v = PT.value_on_path(q, pl.cfg, q.value, upto=len(q.nodes) - 1)
        while isinstance(v, ast.Call) and (dotted(v.func) or "").split(".")[-1] in _UNWRAP and len(v.args) == 1:
            v = v.args[0]
        if isinstance(v, (ast.Attribute, ast.Subscript)) or isinstance(v, ast.Call) and (isinstance(v.func, ast.Name) and v.func.id == "getattr" or isinstance(v.func, ast.Attribute) and v.func.attr in _READERS):
            if _is_store(p, modname, v):
                return text(v)
    return None
