"""Serializer rules L-R1..3 (C11) and writer/reader agreement rules W-R2..7 (C01)."""
from __future__ import annotations

import ast
from typing import Dict, List, Optional, Set, Tuple

from . import dispatch as D
from .cfg import CFG
from .dataflow import Reaching, local_defs, own_nodes, own_statements, params_of, resolve_values
from .match import Expander, norm, text
from .report import Report
from .rules_types import Flow, passes_through, scalar_types, tloc
from .schema import Schema
from .source import AnalysisError, ClassInfo, Project, dotted, parent

UTILS = "ofxtools.utils"
PARSER = "ofxtools.Parser"
TYPES = D.TYPES

# entities the reader's character-data decoder undoes (String._convert_str): the property's own list
READER_ENTITIES = {"&amp;", "&lt;", "&gt;", "&nbsp;", "&apos;", "&quot;"}


def uloc(p: Project, node):
    return f"{p.module(UTILS).relpath}:{getattr(node, 'lineno', '?')}"


def escape_info(p: Project, modname: str, call: ast.Call, _depth: int = 0) -> Optional[Tuple[str, Set[str]]]:
    """(name, set of entity strings the escaper can produce) if `call` is a known escaping function"""
    d = dotted(call.func) or ""
    last = d.split(".")[-1]
    root = d.split(".")[0]
    r = p.resolve(modname, root)
    rname = getattr(r, "name", "") or ""
    if last == "escape" and ("saxutils" in rname or "saxutils" in d):
        ents = {"&amp;", "&lt;", "&gt;"}
        extra = call.args[1] if len(call.args) > 1 else next((k.value for k in call.keywords if k.arg == "entities"), None)
        if extra is not None:
            if isinstance(extra, ast.Dict) and all(isinstance(v, ast.Constant) for v in extra.values):
                ents |= {str(v.value) for v in extra.values}
            else:
                ents.add("<non-literal entities>")
        return "saxutils.escape", ents
    if last == "quoteattr" and "saxutils" in (rname + d):
        return "saxutils.quoteattr", {"&amp;", "&lt;", "&gt;", "&quot;", "<adds surrounding quotes>"}
    if last == "escape" and (rname.startswith("html") or d.startswith("html")):
        quote = True
        for k in call.keywords:
            if k.arg == "quote" and isinstance(k.value, ast.Constant):
                quote = bool(k.value.value)
        if len(call.args) > 1 and isinstance(call.args[1], ast.Constant):
            quote = bool(call.args[1].value)
        ents = {"&amp;", "&lt;", "&gt;"}
        if quote:
            ents |= {"&quot;", "&#x27;"}
        return "html.escape", ents
    # a repo helper all of whose returns are an escaping call applied to its parameter
    if isinstance(call.func, ast.Name) and _depth < 2:
        from .source import Func as _Func

        t_ = p.resolve(modname, call.func.id)
        if isinstance(t_, _Func):
            hp = set(params_of(t_.node))
            rets = [r_.value for r_ in own_nodes(t_.node) if isinstance(r_, ast.Return) and r_.value is not None]
            infos = []
            for rv in rets:
                found = None
                for c2 in ast.walk(rv):
                    if isinstance(c2, ast.Call):
                        i2 = escape_info(p, t_.module, c2, _depth + 1)
                        if i2 and any(isinstance(x, ast.Name) and x.id in hp for a in c2.args for x in ast.walk(a)):
                            found = i2
                            break
                if found is None:
                    return None
                infos.append(found)
            if infos:
                ents = set().union(*[i[1] for i in infos])
                return f"{call.func.id} -> {infos[0][0]}", ents
    return None


# --------------------------------------------------------------------------
def l_r1_decimal(p: Project, rep: Report):
    rep.rule("L-R1", "on every returning path of the decimal.Decimal writer the returned text is a fixed-point rendering (format(v,'f') / f'{v:f}' / '{:f}'.format(v)) and the path conditions imply that the value is finite (is_finite true / is_nan and is_infinite false)")
    from . import paths as PT

    scal, _ = scalar_types(p)
    ci = scal["Decimal"]
    unc = D.family(ci, "unconvert")
    h = unc.get("decimal.Decimal") if unc else None
    if h is None:
        rep.check("L-R1", "Decimal.unconvert[decimal.Decimal]", False, "no writer registered for decimal.Decimal", tloc(p, ci.node))
        return
    vp = h.value_param()
    rps, _ = h.return_paths()
    good = {f"format({vp}, 'f')", f"'{{:f}}'.format({vp})", f"f'{{{vp}:f}}'", f"format({vp}, 'F')"}
    finite = PT.any_of(PT.atom(f"bool({vp}.is_finite())"), Cond_and(PT.atom(f"bool({vp}.is_nan())", False), PT.atom(f"bool({vp}.is_infinite())", False)))
    for i, (pth, rtxt, sc) in enumerate(rps):
        ok = rtxt in good
        rep.check("L-R1", f"Decimal.unconvert:return#{i}:fixed-point", ok, f"amounts are written as {rtxt[:60]}; str()/repr()/'g' produce exponent notation for values such as Decimal('1E+2') or 1E-7 and the text NaN/Infinity" if not ok else "", tloc(p, h.fn))
        imp = PT.implies(pth.conds, finite)
        rep.check("L-R1", f"Decimal.unconvert:return#{i}:refuses-non-finite", imp is not False, "NaN / Infinity can reach the wire: this returning path does not establish that the value is finite" if imp is False else "", tloc(p, h.fn))
    if not rps:
        rep.check("L-R1", "Decimal.unconvert:returns", False, "the decimal writer never returns", tloc(p, h.fn))


def Cond_and(*cs):
    from .paths import Cond

    return Cond("and", list(cs))


def _escaped(p, modname, node, fn) -> Optional[Tuple[str, Set[str]]]:
    """the innermost escaping call around `node` within its statement"""
    cur = parent(node)
    while cur is not None and cur is not fn and not isinstance(cur, ast.stmt):
        if isinstance(cur, ast.Call):
            info = escape_info(p, modname, cur)
            if info:
                return info
        cur = parent(cur)
    return None


def l_r2_escaping(p: Project, rep: Report, rule="L-R2", reader_decodable=False):
    """taint: element text -> output of the hand-written body producer"""
    if rule == "L-R2":
        rep.rule("L-R2", "in the hand-written body producer (tostring_unclosed_elements) every read of element text reaches the output only through an escaping function (saxutils.escape / html.escape); the other producer is ET.tostring (trusted); serialize() uses no third producer")
    else:
        rep.rule(rule, "every entity the writer's escaping function can emit is one the reader decodes (&amp; &lt; &gt; &nbsp; &apos; &quot;): otherwise a value such as o'brien comes back as o&#x27;brien")
    fn = p.get_function(UTILS, "tostring_unclosed_elements").node
    reads = [n for n in own_nodes(fn) if isinstance(n, ast.Attribute) and n.attr == "text" and isinstance(n.ctx, ast.Load)]
    if not reads:
        # a thin wrapper around a (recursive) private helper that does the writing
        from .source import Func as _Func

        for c in own_nodes(fn):
            if isinstance(c, ast.Call) and isinstance(c.func, ast.Name):
                t_ = p.resolve(UTILS, c.func.id)
                if isinstance(t_, _Func):
                    r2 = [n for n in own_nodes(t_.node) if isinstance(n, ast.Attribute) and n.attr == "text" and isinstance(n.ctx, ast.Load)]
                    if r2:
                        fn, reads = t_.node, r2
                        break
    # reads through a local alias: x = elem.text ... use(x)
    defs = local_defs(fn)
    alias_reads = []
    for nm, ds in defs.items():
        if any(d.kind == "assign" and isinstance(d.value, ast.AST) and any(isinstance(x, ast.Attribute) and x.attr == "text" for x in ast.walk(d.value)) and _escaped(p, UTILS, [x for x in ast.walk(d.value) if isinstance(x, ast.Attribute) and x.attr == "text"][0], fn) is None for d in ds):
            alias_reads += [n for n in own_nodes(fn) if isinstance(n, ast.Name) and n.id == nm and isinstance(n.ctx, ast.Load)]
    if not reads:
        raise AnalysisError("L-R2: tostring_unclosed_elements no longer reads element text")
    i = 0
    for r in reads + alias_reads:
        st = parent(r)
        while st is not None and not isinstance(st, ast.stmt):
            st = parent(st)
        # a read that only feeds a test (`if elem.text:`) or an assignment to an alias handled above is not an output
        if isinstance(st, (ast.If, ast.While)) and any(x is r for x in ast.walk(st.test)):
            continue
        if isinstance(st, ast.Assign) and isinstance(st.targets[0], ast.Name) and r in reads and st.targets[0].id in defs and _escaped(p, UTILS, r, fn) is None and any(a.id == st.targets[0].id for a in alias_reads):
            continue
        info = _escaped(p, UTILS, r, fn)
        i += 1
        if rule == "L-R2":
            rep.check(rule, f"tostring_unclosed_elements:text-read#{i}", info is not None, f"element text ({text(r)}) is formatted into the output without escaping: a value like a&b<c is cut short or rejected by the receiver" if info is None else info[0], uloc(p, r))
        elif info is not None:
            bad = sorted(info[1] - READER_ENTITIES)
            rep.check(rule, f"tostring_unclosed_elements:text-read#{i}:reader-decodes", not bad, f"{info[0]} can emit {bad}, which String._convert_str does not decode" if bad else "", uloc(p, r))
    if rule == "L-R2":
        # producers used by serialize
        from .rules_request import serialize_returns

        ser = p.get_function("ofxtools.Client", "OFXClient.serialize").node
        rets, _pl, _f = serialize_returns(p)
        producers = {text(b.func) if isinstance(b, ast.Call) else text(b) for _q, _h, b in rets}
        ok = producers <= {"ET.tostring", "utils.tostring_unclosed_elements", "tostring_unclosed_elements"} and bool(producers)
        rep.check(rule, "serialize:body-producers", ok, f"serialize() builds the body with {sorted(producers)}; only ET.tostring (escapes) and tostring_unclosed_elements (checked above) are known to escape" if not ok else "", f"{p.module('ofxtools.Client').relpath}:{ser.lineno}")
        # tag names come from the element, text never used as a tag
        # ... and no rendered data becomes part of a FORMAT TEMPLATE: the receiver of .format() / the left operand of
        # `%` in the producer is a string literal - a template built from already-rendered children contains the
        # caller's data, whose `{0}` / `{name}` / `%s` are then interpreted (replaced, or raise)
        tmpl = None
        for x in ast.walk(fn):
            if isinstance(x, ast.Call) and isinstance(x.func, ast.Attribute) and x.func.attr == "format":
                recv = x.func.value
                if not (isinstance(recv, ast.Constant) and isinstance(recv.value, str)):
                    rv = recv
                    if isinstance(rv, ast.Name):
                        ds_ = defs.get(rv.id, [])
                        if len(ds_) == 1 and ds_[0].kind == "assign" and isinstance(ds_[0].value, ast.Constant):
                            continue
                    tmpl = tmpl or x
            elif isinstance(x, ast.BinOp) and isinstance(x.op, ast.Mod) and not (isinstance(x.left, ast.Constant) and isinstance(x.left.value, str)) and any(isinstance(y, ast.Constant) and isinstance(y.value, str) and "%" in y.value for y in ast.walk(x.left)):
                tmpl = tmpl or x
        rep.check(rule, "tostring_unclosed_elements:format-templates-are-literals", tmpl is None, f"`{text(tmpl)[:70] if tmpl is not None else ''}`: the template is assembled at run time from rendered output - a value containing '{{0}}' is replaced by the enclosing tag, '{{1}}' by the tail, and a lone brace raises, so user ids, passwords and account ids with braces are not written as given" if tmpl is not None else "", uloc(p, tmpl if tmpl is not None else fn))
    return i


def l_r3_shapes(p: Project, rep: Report):
    rep.rule("L-R3", "Bool writes through the inverse of the mapping it reads with; Integer writes str() of a value that passed enforce_length; DateTime/Time write only format_datetime(<fixed format>, value), whose result is strftime(fmt) + '.' + 3-digit milliseconds + '[' offset ']'")
    scal, _ = scalar_types(p)
    b = scal["Bool"]
    unc = D.family(b, "unconvert")
    h = unc.get("bool")
    ok = False
    if h is not None:
        vp = h.value_param()
        rps, _ = h.return_paths()
        ok = bool(rps)
        for pth, rtxt, sc in rps:
            try:
                e = ast.parse(rtxt, mode="eval").body
            except SyntaxError:
                ok = False
                continue
            good = isinstance(e, ast.Subscript) and isinstance(e.value, ast.DictComp) and text(e.slice) == vp and text(e.value.generators[0].iter) == "self.mapping.items()" and _inverts(e.value)
            if not good:
                ok = False
    rep.check("L-R3", "Bool.unconvert[bool]:inverse-of-mapping", ok, "the boolean writer is not the inverse of self.mapping" if not ok else "", tloc(p, h.fn if h else b.node))
    i = scal["Integer"]
    h = D.family(i, "unconvert").get("int")
    if h is not None:
        rps, _ = h.return_paths()
        for k, (pth, rtxt, sc) in enumerate(rps):
            ok = rtxt.startswith("str(") and "self.enforce_length(" in rtxt
            rep.check("L-R3", f"Integer.unconvert[int]:return#{k}", ok, f"integers are written as {rtxt[:60]}; expected str(<value that passed enforce_length>)" if not ok else "", tloc(p, h.fn))
    l_r3_datetime(p, rep)


def l_r3_datetime(p: Project, rep: Report):
    rep.rule("L-R3", "Bool writes through the inverse of the mapping it reads with; Integer writes str() of a value that passed enforce_length; DateTime/Time write only format_datetime(<fixed format>, value), whose result is strftime(fmt) + '.' + 3-digit milliseconds + '[' offset ']'")
    from . import canon
    from .flat import flat

    scal, _ = scalar_types(p)
    for name, fmt in (("DateTime", "%Y%m%d%H%M%S"), ("Time", "%H%M%S")):
        ci = scal[name]
        nk = D.native_key(ci)
        h = D.family(ci, "unconvert").handler_for_native(nk)
        if h is None:
            continue
        rps, _ = h.return_paths()
        from .fold import fold as _fold

        for k, (pth, rtxt, sc) in enumerate(rps):
            ok = rtxt.startswith(f"format_datetime('{fmt}', ")
            if not ok and rtxt.startswith("format_datetime("):
                # the format given by a module-level constant
                try:
                    call = ast.parse(rtxt, mode="eval").body
                    got = _fold(call.args[0], {}, p, TYPES) if isinstance(call, ast.Call) and call.args else None
                except SyntaxError:
                    got = None
                if got == fmt:
                    ok = True
                elif not isinstance(got, str):
                    rep.note(f"L-R3 undecided: {name} is written as {rtxt[:70]}")
                    continue
            rep.check("L-R3", f"{name}.unconvert[{nk}]:return#{k}", ok, f"{name} is written as {rtxt[:70]}; expected format_datetime('{fmt}', <value>)" if not ok else "", tloc(p, h.fn))
    fd0 = p.get_function(TYPES, "format_datetime").node
    fd = canon.formats_to_fstrings(flat(p, TYPES, fd0))
    from .paths import return_paths

    rps, _ = return_paths(fd, expander=Expander(fd))
    fparams = params_of(fd0)
    for k, (pth, rtxt, sc) in enumerate(rps):
        ok, why = None, f"returns {rtxt[:90]}"
        try:
            v = ast.parse(rtxt, mode="eval").body
        except SyntaxError:
            v = None
        if isinstance(v, ast.JoinedStr):
            consts = "".join(x.value for x in v.values if isinstance(x, ast.Constant))
            fvs = [x for x in v.values if isinstance(x, ast.FormattedValue)]
            # date part, '.', ms (03d), '[', offset..., ']'
            if consts.startswith(".[") or (consts[:1] == "." and "[" in consts and consts.endswith("]")):
                spec = text(fvs[1].format_spec) if len(fvs) > 1 and fvs[1].format_spec is not None else ""
                first = text(fvs[0].value) if fvs else ""
                ok = spec.lstrip("f").strip("'\"") in ("03d", "03", "0>3d", "0>3", "0=3d", "0=3") and f".strftime({fparams[0]})" in first
                why = f"milliseconds format {spec!r}, date part {first[:50]}"
                # three digits need a value of at most 999: the floor of microseconds / 1000 is, a ROUNDED quotient is not
                # (999500..999999 microseconds round to 1000 - a four-digit fraction the notation does not have)
                if ok and len(fvs) > 1:
                    msx = fvs[1].value
                    while isinstance(msx, ast.Call) and text(msx.func) in ("int", "abs") and len(msx.args) == 1:
                        msx = msx.args[0]
                    floor_ms = isinstance(msx, ast.BinOp) and isinstance(msx.op, ast.FloorDiv) and text(msx.right) == "1000" and ".microsecond" in text(msx.left)
                    rounded = any(isinstance(c_, ast.Call) and text(c_.func) in ("round", "math.ceil", "ceil") for c_ in ast.walk(msx)) or (isinstance(msx, ast.BinOp) and isinstance(msx.op, ast.Div))
                    if rounded and not floor_ms:
                        rep.check("L-R3", f"format_datetime:return#{k}:milliseconds-at-most-999", False, f"on this path the milliseconds are {text(msx)[:60]}: a rounded quotient reaches 1000 for the last half millisecond of a second, written as a FOUR-digit fraction (…59.1000) that the notation does not have and the reader refuses", tloc(p, fd0))
                    elif floor_ms:
                        rep.check("L-R3", f"format_datetime:return#{k}:milliseconds-at-most-999", True, "", tloc(p, fd0))
        if ok is None:
            rep.note(f"L-R3 undecided: format_datetime returns {rtxt[:80]}")
        else:
            rep.check("L-R3", f"format_datetime:return#{k}:shape", ok, why if not ok else "", tloc(p, fd0))


def _inverts(dc: ast.DictComp) -> bool:
    g = dc.generators[0]
    if isinstance(g.target, ast.Tuple) and len(g.target.elts) == 2 and all(isinstance(e, ast.Name) for e in g.target.elts):
        k, v = g.target.elts[0].id, g.target.elts[1].id
        return text(dc.key) == v and text(dc.value) == k and not g.ifs
    return False


# --------------------------------------------------------------------------
# W-R2: writer / reader leaf predicate
# --------------------------------------------------------------------------
SHAPES = [(c, t) for c in (0, 1) for t in (0, 1)]  # (has children, has text)


def _eval_shape(test, shape, elem, textvar=None) -> Optional[bool]:
    """evaluate a guard over the abstract element shape; None = not understood"""
    c, t = shape
    tx = text(norm(test))
    atoms = {
        f"len({elem}) == 0": not c, f"0 == len({elem})": not c, f"len({elem})": bool(c), f"not len({elem})": not c, f"len({elem}) != 0": bool(c),
        f"0 < len({elem})": bool(c), f"{elem}.text": bool(t), f"not {elem}.text": not t, f"{elem}.text is not None": bool(t), f"{elem}.text is None": not t,
        f"list({elem})": bool(c),
    }
    if textvar:
        atoms.update({textvar: bool(t), f"not {textvar}": not t, f"{textvar} is not None": bool(t), f"{textvar} is None": not t})
    if tx in atoms:
        return atoms[tx]
    n = norm(test)
    if isinstance(n, ast.BoolOp):
        vals = [_eval_shape(v, shape, elem, textvar) for v in n.values]
        if any(v is None for v in vals):
            return None
        return all(vals) if isinstance(n.op, ast.And) else any(vals)
    if isinstance(n, ast.UnaryOp) and isinstance(n.op, ast.Not):
        v = _eval_shape(n.operand, shape, elem, textvar)
        return None if v is None else not v
    return None


def w_r2_leaf_predicate(p: Project, rep: Report):
    rep.rule("W-R2", "leaf predicate agreement: every element shape (children none/some x text none/some) for which the end-tag-less writer omits the end tag is a shape the reader closes by itself (reader: text present).  Both sides are decided from path conditions over the atoms `element has children` / `element has text`.")
    from . import paths as PT
    from .flat import flat

    wfn0 = p.get_function(UTILS, "tostring_unclosed_elements").node
    wfn = flat(p, UTILS, wfn0)
    elem = params_of(wfn0)[0]

    def writes_markup(f):
        return any(isinstance(c, ast.Constant) and isinstance(c.value, (str, bytes)) and ((b"<" in c.value) if isinstance(c.value, bytes) else ("<" in c.value)) for c in ast.walk(f))

    if not writes_markup(wfn):
        # a thin wrapper: the markup is produced by a (recursive) private helper that is handed the element
        from .source import Func as _Func

        for c in own_nodes(wfn):
            if isinstance(c, ast.Call) and isinstance(c.func, ast.Name):
                t_ = p.resolve(UTILS, c.func.id)
                if isinstance(t_, _Func) and writes_markup(t_.node):
                    pos_ = [i for i, a in enumerate(c.args) if text(a) == elem]
                    if pos_:
                        wfn = flat(p, UTILS, t_.node, keep=(t_.node.name,))
                        elem = params_of(t_.node)[pos_[0]]
                        break
        else:
            raise AnalysisError("W-R2: the end-tag-less writer produces no markup itself and no helper that does was found")
    wx = Expander(wfn)
    pths = PT.enumerate_paths(wfn, expander=wx)
    cfg = pths.cfg
    A_CH, A_TX = f"bool({elem})", f"bool({elem}.text)"
    atoms = set(PT.atoms_of(pths))
    odd = atoms - {A_CH, A_TX}
    if odd:
        raise AnalysisError(f"W-R2: writer decision depends on {sorted(odd)}")

    def has_endtag(pth):
        for nid in pth.nodes:
            st = cfg.nodes[nid].stmt
            if st is None or cfg.nodes[nid].kind in ("test", "loop", "join"):
                continue
            for c in ast.walk(st):
                if isinstance(c, ast.Constant) and isinstance(c.value, (str, bytes)) and (b"</" in c.value if isinstance(c.value, bytes) else "</" in c.value):
                    return True
        return False

    omits: Set[Tuple[int, int]] = set()
    for sh in SHAPES:
        env = {A_CH: bool(sh[0]), A_TX: bool(sh[1])}
        ps = [q for q in pths if q.outcome in ("return", "fall") and q.holds({**{a: False for a in atoms}, **env})]
        if not ps:
            raise AnalysisError(f"W-R2: no writer path for shape {sh}")
        if not all(has_endtag(q) for q in ps):
            omits.add(sh)
    # reader
    rfn0 = p.get_function(PARSER, "TreeBuilder._start").node
    tb = p.get_class(PARSER, "TreeBuilder")
    rfn = flat(p, PARSER, rfn0, tb, keep=("_start", "_feedmatch"))
    rparams = params_of(rfn0)
    text_p, close_p = rparams[2], rparams[3] if len(rparams) > 3 else "closetag"
    rx_ = Expander(rfn)
    rpths = PT.enumerate_paths(rfn, expander=rx_)
    rcfg = rpths.cfg
    ratoms = set(PT.atoms_of(rpths))
    R_TX, R_CL = f"bool({text_p})", f"bool({close_p})"
    rodd = ratoms - {R_TX, R_CL, f"{text_p} is None", f"{close_p} is None"}
    if rodd:
        raise AnalysisError(f"W-R2: reader decision depends on {sorted(rodd)}")

    def calls_end(pth):
        for nid in pth.nodes:
            for c in rcfg.nodes[nid].calls():
                if isinstance(c.func, ast.Attribute) and c.func.attr == "end" and text(c.func.value) == "self":
                    return True
        return False

    closes: Set[Tuple[int, int]] = set()
    for sh in SHAPES:
        # an element written without its end tag arrives with closetag None / falsy
        env = {R_TX: bool(sh[1]), R_CL: False, f"{text_p} is None": not sh[1], f"{close_p} is None": True}
        ps = [q for q in rpths if q.outcome in ("return", "fall") and q.holds({**{a: False for a in ratoms}, **env})]
        if ps and all(calls_end(q) for q in ps):
            closes.add(sh)
    for sh in sorted(omits):
        ok = sh in closes
        rep.check("W-R2", f"tostring_unclosed_elements:shape(children={'some' if sh[0] else 'none'},text={'some' if sh[1] else 'none'})", ok,
                  "the writer emits this element without an end tag but the reader does not close it by itself (no text): the following siblings are read as its children" if not ok else "", uloc(p, wfn0))
    rep.unit("abstract_shapes", len(SHAPES))
    rep.extra["leaf_predicates"] = {"writer_omits_end_tag": sorted(omits), "reader_closes_itself": sorted(closes)}


def w_r6_html_names(schema: Schema, rep: Report):
    rep.rule("W-R6", "no tag the library writes (class name, upper-cased child name, rename target) is one that ET.tostring(method='html') treats specially: the HTML void elements (no end tag is written) and script/style (text is written unescaped)")
    special = {"area", "base", "basefont", "br", "col", "frame", "hr", "img", "input", "isindex", "link", "meta", "param", "script", "style"}
    n = 0
    for cname, ci in schema.exported().items():
        n += 1
        if cname.lower() in special:
            rep.check("W-R6", f"class:{cname}", False, f"<{cname}> is an HTML void/raw-text element name: ET.tostring(method='html') omits its end tag / does not escape its text", f"{ci.mod.relpath}:{ci.node.lineno}")
        for k, ch in schema.spec(ci).items():
            n += 1
            if k.lower() in special and not ch.is_agg and not ch.is_unsupported:
                rep.check("W-R6", f"{cname}.{k}", False, f"<{k.upper()}> is an HTML void/raw-text element name", f"{ch.owner.mod.relpath}:{ch.call.node.lineno}")
    assert "base" in special and "style" in special
    rep.check("W-R6", "all-tags", True, f"{n} tag names checked; built-in positive example ('base', 'style') is in the special set")


def w_r7_indent(p: Project, rep: Report):
    rep.rule("W-R7", "the pretty-printer only writes whitespace and only where there is none: on every path, the conditions before a store to X.text / X.tail imply that X.text / X.tail is empty or blank; .text is stored only on elements that have children; stored values are built from newline and spaces")
    from . import paths as PT
    from .flat import flat

    fn0 = p.get_function(UTILS, "indent").node
    fn = flat(p, UTILS, fn0)
    elem = params_of(fn0)[0]
    ex = Expander(fn)
    pths = PT.enumerate_paths(fn, expander=ex)
    cfg = pths.cfg
    stores = [n for n in cfg.nodes if isinstance(n.stmt, ast.Assign) and n.kind == "assign" and isinstance(n.stmt.targets[0], ast.Attribute) and n.stmt.targets[0].attr in ("text", "tail")]
    if not stores:
        raise AnalysisError("W-R7: indent stores nothing")
    for i, n in enumerate(stores):
        st = n.stmt
        attr = st.targets[0].attr
        obj = text(st.targets[0].value)
        slot = f"{obj}.{attr}"
        guard_ok = True
        seen = False
        for pth in pths:
            cb = pth.conds_before(n.id)
            if cb is None:
                continue
            seen = True
            # the object stored to, as the path's conditions name it (conditions are path-resolved)
            slots = {slot, f"{text(PT.value_on_path(pth, cfg, st.targets[0].value, upto=pth.index_of(n.id)))}.{attr}"}
            blank = PT.any_of(*[a for s_ in sorted(slots) for a in (PT.atom(f"bool({s_})", False), PT.atom(f"bool({s_}.strip())", False))])
            if PT.implies(cb, blank) is False:
                guard_ok = False
        val = ex.x(st.value)
        ws_ok = all(isinstance(c.value, str) and c.value.strip() == "" for c in ast.walk(val) if isinstance(c, ast.Constant) and isinstance(c.value, str)) and not any(isinstance(a, ast.Attribute) and a.attr in ("text", "tail") for a in ast.walk(val))
        in_children = True
        if attr == "text":
            for pth in pths:
                cb = pth.conds_before(n.id)
                if cb is None:
                    continue
                objs = {obj, text(PT.value_on_path(pth, cfg, st.targets[0].value, upto=pth.index_of(n.id)))}
                if PT.implies(cb, PT.any_of(*[PT.atom(f"bool({o})") for o in sorted(objs)])) is False:
                    in_children = False
        if not seen:
            continue
        rep.check("W-R7", f"indent:{attr}-store#{i}", bool(guard_ok and ws_ok and in_children),
                  f"store {text(st)} is guarded-by-blank={bool(guard_ok)}, whitespace-only={ws_ok}, only-for-elements-with-children={in_children}: element data can be altered by pretty-printing", uloc(p, st))


def l_r4_list_elements(p: Project, rep: Report):
    """members of an ElementList are written through their converter"""
    from . import paths as PT
    from .flat import flat

    rep.rule("L-R4", "every member of an ElementList is written through the declared converter: on each path of ElementList._listAppend the text stored in the new element is <converter>.unconvert(<member>) - a member stored as it is (a str appended after construction) would skip the enumeration / length / digit checks that make the written value lexically valid")
    BASE_ = "ofxtools.models.base"
    ci = p.get_class(BASE_, "ElementList")
    fn0 = ci.own_func("_listAppend")
    if fn0 is None:
        rep.note("L-R4 undecided: ElementList._listAppend not found")
        return
    fn = flat(p, BASE_, fn0, ci)
    member = params_of(fn)[-1]
    pths = PT.enumerate_paths(fn, None, Expander(fn), resolve=False)
    cfg = pths.cfg
    stores = [n for n in cfg.nodes if isinstance(n.stmt, ast.Assign) and n.kind == "assign" and isinstance(n.stmt.targets[0], ast.Attribute) and n.stmt.targets[0].attr == "text"]
    if not stores:
        rep.note("L-R4 undecided: _listAppend stores no element text")
        return
    bad = None
    seen = 0
    for n in stores:
        for q in pths:
            i = q.index_of(n.id)
            if i is None:
                continue
            seen += 1
            v = PT.value_on_path(q, cfg, n.stmt.value, upto=i)
            ok = isinstance(v, ast.Call) and isinstance(v.func, ast.Attribute) and v.func.attr == "unconvert" and len(v.args) == 1 and text(v.args[0]) == member
            if not ok:
                if isinstance(v, ast.Name) and v.id == member or text(v) in (f"str({member})", member):
                    bad = (text(v), PT.simple_conds(q.conds))
                else:
                    rep.note(f"L-R4 undecided: member text is {text(v)[:60]}")
    if seen:
        rep.check("L-R4", "ElementList._listAppend:text-through-converter", bad is None, f"on a path (taken when {bad[1]}) the member is written as `{bad[0]}` without passing the converter: an invalid value put into the list after construction is written instead of refused" if bad else "", f"{p.module(BASE_).relpath}:{fn0.lineno}")


def l_r2b_every_handwritten_producer_escapes(p: Project, rep: Report, rule: str = "L-R2"):
    """whoever writes markup by hand escapes the data"""
    rep.rule(rule, "every function of ofxtools.utils that composes markup text by hand - an f-string / str.format template with '<' ... '>' in its literal parts - writes an element's text only through saxutils.escape (or html.escape / a replace chain that the main clause recognises): a producer that serves BOTH wire forms and escapes in one branch only (`<TAG>text</TAG>` raw for the closed version-1 form, escaped for the unclosed one) puts `&` and `<` of a password or memo on the wire raw")
    m = p.module("ofxtools.utils")
    n = 0
    # module functions that escape what they are given (their body calls an escape routine or a replace chain on '&')
    escapers = set()
    for qn_, cls_, fn_ in m.functions():
        src_ = ast.unparse(fn_)
        if any(isinstance(r_, ast.Return) for r_ in ast.walk(fn_)) and ("escape(" in src_ or ".replace('&'" in src_ or '.replace("&"' in src_):
            escapers.add(fn_.name)

    def escaped(t_: str) -> bool:
        return "escape(" in t_ or any(f"{e_}(" in t_ for e_ in escapers)

    for qn, cls, fn in m.functions():
        if fn.name in escapers and not any(isinstance(x, ast.JoinedStr) and "<" in "".join(str(v.value) for v in x.values if isinstance(v, ast.Constant)) for x in ast.walk(fn)):
            continue
        ex = Expander(fn)
        # names that hold an element's text
        texts = set()
        for st in ast.walk(fn):
            if isinstance(st, ast.Assign):
                tgts = st.targets[0].elts if len(st.targets) == 1 and isinstance(st.targets[0], ast.Tuple) else st.targets
                vals = st.value.elts if isinstance(st.value, ast.Tuple) and len(st.targets) == 1 and isinstance(st.targets[0], ast.Tuple) and len(st.value.elts) == len(st.targets[0].elts) else [st.value] * len(tgts)
                for t_, v_ in zip(tgts, vals):
                    if isinstance(t_, ast.Name) and ".text" in text(v_) and not escaped(text(v_)):
                        texts.add(t_.id)
        for x in ast.walk(fn):
            parts = None
            if isinstance(x, ast.JoinedStr):
                lit = "".join(str(v.value) for v in x.values if isinstance(v, ast.Constant))
                parts = [v.value for v in x.values if isinstance(v, ast.FormattedValue)] if "<" in lit and ">" in lit else None
            elif isinstance(x, ast.Call) and isinstance(x.func, ast.Attribute) and x.func.attr == "format" and isinstance(x.func.value, ast.Constant) and isinstance(x.func.value.value, str) and "<" in x.func.value.value and ">" in x.func.value.value:
                parts = list(x.args) + [k.value for k in x.keywords]
            if not parts:
                continue
            for v in parts:
                tv = text(v)
                raw = (isinstance(v, ast.Name) and v.id in texts) or (".text" in tv and not escaped(tv))
                if not raw:
                    continue
                n += 1
                rep.check(rule, f"{qn}:template:{tv[:30]}:escaped", False, f"{qn} writes `{tv[:40]}` - an element's text - into hand-written markup without escaping it: `&` and `<` in the data reach the wire raw on this branch (the closed version-1 form, say), so the receiver reads entity references / tags the sender never meant", f"{m.relpath}:{x.lineno}")
    rep.check(rule, "utils:hand-written-markup-escapes-text", True, "", f"{n} raw text interpolations")
