"""Serializer rules L-R1..3 (C11) and writer/reader agreement rules W-R2..7 (C01)."""
from __future__ import annotations

import ast
from typing import Dict, List, Optional, Set, Tuple

from . import dispatch as D
from .cfg import CFG
from .dataflow import Reaching, local_defs, own_nodes, own_statements, params_of, resolve_values
from .match import Expander, norm, text
from .report import Report
from .rules_types import Flow, passes_through, scalar_types, tloc
from .schema import Schema
from .source import AnalysisError, ClassInfo, Project, dotted, parent

UTILS = "ofxtools.utils"
PARSER = "ofxtools.Parser"
TYPES = D.TYPES

# entities the reader's character-data decoder undoes (String._convert_str): the property's own list
READER_ENTITIES = {"&amp;", "&lt;", "&gt;", "&nbsp;", "&apos;", "&quot;"}


def uloc(p: Project, node):
    return f"{p.module(UTILS).relpath}:{getattr(node, 'lineno', '?')}"


def escape_info(p: Project, modname: str, call: ast.Call) -> Optional[Tuple[str, Set[str]]]:
    """(name, set of entity strings the escaper can produce) if `call` is a known escaping function"""
    d = dotted(call.func) or ""
    last = d.split(".")[-1]
    root = d.split(".")[0]
    r = p.resolve(modname, root)
    rname = getattr(r, "name", "") or ""
    if last == "escape" and ("saxutils" in rname or "saxutils" in d):
        ents = {"&amp;", "&lt;", "&gt;"}
        extra = call.args[1] if len(call.args) > 1 else next((k.value for k in call.keywords if k.arg == "entities"), None)
        if extra is not None:
            if isinstance(extra, ast.Dict) and all(isinstance(v, ast.Constant) for v in extra.values):
                ents |= {str(v.value) for v in extra.values}
            else:
                ents.add("<non-literal entities>")
        return "saxutils.escape", ents
    if last == "quoteattr" and "saxutils" in (rname + d):
        return "saxutils.quoteattr", {"&amp;", "&lt;", "&gt;", "&quot;", "<adds surrounding quotes>"}
    if last == "escape" and (rname.startswith("html") or d.startswith("html")):
        quote = True
        for k in call.keywords:
            if k.arg == "quote" and isinstance(k.value, ast.Constant):
                quote = bool(k.value.value)
        if len(call.args) > 1 and isinstance(call.args[1], ast.Constant):
            quote = bool(call.args[1].value)
        ents = {"&amp;", "&lt;", "&gt;"}
        if quote:
            ents |= {"&quot;", "&#x27;"}
        return "html.escape", ents
    return None


# --------------------------------------------------------------------------
def l_r1_decimal(p: Project, rep: Report):
    rep.rule("L-R1", "on every returning path of the decimal.Decimal writer the returned text is a fixed-point rendering (format(v,'f') / f'{v:f}' / '{:f}'.format(v)) and the path conditions imply that the value is finite (is_finite true / is_nan and is_infinite false)")
    from . import paths as PT

    scal, _ = scalar_types(p)
    ci = scal["Decimal"]
    unc = D.family(ci, "unconvert")
    h = unc.get("decimal.Decimal") if unc else None
    if h is None:
        rep.check("L-R1", "Decimal.unconvert[decimal.Decimal]", False, "no writer registered for decimal.Decimal", tloc(p, ci.node))
        return
    vp = h.value_param()
    rps, _ = h.return_paths()
    good = {f"format({vp}, 'f')", f"'{{:f}}'.format({vp})", f"f'{{{vp}:f}}'", f"format({vp}, 'F')"}
    finite = PT.any_of(PT.atom(f"bool({vp}.is_finite())"), Cond_and(PT.atom(f"bool({vp}.is_nan())", False), PT.atom(f"bool({vp}.is_infinite())", False)))
    for i, (pth, rtxt, sc) in enumerate(rps):
        ok = rtxt in good
        rep.check("L-R1", f"Decimal.unconvert:return#{i}:fixed-point", ok, f"amounts are written as {rtxt[:60]}; str()/repr()/'g' produce exponent notation for values such as Decimal('1E+2') or 1E-7 and the text NaN/Infinity" if not ok else "", tloc(p, h.fn))
        imp = PT.implies(pth.conds, finite)
        rep.check("L-R1", f"Decimal.unconvert:return#{i}:refuses-non-finite", imp is not False, "NaN / Infinity can reach the wire: this returning path does not establish that the value is finite" if imp is False else "", tloc(p, h.fn))
    if not rps:
        rep.check("L-R1", "Decimal.unconvert:returns", False, "the decimal writer never returns", tloc(p, h.fn))


def Cond_and(*cs):
    from .paths import Cond

    return Cond("and", list(cs))


def _escaped(p, modname, node, fn) -> Optional[Tuple[str, Set[str]]]:
    """the innermost escaping call around `node` within its statement"""
    cur = parent(node)
    while cur is not None and cur is not fn and not isinstance(cur, ast.stmt):
        if isinstance(cur, ast.Call):
            info = escape_info(p, modname, cur)
            if info:
                return info
        cur = parent(cur)
    return None


def l_r2_escaping(p: Project, rep: Report, rule="L-R2", reader_decodable=False):
    """taint: element text -> output of the hand-written body producer"""
    if rule == "L-R2":
        rep.rule("L-R2", "in the hand-written body producer (tostring_unclosed_elements) every read of element text reaches the output only through an escaping function (saxutils.escape / html.escape); the other producer is ET.tostring (trusted); serialize() uses no third producer")
    else:
        rep.rule(rule, "every entity the writer's escaping function can emit is one the reader decodes (&amp; &lt; &gt; &nbsp; &apos; &quot;): otherwise a value such as o'brien comes back as o&#x27;brien")
    fn = p.get_function(UTILS, "tostring_unclosed_elements").node
    reads = [n for n in own_nodes(fn) if isinstance(n, ast.Attribute) and n.attr == "text" and isinstance(n.ctx, ast.Load)]
    # reads through a local alias: x = elem.text ... use(x)
    defs = local_defs(fn)
    alias_reads = []
    for nm, ds in defs.items():
        if any(d.kind == "assign" and isinstance(d.value, ast.AST) and any(isinstance(x, ast.Attribute) and x.attr == "text" for x in ast.walk(d.value)) and _escaped(p, UTILS, [x for x in ast.walk(d.value) if isinstance(x, ast.Attribute) and x.attr == "text"][0], fn) is None for d in ds):
            alias_reads += [n for n in own_nodes(fn) if isinstance(n, ast.Name) and n.id == nm and isinstance(n.ctx, ast.Load)]
    if not reads:
        raise AnalysisError("L-R2: tostring_unclosed_elements no longer reads element text")
    i = 0
    for r in reads + alias_reads:
        st = parent(r)
        while st is not None and not isinstance(st, ast.stmt):
            st = parent(st)
        # a read that only feeds a test (`if elem.text:`) or an assignment to an alias handled above is not an output
        if isinstance(st, (ast.If, ast.While)) and any(x is r for x in ast.walk(st.test)):
            continue
        if isinstance(st, ast.Assign) and isinstance(st.targets[0], ast.Name) and r in reads and st.targets[0].id in defs and _escaped(p, UTILS, r, fn) is None and any(a.id == st.targets[0].id for a in alias_reads):
            continue
        info = _escaped(p, UTILS, r, fn)
        i += 1
        if rule == "L-R2":
            rep.check(rule, f"tostring_unclosed_elements:text-read#{i}", info is not None, f"element text ({text(r)}) is formatted into the output without escaping: a value like a&b<c is cut short or rejected by the receiver" if info is None else info[0], uloc(p, r))
        elif info is not None:
            bad = sorted(info[1] - READER_ENTITIES)
            rep.check(rule, f"tostring_unclosed_elements:text-read#{i}:reader-decodes", not bad, f"{info[0]} can emit {bad}, which String._convert_str does not decode" if bad else "", uloc(p, r))
    if rule == "L-R2":
        # producers used by serialize
        ser = p.get_function("ofxtools.Client", "OFXClient.serialize").node
        producers = set()
        for st in own_statements(ser):
            if isinstance(st, ast.Assign) and any(isinstance(t, ast.Name) and t.id == "body" for t in st.targets):
                producers.add(text(st.value.func) if isinstance(st.value, ast.Call) else text(st.value))
        ok = producers <= {"ET.tostring", "utils.tostring_unclosed_elements", "tostring_unclosed_elements"} and bool(producers)
        rep.check(rule, "serialize:body-producers", ok, f"serialize() builds the body with {sorted(producers)}; only ET.tostring (escapes) and tostring_unclosed_elements (checked above) are known to escape" if not ok else "", f"{p.module('ofxtools.Client').relpath}:{ser.lineno}")
        # tag names come from the element, text never used as a tag
    return i


def l_r3_shapes(p: Project, rep: Report):
    rep.rule("L-R3", "Bool writes through the inverse of the mapping it reads with; Integer writes str() of a value that passed enforce_length; DateTime/Time write only format_datetime(<fixed format>, value), whose result is strftime(fmt) + '.' + 3-digit milliseconds + '[' offset ']'")
    scal, _ = scalar_types(p)
    b = scal["Bool"]
    unc = D.family(b, "unconvert")
    h = unc.get("bool")
    ok = False
    if h is not None:
        vp = h.value_param()
        rps, _ = h.return_paths()
        ok = bool(rps)
        for pth, rtxt, sc in rps:
            try:
                e = ast.parse(rtxt, mode="eval").body
            except SyntaxError:
                ok = False
                continue
            good = isinstance(e, ast.Subscript) and isinstance(e.value, ast.DictComp) and text(e.slice) == vp and text(e.value.generators[0].iter) == "self.mapping.items()" and _inverts(e.value)
            if not good:
                ok = False
    rep.check("L-R3", "Bool.unconvert[bool]:inverse-of-mapping", ok, "the boolean writer is not the inverse of self.mapping" if not ok else "", tloc(p, h.fn if h else b.node))
    i = scal["Integer"]
    h = D.family(i, "unconvert").get("int")
    if h is not None:
        rps, _ = h.return_paths()
        for k, (pth, rtxt, sc) in enumerate(rps):
            ok = rtxt.startswith("str(") and "self.enforce_length(" in rtxt
            rep.check("L-R3", f"Integer.unconvert[int]:return#{k}", ok, f"integers are written as {rtxt[:60]}; expected str(<value that passed enforce_length>)" if not ok else "", tloc(p, h.fn))
    l_r3_datetime(p, rep)


def l_r3_datetime(p: Project, rep: Report):
    rep.rule("L-R3", "Bool writes through the inverse of the mapping it reads with; Integer writes str() of a value that passed enforce_length; DateTime/Time write only format_datetime(<fixed format>, value), whose result is strftime(fmt) + '.' + 3-digit milliseconds + '[' offset ']'")
    from . import canon
    from .flat import flat

    scal, _ = scalar_types(p)
    for name, fmt in (("DateTime", "%Y%m%d%H%M%S"), ("Time", "%H%M%S")):
        ci = scal[name]
        nk = D.native_key(ci)
        h = D.family(ci, "unconvert").handler_for_native(nk)
        if h is None:
            continue
        rps, _ = h.return_paths()
        for k, (pth, rtxt, sc) in enumerate(rps):
            ok = rtxt.startswith(f"format_datetime('{fmt}', ")
            rep.check("L-R3", f"{name}.unconvert[{nk}]:return#{k}", ok, f"{name} is written as {rtxt[:70]}; expected format_datetime('{fmt}', <value>)" if not ok else "", tloc(p, h.fn))
    fd0 = p.get_function(TYPES, "format_datetime").node
    fd = canon.formats_to_fstrings(flat(p, TYPES, fd0))
    from .paths import return_paths

    rps, _ = return_paths(fd, expander=Expander(fd))
    fparams = params_of(fd0)
    for k, (pth, rtxt, sc) in enumerate(rps):
        ok, why = None, f"returns {rtxt[:90]}"
        try:
            v = ast.parse(rtxt, mode="eval").body
        except SyntaxError:
            v = None
        if isinstance(v, ast.JoinedStr):
            consts = "".join(x.value for x in v.values if isinstance(x, ast.Constant))
            fvs = [x for x in v.values if isinstance(x, ast.FormattedValue)]
            # date part, '.', ms (03d), '[', offset..., ']'
            if consts.startswith(".[") or (consts[:1] == "." and "[" in consts and consts.endswith("]")):
                spec = text(fvs[1].format_spec) if len(fvs) > 1 and fvs[1].format_spec is not None else ""
                first = text(fvs[0].value) if fvs else ""
                ok = "03d" in spec and f".strftime({fparams[0]})" in first
                why = f"milliseconds format {spec!r}, date part {first[:50]}"
        if ok is None:
            rep.note(f"L-R3 undecided: format_datetime returns {rtxt[:80]}")
        else:
            rep.check("L-R3", f"format_datetime:return#{k}:shape", ok, why if not ok else "", tloc(p, fd0))


def _inverts(dc: ast.DictComp) -> bool:
    g = dc.generators[0]
    if isinstance(g.target, ast.Tuple) and len(g.target.elts) == 2 and all(isinstance(e, ast.Name) for e in g.target.elts):
        k, v = g.target.elts[0].id, g.target.elts[1].id
        return text(dc.key) == v and text(dc.value) == k and not g.ifs
    return False


# --------------------------------------------------------------------------
# W-R2: writer / reader leaf predicate
# --------------------------------------------------------------------------
SHAPES = [(c, t) for c in (0, 1) for t in (0, 1)]  # (has children, has text)


def _eval_shape(test, shape, elem, textvar=None) -> Optional[bool]:
    """evaluate a guard over the abstract element shape; None = not understood"""
    c, t = shape
    tx = text(norm(test))
    atoms = {
        f"len({elem}) == 0": not c, f"0 == len({elem})": not c, f"len({elem})": bool(c), f"not len({elem})": not c, f"len({elem}) != 0": bool(c),
        f"0 < len({elem})": bool(c), f"{elem}.text": bool(t), f"not {elem}.text": not t, f"{elem}.text is not None": bool(t), f"{elem}.text is None": not t,
        f"list({elem})": bool(c),
    }
    if textvar:
        atoms.update({textvar: bool(t), f"not {textvar}": not t, f"{textvar} is not None": bool(t), f"{textvar} is None": not t})
    if tx in atoms:
        return atoms[tx]
    n = norm(test)
    if isinstance(n, ast.BoolOp):
        vals = [_eval_shape(v, shape, elem, textvar) for v in n.values]
        if any(v is None for v in vals):
            return None
        return all(vals) if isinstance(n.op, ast.And) else any(vals)
    if isinstance(n, ast.UnaryOp) and isinstance(n.op, ast.Not):
        v = _eval_shape(n.operand, shape, elem, textvar)
        return None if v is None else not v
    return None


def w_r2_leaf_predicate(p: Project, rep: Report):
    rep.rule("W-R2", "leaf predicate agreement: every element shape (children none/some x text none/some) for which the end-tag-less writer omits the end tag is a shape the reader closes by itself (reader: text present)")
    wfn = p.get_function(UTILS, "tostring_unclosed_elements").node
    elem = params_of(wfn)[0]
    # branches of the writer: which ones contain an end-tag literal
    top = [s for s in wfn.body if isinstance(s, ast.If)]
    if not top:
        raise AnalysisError("W-R2: writer has no leaf/branch decision")
    iff = top[0]

    def has_endtag(stmts):
        return any(isinstance(c, ast.Constant) and isinstance(c.value, str) and "</" in c.value for s in stmts for c in ast.walk(s))

    omits: Set[Tuple[int, int]] = set()
    for sh in SHAPES:
        v = _eval_shape(iff.test, sh, elem)
        if v is None:
            raise AnalysisError(f"W-R2: writer guard `{text(iff.test)}` not understood")
        branch = iff.body if v else iff.orelse
        if not has_endtag(branch):
            omits.add(sh)
    # reader: _start closes the element itself iff ...
    rfn = p.get_function(PARSER, "TreeBuilder._start").node
    rparams = params_of(rfn)
    tag_p, text_p = rparams[1], rparams[2]
    closes: Set[Tuple[int, int]] = set()
    cfg = CFG(rfn)
    ends = cfg.nodes_calling(lambda c: isinstance(c.func, ast.Attribute) and c.func.attr == "end" and text(c.func.value) == "self")
    if not ends:
        raise AnalysisError("W-R2: reader _start never closes an element")
    for sh in SHAPES:
        # an element written without end tag arrives with closetag None
        def flt(a, b, lab, sh=sh):
            if a.kind == "test" and lab in ("true", "false"):
                tx = text(a.stmt.test)
                if tx in ("closetag", f"{rparams[3]}" if len(rparams) > 3 else "closetag"):
                    return lab == "false"
                v = _eval_shape(a.stmt.test, sh, "<none>", textvar=text_p)
                if v is None:
                    raise AnalysisError(f"W-R2: reader guard `{tx}` not understood")
                return (lab == "true") == v
            return True
        r = cfg.reachable(cfg.entry.id, edge_filter=flt)
        if any(e.id in r for e in ends):
            closes.add(sh)
    # the reader cannot know about children in advance: its decision may only depend on text
    for sh in sorted(omits):
        ok = sh in closes
        rep.check("W-R2", f"tostring_unclosed_elements:shape(children={'some' if sh[0] else 'none'},text={'some' if sh[1] else 'none'})", ok,
                  "the writer emits this element without an end tag but the reader does not close it by itself (no text): the following siblings are read as its children" if not ok else "", uloc(p, iff))
    rep.unit("abstract_shapes", len(SHAPES))
    rep.extra["leaf_predicates"] = {"writer_omits_end_tag": sorted(omits), "reader_closes_itself": sorted(closes)}


def w_r6_html_names(schema: Schema, rep: Report):
    rep.rule("W-R6", "no tag the library writes (class name, upper-cased child name, rename target) is one that ET.tostring(method='html') treats specially: the HTML void elements (no end tag is written) and script/style (text is written unescaped)")
    special = {"area", "base", "basefont", "br", "col", "frame", "hr", "img", "input", "isindex", "link", "meta", "param", "script", "style"}
    n = 0
    for cname, ci in schema.exported().items():
        n += 1
        if cname.lower() in special:
            rep.check("W-R6", f"class:{cname}", False, f"<{cname}> is an HTML void/raw-text element name: ET.tostring(method='html') omits its end tag / does not escape its text", f"{ci.mod.relpath}:{ci.node.lineno}")
        for k, ch in schema.spec(ci).items():
            n += 1
            if k.lower() in special and not ch.is_agg and not ch.is_unsupported:
                rep.check("W-R6", f"{cname}.{k}", False, f"<{k.upper()}> is an HTML void/raw-text element name", f"{ch.owner.mod.relpath}:{ch.call.node.lineno}")
    assert "base" in special and "style" in special
    rep.check("W-R6", "all-tags", True, f"{n} tag names checked; built-in positive example ('base', 'style') is in the special set")


def w_r7_indent(p: Project, rep: Report):
    rep.rule("W-R7", "the pretty-printer only writes whitespace and only where there is none: every store to .text is inside the has-children branch and guarded by `not elem.text or not elem.text.strip()`; .tail stores are guarded likewise; stored values are built from newline and spaces")
    fn = p.get_function(UTILS, "indent").node
    elem = params_of(fn)[0]
    stores = [s for s in own_statements(fn) if isinstance(s, ast.Assign) and isinstance(s.targets[0], ast.Attribute) and s.targets[0].attr in ("text", "tail")]
    if not stores:
        raise AnalysisError("W-R7: indent stores nothing")
    ex = Expander(fn)
    for i, s in enumerate(stores):
        attr = s.targets[0].attr
        obj = text(s.targets[0].value)
        g = parent(s)
        guard_ok = isinstance(g, ast.If) and s in g.body and text(norm(g.test)).replace(" ", "") in (
            f"not{obj}.{attr}ornot{obj}.{attr}.strip()", f"leveland(not{obj}.{attr}ornot{obj}.{attr}.strip())")
        val = ex.t(s.value)
        ws_ok = all(isinstance(c.value, str) and c.value.strip() == "" for c in ast.walk(ex.x(s.value)) if isinstance(c, ast.Constant) and isinstance(c.value, str)) and "text" not in val.replace(".text", "")
        in_children = True
        if attr == "text":
            gg = parent(g) if g is not None else None
            in_children = isinstance(gg, ast.If) and text(norm(gg.test)) in (f"len({elem})", f"0 < len({elem})", f"len({elem}) != 0") and g in gg.body
        rep.check("W-R7", f"indent:{attr}-store#{i}", bool(guard_ok and ws_ok and in_children),
                  f"store {text(s)} is guarded={bool(guard_ok)}, whitespace-only={ws_ok}, only-for-elements-with-children={in_children}: element data can be altered by pretty-printing", uloc(p, s))
