"""E5 - singledispatchmethod handler tables of the element types in ofxtools/Types.py."""
from __future__ import annotations

import ast
from typing import Dict, List, Optional

from .cfg import CFG
from .source import AnalysisError, ClassInfo, Ext, Func, Project, dotted

TYPES = "ofxtools.Types"
DEFAULT = "<default>"


class Handler:
    def __init__(self, cls: ClassInfo, fn: ast.FunctionDef, key: str):
        self.cls, self.fn, self.key = cls, fn, key
        self._cfg: Optional[CFG] = None

    # public helpers the rules refer to by name are kept as calls; everything private is inlined
    KEEP = ("enforce_required", "enforce_length", "format_datetime", "normalize_to_gmt", "parse_gmt_offset", "convert", "unconvert")

    @property
    def ffn(self):
        """the handler with private helpers of its class / module inlined and accumulate-loops canonicalised"""
        if getattr(self, "_ffn", None) is None:
            from .flat import flat

            self._ffn = flat(self.cls.project, self.cls.module, self.fn, self.cls, keep=self.KEEP)
        return self._ffn

    @property
    def cfg(self) -> CFG:
        if self._cfg is None:
            self._cfg = CFG(self.ffn)
        return self._cfg

    @property
    def qualname(self):
        return f"{self.cls.name}.{self.fn.name}"

    def _lookup(self, call):
        f = call.func
        if isinstance(f, ast.Attribute) and isinstance(f.value, ast.Name) and f.value.id in ("self", "cls"):
            c, fn = self.cls.find_method(f.attr)
            return fn
        if isinstance(f, ast.Name):
            v = self.cls.project.resolve(self.cls.module, f.id)
            if isinstance(v, Func):
                return v.node
        return None

    def always_raises(self) -> bool:
        """no path from entry reaches the normal exit (calls to helpers that themselves never return count as raises)"""
        from .paths import _reachable_with_noreturn

        return self.cfg.exit.id not in _reachable_with_noreturn(self.cfg, self._lookup, 2)

    def returns(self) -> List[ast.Return]:
        return [n.stmt for n in self.cfg.nodes if isinstance(n.stmt, ast.Return) and n.kind == "return"]

    def value_param(self) -> Optional[str]:
        args = [a.arg for a in self.fn.args.args]
        return args[1] if len(args) > 1 else None

    def return_paths(self):
        """[(path, returned expression resolved along the path (text), simple path conditions)], PathList"""
        if getattr(self, "_rp", None) is None:
            from .match import Expander
            from .paths import return_paths

            self._rp = return_paths(self.ffn, self._lookup, Expander(self.ffn))
        return self._rp

    def __repr__(self):
        return f"<handler {self.qualname} [{self.key}]>"


def _is_sdm(dec) -> bool:
    d = dotted(dec)
    return d is not None and d.split(".")[-1] == "singledispatchmethod"


def _register_of(dec) -> Optional[str]:
    """family name if decorator is `<family>.register`"""
    if isinstance(dec, ast.Attribute) and dec.attr == "register" and isinstance(dec.value, ast.Name):
        return dec.value.id
    return None


def _register_call_of(dec):
    """(family, type-expr) if decorator is `<family>.register(<type>)`"""
    if isinstance(dec, ast.Call) and isinstance(dec.func, ast.Attribute) and dec.func.attr == "register":
        if isinstance(dec.func.value, ast.Name) and dec.args:
            return dec.func.value.id, dec.args[0]
    return None


def _keys_of(ann) -> List[str]:
    """all dispatch keys of an annotation: Union[A, B] / Optional[A] / A | B register one key per member"""
    if isinstance(ann, ast.Subscript) and (dotted(ann.value) or "").split(".")[-1] in ("Union", "Optional"):
        sl = ann.slice
        members = list(sl.elts) if isinstance(sl, ast.Tuple) else [sl]
        out = [k for m in members for k in _keys_of(m)]
        if (dotted(ann.value) or "").split(".")[-1] == "Optional":
            out.append("None")
        return out
    if isinstance(ann, ast.BinOp) and isinstance(ann.op, ast.BitOr):
        return _keys_of(ann.left) + _keys_of(ann.right)
    return [_key_of(ann)]


def _key_of(ann) -> str:
    if ann is None:
        raise AnalysisError("registered handler without a type annotation on its value parameter")
    if isinstance(ann, ast.Constant) and ann.value is None:
        return "None"
    if isinstance(ann, ast.Call) and isinstance(ann.func, ast.Name) and ann.func.id == "type" and len(ann.args) == 1 and isinstance(ann.args[0], ast.Constant) and ann.args[0].value is None:
        return "None"  # register(type(None))
    d = dotted(ann)
    if d is not None and d.split(".")[-1] in ("NoneType", "_NoneType"):
        return "None"
    if d is None:
        raise AnalysisError(f"dispatch annotation not understood: {ast.unparse(ann)}")
    return d


class Family:
    """handlers of one singledispatchmethod family as seen from one class"""

    def __init__(self, cls: ClassInfo, name: str, definer: Optional[ClassInfo], table: Dict[str, Handler], plain: bool):
        self.cls, self.name, self.definer, self.table, self.plain = cls, name, definer, table, plain

    def get(self, key) -> Optional[Handler]:
        return self.table.get(key)

    @property
    def default(self) -> Optional[Handler]:
        return self.table.get(DEFAULT)

    def handler_for_native(self, native_key: str) -> Optional[Handler]:
        """the handler singledispatch selects for an instance of the native type"""
        order = {"bool": ["bool", "int"], "int": ["int"], "datetime.datetime": ["datetime.datetime", "datetime.date"]}.get(native_key, [native_key])
        for k in order:
            if k in self.table:
                return self.table[k]
        return self.table.get(DEFAULT)


def _table_builder(project: Project, modname: str, call) -> bool:
    """is `call` a call of a repo helper `f(fallback, handlers)` that wraps its first argument in a
    singledispatchmethod and registers every (type, handler) item of its second argument on it?"""
    if not (isinstance(call, ast.Call) and isinstance(call.func, ast.Name) and len(call.args) == 2 and isinstance(call.args[0], ast.Name) and isinstance(call.args[1], ast.Dict)):
        return False
    f = project.resolve(modname, call.func.id)
    if not isinstance(f, Func):
        return False
    ps = [a.arg for a in f.node.args.args]
    if len(ps) != 2:
        return False
    wraps = any(isinstance(c, ast.Call) and _is_sdm(c.func) and len(c.args) == 1 and isinstance(c.args[0], ast.Name) and c.args[0].id == ps[0] for c in ast.walk(f.node))
    loops = [l for l in ast.walk(f.node) if isinstance(l, ast.For) and isinstance(l.iter, ast.Call) and isinstance(l.iter.func, ast.Attribute) and l.iter.func.attr == "items" and isinstance(l.iter.func.value, ast.Name) and l.iter.func.value.id == ps[1]]
    regs = any(isinstance(c, ast.Call) and isinstance(c.func, ast.Attribute) and c.func.attr == "register" and len(c.args) == 2 for l in loops for c in ast.walk(l))
    return wraps and regs


def own_family(ci: ClassInfo, name: str) -> Optional[Family]:
    """the family `name` if ci's own body (re-)declares it"""
    fn = ci.own_func(name)
    if fn is None:
        # the name may have been re-bound to the built dispatcher after the plain def
        fn = next((f for f in ci.node.body if isinstance(f, ast.FunctionDef) and f.name == name), None)
        if fn is None or not any(isinstance(st, ast.Assign) and len(st.targets) == 1 and isinstance(st.targets[0], ast.Name) and st.targets[0].id == name and _table_builder(ci.project, ci.module, st.value) for st in ci.node.body):
            return None
    # table form: `def convert(..): <default>` ... `convert = <builder>(convert, {str: _h1, type(None): _h2})`
    for st in ci.node.body:
        if isinstance(st, ast.Assign) and len(st.targets) == 1 and isinstance(st.targets[0], ast.Name) and st.targets[0].id == name and _table_builder(ci.project, ci.module, st.value) and st.value.args[0].id == name:
            table = {DEFAULT: Handler(ci, fn, DEFAULT)}
            funcs = {f.name: f for f in ci.node.body if isinstance(f, ast.FunctionDef)}
            for k, v in zip(st.value.args[1].keys, st.value.args[1].values):
                if k is None or not isinstance(v, ast.Name) or v.id not in funcs:
                    raise AnalysisError(f"{ci.name}.{name}: dispatch table entry {ast.unparse(v)} is not a function of the class body")
                for key in _keys_of(k):
                    table[key] = Handler(ci, funcs[v.id], key)
            return Family(ci, name, ci, table, plain=False)
    if not any(_is_sdm(d) for d in fn.decorator_list):
        return Family(ci, name, ci, {DEFAULT: Handler(ci, fn, DEFAULT)}, plain=True)
    table = {DEFAULT: Handler(ci, fn, DEFAULT)}
    for st in ci.node.body:
        if isinstance(st, ast.FunctionDef):
            for dec in st.decorator_list:
                if _register_of(dec) == name:
                    params = st.args.args
                    if len(params) < 2:
                        raise AnalysisError(f"{ci.name}.{st.name}: registered handler has no value parameter")
                    for key in _keys_of(params[1].annotation):
                        table[key] = Handler(ci, st, key)
                rc = _register_call_of(dec)
                if rc and rc[0] == name:
                    for key in _keys_of(rc[1]):
                        table[key] = Handler(ci, st, key)
    return Family(ci, name, ci, table, plain=False)


def family(ci: ClassInfo, name: str) -> Optional[Family]:
    for c in ci.repo_mro:
        fam = own_family(c, name)
        if fam is not None:
            return Family(ci, name, c, fam.table, fam.plain)
        if name in c.attrs:
            return None
    return None


def native_key(ci: ClassInfo) -> Optional[str]:
    v = ci.lookup("__type__")
    if isinstance(v, Ext):
        return v.name
    return None


def element_types(project: Project) -> Dict[str, ClassInfo]:
    """classes of ofxtools.Types with Element in their MRO"""
    m = project.module(TYPES)
    element = project.get_class(TYPES, "Element")
    out = {}
    for bname, kind, payload in m.bindings:
        if kind == "class":
            ci = project.classinfo(TYPES, payload)
            if element in ci.mro and ci is not element:
                out[bname] = ci
    return out
