"""Request-composition rules Q-R1..7 (C06)."""
from __future__ import annotations

import ast
import re
from typing import Dict, List, Optional, Set, Tuple

from .cfg import CFG, Node
from .dataflow import Reaching, local_defs, own_nodes, own_statements, params_of, resolve_values
from .match import Expander, norm, text
from .report import Report
from .rules_client import CLIENT, _bind, client_class, fmethod, fmethods, loc, methods
from .schema import Schema
from .source import AnalysisError, ClassInfo, Func, Project, dotted, parent

LOG_CALLS = ("logger.debug", "logger.info", "logger.warning", "logger.error", "print", "warnings.warn")


def _reads_outside_logging(fn, name) -> int:
    n = 0
    for x in own_nodes(fn):
        if isinstance(x, ast.Name) and x.id == name and isinstance(x.ctx, ast.Load):
            # inside a logging call?
            p = parent(x)
            inlog = False
            while p is not None and p is not fn:
                if isinstance(p, ast.Call) and (dotted(p.func) or "") in LOG_CALLS:
                    inlog = True
                p = parent(p)
            if not inlog:
                n += 1
    # nested functions reading it as a closure variable
    for x in ast.walk(fn):
        if isinstance(x, (ast.FunctionDef, ast.Lambda)) and x is not fn:
            for y in ast.walk(x):
                if isinstance(y, ast.Name) and y.id == name and isinstance(y.ctx, ast.Load):
                    n += 1
    # `locals()[attr]` reads every parameter by name
    if any(isinstance(x, ast.Call) and isinstance(x.func, ast.Name) and x.func.id == "locals" for x in own_nodes(fn)):
        n += 1
    return n


# transport / cache controls, not request content: their handling is decided by the C14 rules (dryrun,
# skip_profile, url, timeout forwarding) and the C15 rules (cache), not by "the request says what was asked"
CONTROL_PARAMS = {"dryrun", "skip_profile", "timeout", "url", "persist"}


def groupby_inputs_sorted(p: Project, modname: str, fn, rep: Report, rule: str, label: str, keep_order: bool = False):
    """every itertools.groupby(X, key=K) in fn receives X sorted by a key that refines K"""
    rel = p.module(modname).relpath
    cfg = CFG(fn)
    reach = Reaching(cfg)
    n = 0
    for node in cfg.nodes:
        for c in node.calls():
            if (dotted(c.func) or "").split(".")[-1] != "groupby" or not c.args:
                continue
            n += 1
            b = _bind(c, ["iterable", "key"])
            kexpr = b.get("key")
            vals = resolve_values(b["iterable"], node, reach)
            ok = True
            why = ""
            sort_keys = []
            for v in vals:
                if isinstance(v, ast.Call) and isinstance(v.func, ast.Name) and v.func.id == "sorted":
                    sb = _bind(v, ["iterable"])
                    sort_keys.append(sb.get("key"))
                    if keep_order and sb.get("iterable") is not None:
                        # what is sorted is everything the caller passed: a set / dict-key view of it drops repeats
                        it = Expander(fn).x(sb["iterable"])
                        dd = dotted(it.func) if isinstance(it, ast.Call) else None
                        if isinstance(it, (ast.Set, ast.SetComp)) or dd in ("set", "frozenset", "dict.fromkeys", "OrderedDict.fromkeys", "collections.OrderedDict.fromkeys", "Counter", "collections.Counter"):
                            ok, why = False, f"what is sorted and grouped is {text(it)[:60]}, which keeps one of several equal requests: a request the caller passed more than once is sent once, so the composed file does not carry one wrapper per request"
                    if any(k.arg == "reverse" for k in v.keywords):
                        pass
                    continue
                # a list sorted in place before: <name>.sort(key=...) dominating this node
                nm = b["iterable"].id if isinstance(b["iterable"], ast.Name) else None
                sorts = [x for x in cfg.nodes_calling(lambda cc: isinstance(cc.func, ast.Attribute) and cc.func.attr == "sort" and isinstance(cc.func.value, ast.Name) and cc.func.value.id == nm)] if nm else []
                if sorts and cfg.dominated_by(node.id, [s.id for s in sorts]):
                    for s in sorts:
                        for cc in s.calls():
                            if isinstance(cc.func, ast.Attribute) and cc.func.attr == "sort":
                                sort_keys.append(next((k.value for k in cc.keywords if k.arg == "key"), None))
                    continue
                ok, why = False, f"groupby() is fed {text(v)}, which is not sorted first: records with equal keys that are not adjacent end up in separate groups and (in a dict/ChainMap built from the groups) all but one are lost"
            if ok and kexpr is not None:
                ex = Expander(fn)
                gk = _key_signature(ex.x(kexpr), fn)
                for sk in sort_keys:
                    if sk is not None and text(ex.x(sk)) == text(ex.x(kexpr)) and isinstance(ex.x(sk), (ast.Name, ast.Attribute)):
                        continue  # one and the same key function (whatever it extracts)
                    sks = _key_signature(ex.x(sk), fn) if sk is not None else None
                    if sks is None or not (sks == gk or (gk is not None and sks.startswith(gk))):
                        ok, why = False, f"sorted by {text(sk) if sk is not None else None} but grouped by {text(kexpr)}: the sort key does not refine the group key"
                    elif keep_order and not (sks == gk or sks == gk + ".__name__"):
                        ok, why = False, f"sorted by {text(sk)} (finer than the group key {text(kexpr)}): the stable sort no longer keeps the caller's order within each group"
            rep.check(rule, f"{label}:groupby({text(b['iterable'])[:40]})", ok, why, f"{rel}:{c.lineno}")
    return n


def _key_signature(k, fn) -> Optional[str]:
    """canonical access path a key function extracts: attrgetter('a.b') -> '.a.b', itemgetter(0) -> '[0]',
    lambda x: x[0].__name__ -> '[0].__name__', a local def returning such an expression likewise"""
    if k is None:
        return None
    if isinstance(k, ast.Call) and (dotted(k.func) or "").split(".")[-1] == "attrgetter" and k.args and all(isinstance(a, ast.Constant) for a in k.args):
        sig = "." + str(k.args[0].value)
        return sig if len(k.args) == 1 else sig + "".join(f"+.{a.value}" for a in k.args[1:])
    if isinstance(k, ast.Call) and (dotted(k.func) or "").split(".")[-1] == "itemgetter" and k.args and all(isinstance(a, ast.Constant) for a in k.args):
        sig = f"[{k.args[0].value!r}]"
        return sig if len(k.args) == 1 else sig + "".join(f"+[{a.value!r}]" for a in k.args[1:])
    body = None
    arg = None
    if isinstance(k, ast.Lambda) and len(k.args.args) == 1:
        body, arg = k.body, k.args.args[0].arg
    if isinstance(k, ast.Name):
        for st in own_statements(fn):
            if isinstance(st, ast.FunctionDef) and st.name == k.id and len(st.args.args) == 1:
                rets = [r for r in own_nodes(st) if isinstance(r, ast.Return)]
                if len(rets) == 1 and rets[0].value is not None:
                    body, arg = Expander(st).x(rets[0].value), st.args.args[0].arg  # named temporaries looked through
    if body is not None:
        if isinstance(body, ast.Tuple) and body.elts:
            parts = [text(e) for e in body.elts]
            if parts[0].startswith(arg):
                return parts[0][len(arg):] + "".join("+" + x for x in parts[1:])
            return None
        t = text(body)
        if t.startswith(arg):
            return t[len(arg):]
    return None


# --------------------------------------------------------------------------
def q_r1_params(p: Project, rep: Report):
    rep.rule("Q-R1", "every parameter of every OFXClient method (public requests, sign-on, the five wrapper builders, download, serialize) is read by the method outside logging: none is accepted and silently dropped")
    ci = client_class(p)
    n = 0
    for nm, fn in methods(ci):
        if nm.startswith("__") and nm != "__init__":
            continue
        for prm in params_of(fn)[1:]:
            if prm in CONTROL_PARAMS:
                continue
            n += 1
            used = _reads_outside_logging(fn, prm)
            rep.check("Q-R1", f"{nm}({prm})", used > 0, f"parameter '{prm}' of OFXClient.{nm} is never used: what the caller asked for is silently dropped from the request" if not used else "", loc(p, fn))
    rep.floor("Q-R1", n, 55, "method parameters")


def _model_ctor(p: Project, schema: Schema, call: ast.Call) -> Optional[ClassInfo]:
    if isinstance(call.func, ast.Name):
        v = p.resolve(CLIENT, call.func.id)
        if isinstance(v, ClassInfo) and schema.is_aggregate(v):
            return v
    return None


def q_r2_keywords(p: Project, schema: Schema, rep: Report):
    rep.rule("Q-R2", "in every model constructor call of the client, each keyword names a declared single child of that model and carries the like-named value: a parameter / self attribute of the same name (the include flag named after its aggregate: inctran -> INCTRAN.include, incpos -> INCPOS.include), or an aggregate built from the child's own target class")
    ci = client_class(p)
    n = 0
    for nm, fn0, fn in fmethods(p, ci):
        cfg = CFG(fn)
        reach = Reaching(cfg)
        params = set(params_of(fn0))
        for node in cfg.nodes:
            for c in node.calls():
                m = _model_ctor(p, schema, c)
                if m is None:
                    continue
                spec = schema.spec(m)
                for k in c.keywords:
                    if k.arg is None:
                        continue
                    n += 1
                    key = f"{nm}:{m.name}({k.arg}=)"
                    ch = spec.get(k.arg)
                    if ch is None or ch.is_list:
                        rep.check("Q-R2", key, False, f"{m.name} declares no single child '{k.arg}'", loc(p, c))
                        continue
                    ok, why = True, ""
                    # the caller's value overwritten on some path before it is used (`if a == b: a = None`)
                    for nm_ in [x_ for x_ in ast.walk(k.value) if isinstance(x_, ast.Name) and x_.id in params]:
                        for d_ in reach.defs_at(node, nm_.id):
                            if d_.kind == "assign" and isinstance(d_.value, ast.Constant) and d_.value.value is None:
                                ok, why = False, f"{m.name}.{k.arg} is given the parameter `{nm_.id}`, which line {d_.stmt.lineno} has replaced by None on some path: what the caller passed is silently left out of the request there"
                            elif d_.kind == "assign" and isinstance(d_.value, ast.AST) and not ch.is_agg and not (isinstance(d_.value, ast.Name) and d_.value.id == nm_.id):
                                # re-bound to something computed, other than a default for `<name> is None`
                                par_, dflt = parent(d_.stmt), False
                                while par_ is not None and not isinstance(par_, ast.FunctionDef):
                                    if isinstance(par_, ast.If):
                                        tt = text(par_.test).replace(" ", "")
                                        if tt in (f"{nm_.id}isNone", f"not{nm_.id}", f"Noneis{nm_.id}"):
                                            dflt = True
                                    par_ = parent(par_)
                                if not dflt:
                                    ok, why = False, f"{m.name}.{k.arg} is given the parameter `{nm_.id}`, which line {d_.stmt.lineno} re-binds to `{text(d_.value)[:40]}` on some path (not as a default for None): the value sent is not the one the caller gave (an end date equal to the start date widened by a day, say)"
                    for v in resolve_values(k.value, node, reach):
                        okv, whyv = _value_matches(p, schema, m, ch, k.arg, v, params, fn)
                        if not okv:
                            ok, why = False, whyv
                    rep.check("Q-R2", key, ok, why, loc(p, c))
    rep.floor("Q-R2", n, 40, "constructor keywords")


def _value_matches(p, schema, m, ch, kw, v, params, fn) -> Tuple[bool, str]:
    if isinstance(v, ast.Constant):
        if isinstance(v.value, bool) and kw in params:
            return False, f"{m.name}.{kw} is hard-wired to {v.value} on a path although the builder takes a parameter `{kw}`: what the caller asked for is ignored there"
        return True, ""
    if isinstance(v, ast.BoolOp) and isinstance(v.op, ast.Or):
        # `x or None`
        return _value_matches(p, schema, m, ch, kw, v.values[0], params, fn)
    if isinstance(v, ast.IfExp):
        # `<param> if <something else> else None`: the caller's value is withheld depending on another input
        arms = [v.body, v.orelse]
        nones = [a for a in arms if isinstance(a, ast.Constant) and a.value is None]
        others = [a for a in arms if a not in nones]
        if not ch.is_agg and len(nones) == 1 and len(others) == 1 and isinstance(others[0], ast.Name) and (others[0].id in params):
            cond_names = {x.id for x in ast.walk(v.test) if isinstance(x, ast.Name)} - {others[0].id}
            if cond_names & set(params):
                return False, f"{m.name}.{kw} is given `{text(v)[:60]}`: the caller's {others[0].id} reaches the request only when {text(v.test)[:30]} holds - otherwise it is silently left out"
        for a in arms:
            ok_, why_ = _value_matches(p, schema, m, ch, kw, a, params, fn)
            if not ok_:
                return ok_, why_
        return True, ""
    if isinstance(v, ast.Name):
        d = getattr(v, "_def", None)
        if v.id in params or (d is not None and d.kind == "param"):
            if v.id == kw or (kw == "include" and v.id == m.name.lower()):
                return True, ""
            return False, f"{m.name}.{kw} is given the parameter '{v.id}': the caller's {v.id} ends up in {kw.upper()}"
        return True, ""  # opaque local (e.g. loop variable); not a named parameter
    if isinstance(v, ast.Attribute) and text(v.value) == "self":
        if v.attr == kw or (v.attr == "uuid" and kw in ("trnuid",)):
            return True, ""
        return False, f"{m.name}.{kw} is given self.{v.attr}"
    # the caller's value edited on the way: <param>.translate(..) / .replace(..) / .strip() / .upper() / <param>[:n]
    base_ = v
    edits_ = []
    while True:
        if isinstance(base_, ast.Call) and isinstance(base_.func, ast.Attribute) and base_.func.attr in ("translate", "replace", "strip", "lstrip", "rstrip", "upper", "lower", "title", "casefold", "zfill", "removeprefix", "removesuffix", "split", "partition", "ljust", "rjust", "center", "expandtabs"):
            edits_.append("." + base_.func.attr + "()")
            base_ = base_.func.value
        elif isinstance(base_, ast.Subscript) and isinstance(base_.slice, ast.Slice):
            edits_.append("[slice]")
            base_ = base_.value
        else:
            break
    if edits_ and isinstance(base_, ast.Name) and (base_.id in params or getattr(getattr(base_, "_def", None), "kind", None) == "param") and not ch.is_agg:
        return False, f"{m.name}.{kw} is given {text(v)[:50]}: the caller's {base_.id} is edited ({', '.join(reversed(edits_))}) before it goes into the request, so what is sent is not the identifier that was supplied (two different values can collapse into one)"
    if isinstance(v, ast.Call):
        if isinstance(v.func, ast.Attribute) and text(v.func.value) == "self":
            if v.func.attr == kw:
                return True, ""
            meth = client_class(p).own_func(v.func.attr)
            if meth is not None and meth.returns is not None:
                rt = p.resolve(CLIENT, text(meth.returns))
                if isinstance(rt, ClassInfo):
                    if ch.is_agg and ch.target is rt:
                        return True, ""
                    return False, f"{m.name}.{kw} expects {getattr(ch.target, 'name', ch.kind)} but self.{v.func.attr}() returns {rt.name}"
            return False, f"{m.name}.{kw} is given self.{v.func.attr}()"
        t = _model_ctor(p, schema, v)
        if t is not None:
            if ch.is_agg and ch.target is t:
                return True, ""
            return False, f"{m.name}.{kw} expects {getattr(ch.target, 'name', ch.kind)} but is given a {t.name}"
        # the caller's value handed to a function first (`to_datetime(dtstart)`, `normalise(acctid)`): what goes into the
        # request is what that function returns - the element converters already accept every type the builders document
        if not ch.is_agg and isinstance(v.func, (ast.Name, ast.Attribute)):
            direct = [a for a in list(v.args) + [k.value for k in v.keywords] if isinstance(a, ast.Name) and (a.id in params or getattr(getattr(a, "_def", None), "kind", None) == "param")]
            if direct and text(v.func) not in ("str", "int", "bool"):
                return False, f"{m.name}.{kw} is given {text(v)[:50]}: the caller's {direct[0].id} passes through {text(v.func)}() before it goes into the request, so what is sent is that function's result, not the value supplied (a promotion of plain dates that tests isinstance(x, date) also catches every datetime and cuts it to midnight UTC)"
    return True, ""


def request_tuples(p: Project) -> Dict[str, List[str]]:
    out = {}
    m = p.module(CLIENT)
    for bname, kind, payload in m.bindings:
        if kind == "class" and any((dotted(b) or "").split(".")[-1] == "NamedTuple" for b in payload.bases):
            out[bname] = [s.target.id for s in payload.body if isinstance(s, ast.AnnAssign) and isinstance(s.target, ast.Name)]
    return out


def q_r3_dispatch(p: Project, schema: Schema, rep: Report):
    rep.rule("Q-R3", "every request tuple class has a wrap_stmtrq handler; the handler calls a builder whose parameters are exactly the tuple's fields plus the identifiers the handler adds; the builder's wrapper class is a list member of the message-set class the handler returns; handlers map every request (no filter)")
    tuples = request_tuples(p)
    if len(tuples) < 5:
        raise AnalysisError(f"Q-R3: only {len(tuples)} request tuple classes found")
    ci = client_class(p)
    m = p.module(CLIENT)
    handlers = {}
    for bname, kind, payload in m.bindings:
        if kind == "func":
            for dec in payload.decorator_list:
                if isinstance(dec, ast.Call) and isinstance(dec.func, ast.Attribute) and dec.func.attr == "register" and text(dec.func.value) == "wrap_stmtrq" and dec.args:
                    handlers[text(dec.args[0])] = payload
    for tname, fields in tuples.items():
        h = handlers.get(tname)
        if h is not None:
            from .flat import flat as _flat

            h0 = h
            h = _flat(p, CLIENT, h0)
        rep.check("Q-R3", f"{tname}:handler", h is not None, f"no wrap_stmtrq handler registered for {tname}: such requests raise ValueError" if h is None else "", loc(p, m.classdef(tname)))
        if h is None:
            continue
        rets = [r for r in own_nodes(h) if isinstance(r, ast.Return)]
        if len(rets) != 1 or not isinstance(rets[0].value, ast.Tuple) or len(rets[0].value.elts) != 2:
            raise AnalysisError(f"Q-R3: handler for {tname} does not return (message-set class, [wrappers])")
        msgexpr, lst = rets[0].value.elts
        lst = Expander(h).x(lst)
        msgcls = p.resolve(CLIENT, text(msgexpr))
        if not isinstance(lst, ast.ListComp):
            raise AnalysisError(f"Q-R3: handler for {tname} does not build its wrappers with a list comprehension")
        rep.check("Q-R3", f"{tname}:maps-every-request", not any(g.ifs for g in lst.generators) and len(lst.generators) == 1 and text(lst.generators[0].iter) == params_of(h)[1], "the handler filters or re-orders the requests it is given" if (any(g.ifs for g in lst.generators) or text(lst.generators[0].iter) != params_of(h)[1]) else "", loc(p, lst))
        call = lst.elt
        if not (isinstance(call, ast.Call) and isinstance(call.func, ast.Attribute)):
            raise AnalysisError(f"Q-R3: handler for {tname} does not call a builder")
        builder = ci.own_func(call.func.attr)
        if builder is None:
            rep.check("Q-R3", f"{tname}:builder", False, f"builder {call.func.attr} not found on OFXClient", loc(p, call))
            continue
        # keywords delivered: **rq._asdict() plus explicit extras
        extras: List[str] = []
        asdict = False
        for k in call.keywords:
            if k.arg is None:
                v = k.value
                if isinstance(v, ast.Call) and text(v.func).endswith("._asdict"):
                    asdict = True
                elif isinstance(v, ast.Call) and isinstance(v.func, ast.Name) and v.func.id == "dict":
                    if v.args and isinstance(v.args[0], ast.Call) and text(v.args[0].func).endswith("._asdict"):
                        asdict = True
                    extras += [kk.arg for kk in v.keywords if kk.arg]
            else:
                extras.append(k.arg)
        got = set(fields if asdict else []) | set(extras)
        want = set(params_of(builder)[1:])
        rep.check("Q-R3", f"{tname}->{call.func.attr}:fields=parameters", got == want, f"handler delivers {sorted(got)} but {call.func.attr}() takes {sorted(want)}: missing {sorted(want - got)}, unexpected {sorted(got - want)}" if got != want else "", loc(p, call))
        # extras come from the client configuration of the same name
        for k in call.keywords:
            if k.arg is None and isinstance(k.value, ast.Call) and isinstance(k.value.func, ast.Name) and k.value.func.id == "dict":
                for kk in k.value.keywords:
                    ok = isinstance(kk.value, ast.Attribute) and kk.value.attr == kk.arg
                    rep.check("Q-R3", f"{tname}->{call.func.attr}:{kk.arg}", ok, f"{kk.arg} is filled from {text(kk.value)}" if not ok else "", loc(p, call))
        # wrapper class is a member of the message set
        try:
            from .flat import flat as _flat

            builder = _flat(p, CLIENT, builder, ci)  # a private helper may do the wrapping
        except Exception:
            pass
        brets = [r for r in own_nodes(builder) if isinstance(r, ast.Return) and isinstance(r.value, ast.Call)]
        def _wrapper_class(callnode, depth=2):
            # the class a returned call constructs: a class name, or - through a private method that could not be
            # inlined (it takes **kwargs) - the class that method is handed and calls
            f_ = callnode.func
            if isinstance(f_, ast.Attribute) and isinstance(f_.value, ast.Name) and f_.value.id == "self" and depth > 0:
                h_ = ci.own_func(f_.attr)
                if h_ is not None:
                    hp_ = [a_.arg for a_ in h_.args.args][1:]
                    for r_ in [x_ for x_ in own_nodes(h_) if isinstance(x_, ast.Return) and isinstance(x_.value, ast.Call)]:
                        cf_ = r_.value.func
                        if isinstance(cf_, ast.Name) and cf_.id in hp_:
                            i_ = hp_.index(cf_.id)
                            if i_ < len(callnode.args):
                                return p.resolve(CLIENT, text(callnode.args[i_]))
                            kw_ = next((k_.value for k_ in callnode.keywords if k_.arg == cf_.id), None)
                            return p.resolve(CLIENT, text(kw_)) if kw_ is not None else None
                        return _wrapper_class(r_.value, depth - 1)
            return p.resolve(CLIENT, text(f_))

        wcls = [_wrapper_class(r.value) for r in brets]
        members = [c.target for c in schema.spec(msgcls).values() if c.kind == "ListAggregate"] if isinstance(msgcls, ClassInfo) else []
        ok = bool(wcls) and all(w in members for w in wcls)
        rep.check("Q-R3", f"{tname}:{call.func.attr}->{text(msgexpr)}", ok, f"{call.func.attr}() builds {[getattr(w, 'name', w) for w in wcls]}, which {text(msgexpr)} does not accept as a list member: the request raises TypeError" if not ok else "", loc(p, rets[0]))
        # the wrapped request is of the kind the tuple names
    dflt = m.funcdef("wrap_stmtrq")
    if dflt is not None:
        cfg = CFG(dflt)
        ok = cfg.exit.id not in cfg.reachable(cfg.entry.id)
        rep.check("Q-R3", "wrap_stmtrq:default-rejects", ok, "an object that is no request tuple is silently accepted" if not ok else "", loc(p, dflt))


def q_r4_signon(p: Project, rep: Report):
    rep.rule("Q-R4", "signon() (flattened): on every path to the SONRQ constructor, CLIENTUID is None exactly when the effective version is below 103 and self.clientuid otherwise; FI is FI(org=self.org, fid=self.fid) exactly when org is set and None otherwise; the sign-on message set wraps that SONRQ")
    from . import paths as PT

    ci = client_class(p)
    fn0 = ci.own_func("signon")
    if fn0 is None:
        raise AnalysisError("OFXClient.signon not found")
    fn = fmethod(p, ci, "signon")
    ex = Expander(fn)
    pths = PT.enumerate_paths(fn, expander=ex)
    cfg = pths.cfg
    sites = [(n, c) for n in cfg.nodes for c in n.calls() if isinstance(c.func, ast.Name) and c.func.id == "SONRQ"]
    if not sites:
        raise AnalysisError("Q-R4: signon() builds no SONRQ")
    import re as _re

    for node, call in sites:
        b = _bind(call, [])
        for field in ("clientuid", "fi"):
            if field not in b:
                rep.check("Q-R4", f"signon:SONRQ({field})", False, f"SONRQ is built without {field}=", loc(p, fn0))
                continue
            table = {}  # decision atom truth -> set of values
            decided_by = None
            for pth in pths:
                cb = pth.conds_before(node.id)
                if cb is None:
                    continue
                idx = pth.nodes.index(node.id)
                v = text(PT.value_on_path(pth, cfg, b[field], upto=idx))
                sc = PT.simple_conds(cb)
                if field == "clientuid":
                    keys = [a for a in sc if _re.fullmatch(r"self\.version < \d+|\d+ < self\.version", a)]
                else:
                    keys = [a for a in sc if a in ("bool(self.org)", "self.org is None")]
                if not keys:
                    table.setdefault(None, set()).add(v)
                    continue
                decided_by = keys[0]
                table.setdefault(sc[keys[0]], set()).add(v)
            if decided_by is None:
                rep.check("Q-R4", f"signon:{field}-decision", False, f"no condition on the client configuration decides {field} (values: {sorted(x for s_ in table.values() for x in s_)})", loc(p, fn0))
                continue
            if field == "clientuid":
                m = _re.fullmatch(r"self\.version < (\d+)", decided_by)
                m2 = _re.fullmatch(r"(\d+) < self\.version", decided_by)
                # `version < 103` true => below ; `102 < version` false => below
                if m:
                    thr_ok, below_when = int(m.group(1)) == 103, True
                else:
                    thr_ok, below_when = int(m2.group(1)) == 102, False
                rep.check("Q-R4", "signon:clientuid-threshold", thr_ok, f"CLIENTUID is decided on `{decided_by}`; it exists from OFX 1.0.3 on, so the boundary must be version < 103", loc(p, fn0))
                below, above = table.get(below_when, set()), table.get(not below_when, set())
                ok = below == {"None"} and above == {"self.clientuid"} and None not in table
                rep.check("Q-R4", "signon:clientuid-branches", ok, f"below the threshold clientuid={sorted(below)}, otherwise {sorted(above)}; expected None / self.clientuid", loc(p, fn0))
            else:
                set_when = True if decided_by == "bool(self.org)" else False
                with_org, without = table.get(set_when, set()), table.get(not set_when, set())
                ok = with_org <= {"FI(org=self.org, fid=self.fid)", "FI(fid=self.fid, org=self.org)"} and bool(with_org) and without == {"None"} and None not in table
                rep.check("Q-R4", "signon:fi-iff-org", ok, f"with org set fi={sorted(with_org)}, otherwise {sorted(without)}", loc(p, fn0))
    # the sign-on message set wraps exactly that SONRQ
    rps, _ = PT.return_paths(fn, expander=ex)
    ok = bool(rps) and all(rtxt.startswith("SIGNONMSGSRQV1(sonrq=SONRQ(") for _p, rtxt, _s in rps)
    rep.check("Q-R4", "signon:one-sonrq", ok, "" if ok else f"signon() returns {[r[:50] for _p, r, _s in rps]}, not SIGNONMSGSRQV1(sonrq=<the SONRQ>)", loc(p, fn0))


def q_r5_trnuid(p: Project, schema: Schema, rep: Report):
    rep.rule("Q-R5", "every transaction wrapper (*TRNRQ) is given a trnuid read from self.uuid inside the function that builds it (one fresh id per wrapper), and uuid returns a new uuid4 on each access")
    ci = client_class(p)
    n = 0
    for nm, fn0, fn in fmethods(p, ci):
        cfg = CFG(fn)
        reach = Reaching(cfg)
        for node in cfg.nodes:
            for c in node.calls():
                m = _model_ctor(p, schema, c)
                if m is None or "trnuid" not in schema.spec(m):
                    continue
                n += 1
                kw = [k for k in c.keywords if k.arg == "trnuid"]
                vals = [text(v) for v in resolve_values(kw[0].value, node, reach)] if kw else []
                ok = bool(vals) and all(v == "self.uuid" for v in vals)
                # not inside a loop that reuses one read: the read and the constructor are in the same function body and
                # the function is invoked once per wrapper
                rep.check("Q-R5", f"{nm}:{m.name}(trnuid)", ok, f"trnuid of {m.name} is {vals or 'missing'}: wrappers no longer get their own fresh id" if not ok else "", loc(p, c))
    rep.floor("Q-R5", n, 8, "wrapper constructors")
    ufn = ci.own_func("uuid")
    # every returned value goes back (through the function's own temporaries) to a uuid4()/uuid1() call made in that call
    ok = False
    if ufn is not None:
        ux = Expander(ufn)
        rets_ = [r for r in own_nodes(ufn) if isinstance(r, ast.Return) and r.value is not None]
        ok = bool(rets_) and all(any(isinstance(c, ast.Call) and text(c.func) in ("uuid.uuid4", "uuid.uuid1") for c in ast.walk(ux.x(r.value))) for r in rets_)
    rep.check("Q-R5", "uuid:fresh-per-access", ok, "OFXClient.uuid does not generate a new UUID on every access" if not ok else "", loc(p, ufn or ci.node))
    decs = [text(d) for d in ufn.decorator_list] if ufn else []
    ok = "classproperty" in decs and not any("cache" in d for d in decs)
    rep.check("Q-R5", "uuid:not-cached", ok, f"uuid decorators {decs}" if not ok else "", loc(p, ufn or ci.node))


WRITERS = ("tostring_unclosed_elements", "tostring")


def serialize_returns(p: Project):
    """[(path, header expr, body expr)] for every normally returning path of the flattened OFXClient.serialize,
    expressions resolved along the path; plus the PathList and the flattened function.  AnalysisError when the
    returned value is not `<something made from make_header(...)> + <a writer call>`."""
    from .paths import enumerate_paths, value_on_path
    from .rules_client import need

    ci = client_class(p)
    fn = need(p, ci, "serialize")
    paths = enumerate_paths(fn, None, Expander(fn))
    cfg = paths.cfg
    out = []
    for q in paths:
        if q.outcome == "fall":
            raise AnalysisError("Q-R6: serialize() can fall off its end")
        if q.outcome != "return":
            continue
        v = value_on_path(q, cfg, q.value, upto=len(q.nodes) - 1)
        parts = []

        def flat_add(e):
            if isinstance(e, ast.BinOp) and isinstance(e.op, ast.Add):
                flat_add(e.left)
                flat_add(e.right)
            else:
                parts.append(e)

        if isinstance(v, ast.Call) and isinstance(v.func, ast.Attribute) and v.func.attr == "join" and v.args and isinstance(v.args[0], (ast.List, ast.Tuple)):
            parts = list(v.args[0].elts)
        else:
            flat_add(v)
        hdr = [e for e in parts if any(isinstance(c, ast.Call) and (dotted(c.func) or "").split(".")[-1] == "make_header" for c in ast.walk(e))]
        body = [e for e in parts if e not in hdr]
        if len(hdr) != 1 or len(body) != 1 or parts.index(hdr[0]) != 0:
            raise AnalysisError(f"Q-R6: serialize() returns {text(v)[:120]}, not header + body")
        out.append((q, hdr[0], body[0]))
    if not out:
        raise AnalysisError("Q-R6: serialize() never returns")
    return out, paths, fn


def q_r6_serialize(p: Project, rep: Report):
    from .paths import any_of, atom, implies, simple_conds, value_on_path

    rep.rule("Q-R6", "serialize(), path by path: what is returned is header + body; the body is one of the two writers applied to the tree of the request passed in; the end-tag-less writer only on paths where the effective close_elements is False and the effective version is below 200; the header is made for that same effective version (the argument, self.<attr> when the argument is None) with the file uids passed in; pretty-printing only when asked")
    rets, paths, fn = serialize_returns(p)
    cfg = paths.cfg
    params = params_of(fn)
    ofx_param = params[1]

    def effective(q, name, e, upto_conds) -> Optional[bool]:
        """is the (resolved) expression e the effective value of option `name` on this path: the argument when it is not
        None, self.<name> when it is.  None = not recognised."""
        t = text(e)
        facts = simple_conds(upto_conds)
        isnone = facts.get(f"{name} is None")
        if t == name:
            return None if isnone is None else isnone is False
        if t == f"self.{name}":
            return isnone is True
        if isinstance(e, ast.BoolOp) and isinstance(e.op, ast.Or) and [text(x) for x in e.values] == [name, f"self.{name}"]:
            return None
        if isinstance(e, ast.Constant):
            return False
        return None

    verdicts = {k: True for k in ("unclosed-only-below-200", "guard-on-effective-version", "unclosed-only-when-asked", "header-version", "header-oldfileuid", "header-newfileuid", "tree-of-given-request", "indent-only-when-asked", "closed-writer-no-short-empty-tags")}
    details = {}
    undec = set()
    where = {}
    n_unclosed = 0
    for q, hdr, body in rets:
        conds = q.conds
        # ---- header
        mh = [c for c in ast.walk(hdr) if isinstance(c, ast.Call) and (dotted(c.func) or "").split(".")[-1] == "make_header"][0]
        b = _bind(mh, ["version", "security", "oldfileuid", "newfileuid"])
        where.setdefault("header", mh)
        if "version" not in b:
            verdicts["header-version"] = False
            details["header-version"] = "make_header() is not given a version"
            hv = None
        else:
            hv = b["version"]
            e = effective(q, "version", hv, conds)
            if e is False:
                verdicts["header-version"] = False
                details["header-version"] = f"header version is {text(hv)} on a path where {simple_conds(conds)}"
            elif e is None:
                undec.add(f"header version `{text(hv)}` not recognised as the effective version")
        for k in ("oldfileuid", "newfileuid"):
            if not (k in b and text(b[k]) == k):
                verdicts[f"header-{k}"] = False
                details[f"header-{k}"] = f"{k} is not passed to the header"
        # ---- body
        if not isinstance(body, ast.Call):
            raise AnalysisError(f"Q-R6: serialize() body is {text(body)[:80]}, not a writer call")
        w = (dotted(body.func) or "").split(".")[-1]
        arg0 = body.args[0] if body.args else None
        if arg0 is None or text(arg0) != f"{ofx_param}.to_etree()":
            verdicts["tree-of-given-request"] = False
            details["tree-of-given-request"] = f"the body is built from {text(arg0) if arg0 is not None else None}, not from the request passed in"
        if w == "tostring_unclosed_elements":
            n_unclosed += 1
            where.setdefault("unclosed", body)
            # effective close_elements is False
            ce_atoms = []
            for c, want in conds:
                for a in sorted(c.atoms()):
                    m = a[: -len(" is False")] if a.endswith(" is False") else (a[5:-1] if a.startswith("bool(") else None)
                    if m in ("close_elements", "self.close_elements"):
                        ce_atoms.append((a, m, a.endswith(" is False")))
            goal = []
            for a, m, isfalse in ce_atoms:
                e = effective(q, "close_elements", ast.parse(m, mode="eval").body, conds)
                if e is True:
                    goal.append(atom(a, True) if isfalse else atom(a, False))
            r = implies(conds, any_of(*goal)) if goal else False
            if r is False:
                verdicts["unclosed-only-when-asked"] = False
            elif r is None:
                undec.add("close_elements: too many conditions")
            # effective version below 200
            v_atoms = []
            for c, want in conds:
                for a in sorted(c.atoms()):
                    mm = re.fullmatch(r"(.+) < 200", a)
                    if mm:
                        v_atoms.append((a, mm.group(1), True))
                    mm = re.fullmatch(r"199 < (.+)", a)
                    if mm:
                        v_atoms.append((a, mm.group(1), False))
            goal = []
            seen_guard = False
            for a, m, pol in v_atoms:
                seen_guard = True
                try:
                    me = ast.parse(m, mode="eval").body
                except SyntaxError:
                    continue
                e = effective(q, "version", me, conds)
                if e is True and (hv is None or text(hv) == m):
                    goal.append(atom(a, pol))
                elif e is False or (hv is not None and text(hv) != m and e is True):
                    verdicts["guard-on-effective-version"] = False
                    details["guard-on-effective-version"] = f"the guard tests {m}; expected the effective version (the argument, self.version when it is None) - the header is made for {text(hv) if hv is not None else None}"
                else:
                    undec.add(f"version guard on `{m}` not recognised")
            if goal:
                r = implies(conds, any_of(*goal))
                if r is False:
                    verdicts["unclosed-only-below-200"] = False
            elif not seen_guard:
                verdicts["unclosed-only-below-200"] = False
        elif w != "tostring":
            raise AnalysisError(f"Q-R6: serialize() body producer {text(body.func)} not known")
        else:
            # the closed writer must not abbreviate an empty aggregate to <X />: the reader's tag pattern takes the
            # blank and the slash as part of the name
            where.setdefault("closed", body)
            kw = {k.arg: k.value for k in body.keywords if k.arg}
            meth = kw.get("method")
            see = kw.get("short_empty_elements")
            if isinstance(meth, ast.Constant) and meth.value == "html":
                pass
            elif isinstance(see, ast.Constant) and see.value is False:
                pass
            elif meth is None or isinstance(meth, ast.Constant):
                verdicts["closed-writer-no-short-empty-tags"] = False
                details["closed-writer-no-short-empty-tags"] = f"{text(body)[:90]} writes an aggregate without children as <X />, which the parser does not read as an empty aggregate (its tag pattern takes ' /' as part of the name): such a document no longer parses"
            else:
                undec.add(f"ET.tostring method {text(meth)} not constant")
            # ... and must write the characters themselves: with an encoding that cannot hold a character ElementTree
            # writes a numeric character reference (&#233;), which the reader's entity table does not decode
            enc = kw.get("encoding", body.args[1] if len(body.args) > 1 else None)
            enc_v = value_on_path(q, cfg, enc, upto=len(q.nodes) - 1) if enc is not None else None
            if isinstance(enc_v, ast.Constant) and isinstance(enc_v.value, str):
                full = enc_v.value.lower().replace("-", "_") in ("utf_8", "utf8", "unicode", "utf_16", "utf_32")
                if not full:
                    verdicts["closed-writer-writes-characters"] = False
                    details["closed-writer-writes-characters"] = f"on a path the body is written with ET.tostring(encoding={enc_v.value!r}): characters outside that encoding go out as numeric character references (caf&#233;), which the library's reader hands to the model as literal text - the value read back differs from the one written"
                else:
                    verdicts.setdefault("closed-writer-writes-characters", True)
            elif enc is not None:
                undec.add(f"ET.tostring encoding {text(enc)[:40]} not constant on a path")
        # ---- indent
        for nid in q.nodes:
            n = cfg.nodes[nid]
            if n.stmt is None or n.kind in ("join", "handlers"):
                continue
            if any((dotted(c.func) or "").split(".")[-1] == "indent" for c in n.calls()):
                before = q.conds_before(nid) or []
                goal = []
                for c, want in before:
                    for a in sorted(c.atoms()):
                        if a in ("bool(prettyprint)", "bool(self.prettyprint)"):
                            e = effective(q, "prettyprint", ast.parse(a[5:-1], mode="eval").body, before)
                            if e is True:
                                goal.append(atom(a, True))
                r = implies(before, any_of(*goal)) if goal else False
                if r is False:
                    verdicts["indent-only-when-asked"] = False
    if n_unclosed == 0:
        rep.note("Q-R6: serialize() no longer uses tostring_unclosed_elements")
    rep.unit("serialize_return_paths", len(rets))
    msgs = {"unclosed-only-below-200": "the end-tag-less writer can be reached for an OFX 2.x request (no raise on effective version >= 200 on that path)",
            "unclosed-only-when-asked": "the end-tag-less writer is used on a path where the effective close_elements is not known to be False",
            "indent-only-when-asked": "pretty-printing applied although prettyprint is false"}
    for k, ok in verdicts.items():
        if k.startswith("unclosed") or k.startswith("guard"):
            if n_unclosed == 0:
                continue
            w_ = where.get("unclosed", fn)
        elif k.startswith("header"):
            w_ = where.get("header", fn)
        elif k.startswith("closed"):
            if "closed" not in where:
                continue
            w_ = where["closed"]
        else:
            w_ = fn
        if ok and undec and k in ("header-version", "guard-on-effective-version", "unclosed-only-below-200", "unclosed-only-when-asked"):
            continue
        rep.check("Q-R6", f"serialize:{k}", ok, (details.get(k) or msgs.get(k, "")) if not ok else "", loc(p, w_))
    rep.check("Q-R6", "serialize:header+body", True, "", loc(p, fn))
    for u in sorted(undec):
        rep.note(f"Q-R6 undecided: {u}")


def _assume_text(facts: Dict[str, bool]):
    def f(a, b, lab):
        if a.kind == "test" and lab in ("true", "false"):
            t = text(a.stmt.test)
            if t in facts and ((lab == "true") != facts[t]):
                return False
        return True

    return f


def q_r7_pipeline(p: Project, rep: Report):
    rep.rule("Q-R7", "between the *requests parameter and the message-set constructors nothing is dropped or duplicated: only sorted/groupby/list/chain/star-unpacking and comprehensions without a filter or slice; every groupby is fed a sequence sorted by a key refining the group key; every grouped message reaches OFX(...)")
    ci = client_class(p)
    fn = ci.own_func("request_statements")
    if fn is None:
        raise AnalysisError("OFXClient.request_statements not found")
    va = fn.args.vararg.arg if fn.args.vararg else None
    if va is None:
        raise AnalysisError("request_statements has no *requests parameter")
    n = groupby_inputs_sorted(p, CLIENT, fn, rep, "Q-R7", "request_statements", keep_order=True)
    rep.floor("Q-R7", n, 2, "groupby calls")
    # uses of the vararg: only whole (no subscript/slice/filter)
    bad = []
    for x in ast.walk(fn):
        if isinstance(x, ast.Subscript) and isinstance(x.value, ast.Name) and x.value.id == va:
            bad.append(f"{text(x)}")
        if isinstance(x, ast.comprehension) and x.ifs:
            bad.append(f"filter `{' '.join(text(i) for i in x.ifs)}` in a comprehension")
        if isinstance(x, ast.Call) and isinstance(x.func, ast.Name) and x.func.id in ("filter", "set", "frozenset") and x.args and any(isinstance(y, ast.Name) and y.id in (va, "trnrqs", "trnrqs_") for a in x.args for y in ast.walk(a)):
            bad.append(f"{x.func.id}() over the requests")
        if isinstance(x, ast.Call) and isinstance(x.func, ast.Name) and x.func.id == "sorted" and any(k.arg == "reverse" for k in x.keywords):
            bad.append("reverse sort")
    rep.check("Q-R7", "request_statements:no-filter-or-slice", not bad, f"the request collection passes through {bad}: requests are dropped or re-ordered" if bad else "", loc(p, fn))
    # the wrapped messages all reach OFX(**msgs)
    ofx = [c for c in own_nodes(fn) if isinstance(c, ast.Call) and isinstance(c.func, ast.Name) and c.func.id == "OFX"]
    ok = bool(ofx) and all(any(k.arg is None for k in c.keywords) and any(k.arg == "signonmsgsrqv1" for k in c.keywords) for c in ofx)
    rep.check("Q-R7", "request_statements:OFX(signon, **msgs)", ok, "" if ok else "the request is not OFX(signonmsgsrqv1=<signon>, **<all grouped messages>)", loc(p, fn))
    # msg_args: attribute name derived from the message class itself, members star-unpacked
    for st in own_statements(fn):
        if isinstance(st, ast.FunctionDef) and st.name == "msg_args":
            rets = [r for r in own_nodes(st) if isinstance(r, ast.Return)]
            ex = Expander(st)
            a0 = params_of(st)[0]
            ok = bool(rets) and all(isinstance(r.value, ast.Tuple) and len(r.value.elts) == 2 and ex.t(r.value.elts[0]) == f"{a0}.__name__.lower()" and isinstance(r.value.elts[1], ast.Call) and text(r.value.elts[1].func) == a0 and len(r.value.elts[1].args) == 1 and isinstance(r.value.elts[1].args[0], ast.Starred) for r in rets)
            rep.check("Q-R7", "msg_args:(name, msgcls(*all))", ok, "" if ok else "a message set is not built from all of its wrappers under its own lower-cased class name", loc(p, st))
    # password and the wrapped requests: signon gets the password parameter
    cfg = CFG(fn)
    reach = Reaching(cfg)
    for nm2, fn2 in methods(ci):
        if "password" in params_of(fn2):
            calls = [c for c in own_nodes(fn2) if isinstance(c, ast.Call) and isinstance(c.func, ast.Attribute) and c.func.attr == "signon"]
            ok = bool(calls) and all(c.args and text(c.args[0]) == "password" for c in calls)
            rep.check("Q-R7", f"{nm2}:signon(password)", ok, "" if ok else "the sign-on is not built from the password given", loc(p, fn2))


def q_r10_builders_keep_no_state(p: Project, rep: Report):
    """what a request says depends on the call's arguments and the client's configuration - not on earlier calls"""
    from .dataflow import writes_in
    from .rules_client import fmethods

    rep.rule("Q-R10", "composing a request leaves the client as it was: no method of OFXClient other than the constructor stores into the instance (self.x = ..., self.x[k] = ..., self.x.append / update / setdefault ...) - the cookie jar, which only the transport touches, aside.  A per-client memo of request parts (keyed by anything less than all the arguments) makes a later request carry what an EARLIER call asked for")
    ci = client_class(p)
    n = 0
    for nm, fn0, fn in fmethods(p, ci):
        if nm in ("__init__", "__new__"):
            continue
        for w in writes_in(fn):
            t = w.target
            root = t
            while isinstance(root, (ast.Attribute, ast.Subscript)):
                root = root.value
            if not (isinstance(root, ast.Name) and root.id == "self"):
                continue
            if w.kind in ("attr", "item", "del") or w.kind.startswith("call:"):
                tt = text(t)
                if "cookiejar" in tt or "cookies" in tt:
                    continue
                if w.kind.startswith("call:") and tt == "self":
                    continue
                # calls of read-only methods named like mutators on sub-objects are not stores
                n += 1
                rep.check("Q-R10", f"{nm}:{tt[:40]}:{w.kind}", False, f"OFXClient.{nm} stores into the client ({tt} via {w.kind}): the next request composed by this client depends on this call - e.g. an account aggregate remembered under (bank id, account id) is reused for a request that names another account type", loc(p, w.stmt))
    if n == 0:
        rep.check("Q-R10", "OFXClient:methods-store-nothing-on-self", True, "", loc(p, ci.node))


def q_r11_explicit_overrides_honoured(p: Project, rep: Report, only=None):
    """an argument that is given - False, 0 - is not replaced by the configured value"""
    rep.rule("Q-R11", "a per-call override of a client setting is replaced by the configured value only when it is None: for every bool / int parameter with default None (version, prettyprint, close_elements, ...) of an OFXClient method (private helpers included), the fall-back is written `if x is None` - never `x or self.x` / `x if x else self.x`, which also replace an explicit False (close_elements=False on a 2xx client then passes the must-close-all-tags guard and an SGML body goes out under an XML header) and an explicit 0 (version=0 is then sent as the client's own version instead of being refused)")
    from .rules_client import client_class

    ci = client_class(p)
    n = 0
    funcs = {f.name: f for f in ci.node.body if isinstance(f, (ast.FunctionDef, ast.AsyncFunctionDef))}
    for nm, fn in sorted(funcs.items()):
        a = fn.args
        allp = a.posonlyargs + a.args + a.kwonlyargs
        defaults = [None] * (len(a.posonlyargs + a.args) - len(a.defaults)) + list(a.defaults) + list(a.kw_defaults)
        cand = {}
        for arg, d in zip(allp, defaults):
            ann = text(arg.annotation) if arg.annotation is not None else ""
            if isinstance(d, ast.Constant) and d.value is None and ("bool" in ann or "int" in ann):
                cand[arg.arg] = "bool" if "bool" in ann else "int"
        if only is not None:
            cand = {k: v for k, v in cand.items() if k in only}
        if not cand:
            continue
        for x in ast.walk(fn):
            hit = None
            if isinstance(x, ast.BoolOp) and isinstance(x.op, ast.Or) and isinstance(x.values[0], ast.Name) and x.values[0].id in cand:
                hit = x.values[0].id
            elif isinstance(x, ast.IfExp) and isinstance(x.test, ast.Name) and x.test.id in cand:
                hit = x.test.id
            elif isinstance(x, ast.IfExp) and isinstance(x.test, ast.UnaryOp) and isinstance(x.test.op, ast.Not) and isinstance(x.test.operand, ast.Name) and x.test.operand.id in cand:
                hit = x.test.operand.id
            elif isinstance(x, ast.If) and isinstance(x.test, ast.UnaryOp) and isinstance(x.test.op, ast.Not) and isinstance(x.test.operand, ast.Name) and x.test.operand.id in cand and any(isinstance(s_, ast.Assign) and any(isinstance(t_, ast.Name) and t_.id == x.test.operand.id for t_ in s_.targets) for s_ in x.body):
                hit = x.test.operand.id
            if hit is None:
                continue
            # only a fall-back (the other operand is a configured value), not a plain truth test
            other = text(x)
            if "self." not in other:
                continue
            n += 1
            kind = cand[hit]
            rep.check("Q-R11", f"OFXClient.{nm}({hit}):override-replaced-only-when-None", False, f"OFXClient.{nm} falls back to the configured value with `{text(x)[:60]}`: an explicit {'False' if kind == 'bool' else '0'} for `{hit}` is replaced as if nothing had been passed" + (" - the per-call close_elements=False no longer reaches the `version >= 200 must close all tags` refusal, nor the writer" if hit == "close_elements" else (" - an out-of-range version given for one request is sent as the client's own version instead of being refused" if hit == "version" else "")), f"{p.module(ci.module).relpath}:{x.lineno}")
    ncand = sum(1 for nm, fn in funcs.items() for arg in fn.args.args + fn.args.kwonlyargs if arg.annotation is not None and ("bool" in text(arg.annotation) or "int" in text(arg.annotation)))
    rep.unit("bool_int_parameters", ncand)
    rep.check("Q-R11", "OFXClient:overrides-replaced-only-when-None", True, "", f"{ncand} bool/int parameters of OFXClient methods")


_ONE_SHOT_CONSUMERS = ("list", "tuple", "sorted", "set", "dict", "sum", "max", "min", "any", "all", "len", "join", "from_iterable", "chain", "extend", "enumerate", "zip", "map", "filter", "next", "frozenset")


def _consumptions(stmts_or_expr, name: str, resolve_fn, depth: int = 3) -> int:
    """upper bound of how often the one-shot iterator `name` is consumed on ONE path through the statements / expression:
    iteration (for / comprehension), a consuming builtin, or being handed to a function (counted by that function's own
    consumption of the parameter when it is a local / module function, else once).  if/else arms count by their maximum."""
    def expr(e) -> int:
        if e is None:
            return 0
        n = 0
        for x in ast.walk(e):
            if isinstance(x, ast.comprehension) and isinstance(x.iter, ast.Name) and x.iter.id == name:
                n += 1
            elif isinstance(x, ast.Call):
                for i_, a in enumerate(list(x.args) + [k.value for k in x.keywords]):
                    a = a.value if isinstance(a, ast.Starred) else a
                    if isinstance(a, ast.Name) and a.id == name:
                        callee = resolve_fn(x) if depth > 0 else None
                        if callee is not None:
                            ps = [q.arg for q in callee.args.args]
                            off = 1 if ps and ps[0] in ("self", "cls") and isinstance(x.func, ast.Attribute) else 0
                            idx = i_ + off
                            if i_ < len(x.args) and idx < len(ps):
                                n += _consumptions(callee.body, ps[idx], resolve_fn, depth - 1)
                            else:
                                n += 1
                        else:
                            n += 1
        return n

    def block(stmts) -> int:
        n = 0
        for st in stmts:
            # `rqs = list(rqs)`: one traversal, after which the name is a list and may be walked any number of times
            if isinstance(st, ast.Assign) and len(st.targets) == 1 and isinstance(st.targets[0], ast.Name) and st.targets[0].id == name and isinstance(st.value, ast.Call) and text(st.value.func) in ("list", "tuple", "sorted") and st.value.args and isinstance(st.value.args[0], ast.Name) and st.value.args[0].id == name:
                return n + 1
            if isinstance(st, ast.If):
                n += expr(st.test) + max(block(st.body), block(st.orelse))
            elif isinstance(st, (ast.For, ast.AsyncFor)):
                n += (1 if isinstance(st.iter, ast.Name) and st.iter.id == name else expr(st.iter)) + block(st.body) + block(st.orelse)
            elif isinstance(st, ast.While):
                n += expr(st.test) + block(st.body)
            elif isinstance(st, ast.Try):
                n += block(st.body) + max([block(h.body) for h in st.handlers] + [0]) + block(st.orelse) + block(st.finalbody)
            elif isinstance(st, ast.With):
                n += sum(expr(i.context_expr) for i in st.items) + block(st.body)
            elif isinstance(st, (ast.FunctionDef, ast.ClassDef)):
                continue
            else:
                n += expr(st)
        return n

    if isinstance(stmts_or_expr, list):
        return block(stmts_or_expr)
    return expr(stmts_or_expr)


def q_r12_groupby_groups_consumed_once(p: Project, rep: Report):
    """a group of itertools.groupby is a one-shot iterator"""
    rep.rule("Q-R12", "each group that itertools.groupby hands out while a request is composed (OFXClient.request_statements and the helpers it calls) is consumed ONCE on any path: the group is an iterator over the underlying sorted list and is empty after its first traversal - a second consumer added for a log line (`acctids = [rq.acctid for rq in rqs]` under isEnabledFor(DEBUG)) leaves the wrapper with nothing, so the message sets go out without a single transaction request when that logger is on")
    from .rules_client import client_class
    from .source import Func as _Func

    ci = client_class(p)
    m = p.module(CLIENT)
    n = 0
    for fname in ("request_statements", "request_accounts", "request_tax1099"):
        fn = ci.own_func(fname)
        if fn is None:
            continue
        nested = {st.name: st for st in ast.walk(fn) if isinstance(st, ast.FunctionDef) and st is not fn}

        def resolve_fn(call, nested=nested):
            f = call.func
            if isinstance(f, ast.Name):
                if f.id in nested:
                    return nested[f.id]
                r = p.resolve(CLIENT, f.id)
                if isinstance(r, _Func) and r.module == CLIENT and not any(isinstance(d, ast.Attribute) and d.attr == "singledispatch" or text(d) == "singledispatch" for d in r.node.decorator_list):
                    return r.node
            if isinstance(f, ast.Attribute) and isinstance(f.value, ast.Name) and f.value.id == "self":
                return ci.own_func(f.attr)
            return None

        for x in ast.walk(fn):
            gens = []
            if isinstance(x, (ast.ListComp, ast.GeneratorExp, ast.SetComp, ast.DictComp)):
                gens = [(g, x) for g in x.generators]
            elif isinstance(x, ast.For):
                gens = [(x, x)]
            for g, owner in gens:
                it = g.iter
                # groupby(...) directly, or a local bound once to it
                if isinstance(it, ast.Name):
                    bs = [s_.value for s_ in ast.walk(fn) if isinstance(s_, ast.Assign) and len(s_.targets) == 1 and isinstance(s_.targets[0], ast.Name) and s_.targets[0].id == it.id]
                    it = bs[0] if len(bs) == 1 else it
                if not (isinstance(it, ast.Call) and (dotted(it.func) or text(it.func)).split(".")[-1] == "groupby"):
                    continue
                tg = g.target
                if not (isinstance(tg, ast.Tuple) and len(tg.elts) == 2 and isinstance(tg.elts[1], ast.Name)):
                    continue
                grp = tg.elts[1].id
                n += 1
                if isinstance(owner, ast.For):
                    cnt = _consumptions(owner.body, grp, resolve_fn)
                else:
                    parts = [owner.elt] if hasattr(owner, "elt") else [owner.key, owner.value]
                    cnt = sum(_consumptions(e_, grp, resolve_fn) for e_ in parts) + sum(_consumptions(c_, grp, resolve_fn) for c_ in g.ifs)
                rep.check("Q-R12", f"OFXClient.{fname}:group({grp}):consumed-once", cnt <= 1, f"the groupby group `{grp}` is consumed {cnt} times on one path (helpers followed): after the first traversal it is empty, so the later consumer - the wrapper that builds the transaction requests - sees no request at all" if cnt > 1 else "", f"{m.relpath}:{g.iter.lineno}")
    rep.unit("groupby_groups", n)
    if n == 0:
        rep.note("Q-R12 undecided: no itertools.groupby iteration found in the request composition")


def q_r13_send_path_leaves_the_request_alone(p: Project, rep: Report):
    """composing, logging and sending do not edit the model that is sent"""
    rep.rule("Q-R13", "no method of OFXClient that is handed a request model (a parameter named `ofx` / annotated OFX: download, serialize and their private helpers) assigns an attribute or item of it, of an alias, or of a SHALLOW copy of it (copy.copy shares every child): `scrubbed = copy.copy(ofx); scrubbed.signonmsgsrqv1.sonrq.userpass = '********'` for a log line masks the password in the request that is then serialized and posted")
    from .rules_client import client_class

    ci = client_class(p)
    m = p.module(CLIENT)
    n = 0
    for fn in [f for f in ci.node.body if isinstance(f, ast.FunctionDef)]:
        roots = {a.arg: "the request" for a in fn.args.args + fn.args.kwonlyargs if a.arg == "ofx" or (a.annotation is not None and text(a.annotation) in ("OFX", "models.OFX"))}
        if not roots:
            continue
        n += 1
        changed = True
        while changed:
            changed = False
            for st in ast.walk(fn):
                if isinstance(st, ast.Assign) and len(st.targets) == 1 and isinstance(st.targets[0], ast.Name) and st.targets[0].id not in roots:
                    v = st.value
                    if isinstance(v, ast.Call) and (dotted(v.func) or text(v.func)) in ("copy.copy", "copy") and v.args and isinstance(v.args[0], ast.Name) and v.args[0].id in roots:
                        roots[st.targets[0].id] = "a shallow copy of the request"
                        changed = True
                    else:
                        base = v
                        while isinstance(base, (ast.Attribute, ast.Subscript)):
                            base = base.value
                        if isinstance(base, ast.Name) and base.id in roots and isinstance(v, (ast.Name, ast.Attribute, ast.Subscript)):
                            roots[st.targets[0].id] = "part of the request"
                            changed = True
        bad = None
        for st in ast.walk(fn):
            tgs = st.targets if isinstance(st, (ast.Assign, ast.Delete)) else ([st.target] if isinstance(st, (ast.AugAssign, ast.AnnAssign)) else [])
            for t in tgs:
                if not isinstance(t, (ast.Attribute, ast.Subscript)):
                    continue
                depth_, base = 0, t
                while isinstance(base, (ast.Attribute, ast.Subscript)):
                    base, depth_ = base.value, depth_ + 1
                if isinstance(base, ast.Name) and base.id in roots:
                    if roots[base.id] == "a shallow copy of the request" and depth_ < 2:
                        continue  # the copy's own slot
                    bad = bad or (st, roots[base.id])
            if isinstance(st, ast.Call) and isinstance(st.func, ast.Name) and st.func.id == "setattr" and st.args:
                base = st.args[0]
                while isinstance(base, (ast.Attribute, ast.Subscript)):
                    base = base.value
                if isinstance(base, ast.Name) and base.id in roots and not (roots[base.id] == "a shallow copy of the request" and isinstance(st.args[0], ast.Name)):
                    bad = bad or (st, roots[base.id])
        rep.check("Q-R13", f"OFXClient.{fn.name}:request-not-edited", bad is None, f"`{text(bad[0])[:60]}` writes into {bad[1]}: the model that is serialized and posted afterwards carries the edit (a password masked for the debug log is masked on the wire)" if bad else "", f"{m.relpath}:{(bad[0] if bad else fn).lineno}")
    rep.floor("Q-R13", n, 2, "methods handed a request model")
