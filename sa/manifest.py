"""Generates /verif/MANIFEST.json from the table below: /venv/bin/python -m sa.manifest"""
import json
import pathlib

VERIF = pathlib.Path(__file__).resolve().parent.parent
PY = "/venv/bin/python"

NOTE = (
    "Trusted: CPython ast/re._parser; stdlib semantics the library delegates to; the engine's model of Python class "
    "semantics (cross-checked against the imported package in the thorough tier). Decides only the clauses named in "
    "level_claimed.text; anything value-level is explicitly not decided. Behaviour under python -O (assert-based "
    "guards stripped) is not covered."
)

CLAIMS = {
    "C13": ("static schema analysis (AST class-model reconstruction + rule evaluation over all classes/children/constraints)",
            "Whole property, exhaustive over its finite quantifier (programs): for all 396 exported aggregate classes, 2122 declared children and all mutex groups, rules S-R1..S-R8 (tag agreement writer/reader, findable by tag, mutex members declared/non-repeated/non-required and inherited groups in force, list contiguity, list kinds, constraints that can fire, no container-API shadowing, buildable by keyword) plus mechanism rules M1..M5 tying them to models/base.py. Does not decide that construction succeeds for particular values.",
            "3 C13"),
    "C04": ("CFG must-pass-through / dominance over the construction funnel + schema rules + converter guard rules",
            "Enforcement clauses: single construction funnel (F-R1), validate_args / per-attribute setattr / _apply_args on every path of Aggregate.__init__ with no swallowing handler (F-R2), inherited mutex groups in force in every class and overrides chaining to the base (F-R3), reader order/duplicate/list-membership guards dominating the stores and strict (F-R4), counting predicates (F-R5), per-type guards T-R2..T-R5. Does not decide concrete boundary values beyond guard strictness.",
            "3 C04"),
    "C10": ("singledispatch handler-table extraction + CFG/reaching-definition rules on every handler",
            "Partial: None discipline, limits and wrong types. T-R1 dispatch completeness, T-R2 every None/empty path through enforce_required, T-R3 every String/Integer return out of enforce_length and every OneOf return behind the membership raise, T-R4 exact guard strictness (limit accepted, limit+1 rejected, warn-only strings kept whole), T-R5 unregistered types rejected, T-R6 Decimal quantize/same-quantum. Does not decide that write-then-read is the identity or canonical for values.",
            "3 C10"),
    "C16": ("flow-sensitive type narrowing of every @property over the reconstructed schema + exception-escape rule on __getattr__",
            "Shortcut typing and miss discipline: only AttributeError escapes Aggregate.__getattr__ (A-R1); every typed attribute read in every shortcut is defined on its type, every isinstance arm can match, request/response coverage symmetric (A-R2); aliases name declared children of the right kind (A-R3); OFX.statements/securities visit exactly the message sets defining the shortcut in document order (A-R4). Object identity follows since shortcuts only return attribute reads; it is not executed.",
            "3 C16"),
    "C14": ("effect (who-may-call), flag-pruned CFG reachability and per-branch provenance (reaching definitions) analysis of Client.py",
            "Whole mechanism on the client side: sinks only in post_request, none on a dry run, profile lookup unreachable under dryrun/skip_profile, exactly one literal POST per path with the serialized body / self.http_headers / the url parameter on both transports, header constants folded, profile sign-on only from AUTH_PLACEHOLDER, per-branch URL provenance (advertised URL vs self.url), per-instance cookie jar attached on both transports. urllib/requests internals are trusted.",
            "3 C14"),
    "C17": ("write-effect classification by target provenance (reaching definitions) with a frozen, side-condition-checked triage table",
            "Sufficient condition for purity/repeatability/thread-safety: no shared location written and read in scope (E-R1/E-R3), no mutation of caller-owned objects (E-R2), no mutable defaults / shared parser instances / memoised mutable results (E-R4), over all 198 functions and ~70 write sites of Types.py, models/**, Parser.py, header.py, utils.py, lib.py and OFXClient.serialize. A correct hand-written cache would be reported and must then be triaged.",
            "3 C17"),
    "C07": ("CFG dominance / handler-exit analysis of the reducer + chain and rename-path rules on every groom override",
            "Whole mechanism: the unknown-tag branch returns the accumulator it received and stores nothing (U-R1), sub-trees are converted only after a successful spec lookup (U-R2), vendor tags removed or skipped (U-R3, disjunctive), groom overrides chain to the base and _convert grooms before folding (U-R4), class-specific renames look at direct children only, including through helpers (U-R5).",
            "3 C07"),
}

PENDING_REASON = "check not built yet in this session; planned per DESIGN.md section 3 - not claimed until its check exists"
NA = {
    "C20": "check digits are arithmetic over runtime characters (weights, parity, letter expansion); no clause is visible in the shape of the code except constant tables, and comparing those with a frozen copy would alarm on behaviour-preserving edits while missing indexing slips - static analysis in reach cannot decide it (DESIGN.md section 4)",
}


def build():
    checks = []
    for pid in sorted(CLAIMS):
        tech, text, ref = CLAIMS[pid]
        checks.append(
            {
                "property_id": pid,
                "quick_cmd": f"cd /verif && {PY} -m sa.check {pid} --tier quick",
                "thorough_cmd": f"cd /verif && {PY} -m sa.check {pid} --tier thorough",
                "evidence_file": f"/verif/evidence/{pid}.json",
                "replay_cmd_template": f"cd /verif && {PY} -m sa.check {pid} --replay {{path}}",
                "engine": "sa",
                "level_claimed": {"category": "other", "text": text, "design_ref": f"DESIGN.md section {ref}"},
                "level_note": NOTE,
                "technique": "static analysis: " + tech,
            }
        )
    na = []
    for i in range(1, 21):
        pid = "C%02d" % i
        if pid in CLAIMS:
            continue
        na.append({"property_id": pid, "reason": NA.get(pid, PENDING_REASON)})
    return {
        "version": 1,
        "setup_cmd": f"cd /verif && {PY} -m compileall -q sa",
        "hooks": {
            "guard": "OFXTOOLS_VERIF",
            "enable": "none needed: the checks read /repo's source and never execute or instrument it; no hook commits exist",
            "baseline_off_cmd": f"cd /repo && {PY} -m pytest -ra -q -p no:cacheprovider --timeout=900 --continue-on-collection-errors",
            "source_commits": [],
            "add_only": True,
        },
        "engines": [
            {
                "name": "sa",
                "path": "/verif/sa",
                "serves_properties": sorted(CLAIMS),
                "kind_free_text": "repository-specific static analyser (stdlib ast + re._parser only): source model with demand-driven name resolution, class/schema reconstruction, statement CFG with path queries, reaching definitions, singledispatch handler tables, regex-AST language enumeration, write-effect classification",
            }
        ],
        "checks": checks,
        "not_applicable": na,
        "notes": "Exit protocol: 0 = all obligations discharged or listed in known_findings.json (KNOWN-FINDING lines); 1 = VIOLATION; 2 = ANALYSIS-ERROR (the analyser can no longer see the mechanism; never a property verdict). OFXTOOLS_VERIF_REPO overrides the analysed tree (default /repo).",
    }


if __name__ == "__main__":
    (VERIF / "MANIFEST.json").write_text(json.dumps(build(), indent=1) + "\n")
    print("MANIFEST.json written:", len(build()["checks"]), "checks")
