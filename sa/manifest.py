"""Generates /verif/MANIFEST.json from the table below: /venv/bin/python -m sa.manifest"""
import json
import pathlib

VERIF = pathlib.Path(__file__).resolve().parent.parent
PY = "/venv/bin/python"

NOTE = (
    "Trusted: CPython ast/re._parser; stdlib semantics the library delegates to; the engine's model of Python class "
    "semantics (cross-checked against the imported package in the thorough tier). Decides only the clauses named in "
    "level_claimed.text; anything value-level is explicitly not decided. Behaviour under python -O (assert-based "
    "guards stripped) is not covered."
)

CLAIMS = {
    "C13": ("static schema analysis (AST class-model reconstruction + rule evaluation over all classes/children/constraints)",
            "Whole property, exhaustive over its finite quantifier (programs): for all 396 exported aggregate classes, 2122 declared children and all mutex groups, rules S-R1..S-R8 (tag agreement writer/reader, findable by tag, mutex members declared/non-repeated/non-required and inherited groups in force, list contiguity, list kinds, constraints that can fire, no container-API shadowing, buildable by keyword) plus mechanism rules M1..M5 tying them to models/base.py. Does not decide that construction succeeds for particular values.",
            "3 C13"),
    "C04": ("CFG must-pass-through / dominance over the construction funnel + schema rules + converter guard rules",
            "Enforcement clauses: single construction funnel (F-R1), validate_args / per-attribute setattr / _apply_args on every path of Aggregate.__init__ with no swallowing handler (F-R2), inherited mutex groups in force in every class and overrides chaining to the base (F-R3), reader order/duplicate/list-membership guards dominating the stores and strict (F-R4), counting predicates (F-R5), per-type guards T-R2..T-R5. Does not decide concrete boundary values beyond guard strictness.",
            "3 C04"),
    "C10": ("singledispatch handler-table extraction + CFG/reaching-definition rules on every handler",
            "Partial: None discipline, limits and wrong types. T-R1 dispatch completeness, T-R2 every None/empty path through enforce_required, T-R3 every String/Integer return out of enforce_length and every OneOf return behind the membership raise, T-R4 exact guard strictness (limit accepted, limit+1 rejected, warn-only strings kept whole), T-R5 unregistered types rejected, T-R6 Decimal quantize/same-quantum. Does not decide that write-then-read is the identity or canonical for values.",
            "3 C10"),
    "C16": ("flow-sensitive type narrowing of every @property over the reconstructed schema + exception-escape rule on __getattr__",
            "Shortcut typing and miss discipline: only AttributeError escapes Aggregate.__getattr__ (A-R1); every typed attribute read in every shortcut is defined on its type, every isinstance arm can match, request/response coverage symmetric (A-R2); aliases name declared children of the right kind (A-R3); OFX.statements/securities visit exactly the message sets defining the shortcut in document order (A-R4). Object identity follows since shortcuts only return attribute reads; it is not executed.",
            "3 C16"),
    "C14": ("effect (who-may-call), flag-pruned CFG reachability and per-branch provenance (reaching definitions) analysis of Client.py",
            "Whole mechanism on the client side: sinks only in post_request, none on a dry run, profile lookup unreachable under dryrun/skip_profile, exactly one literal POST per path with the serialized body / self.http_headers / the url parameter on both transports, header constants folded, profile sign-on only from AUTH_PLACEHOLDER, per-branch URL provenance (advertised URL vs self.url), per-instance cookie jar attached on both transports. urllib/requests internals are trusted.",
            "3 C14"),
    "C17": ("write-effect classification by target provenance (reaching definitions) with a frozen, side-condition-checked triage table",
            "Sufficient condition for purity/repeatability/thread-safety: no shared location written and read in scope (E-R1/E-R3), no mutation of caller-owned objects (E-R2), no mutable defaults / shared parser instances / memoised mutable results (E-R4), over all 198 functions and ~70 write sites of Types.py, models/**, Parser.py, header.py, utils.py, lib.py and OFXClient.serialize. A correct hand-written cache would be reported and must then be triaged.",
            "3 C17"),
    "C01": ("writer/reader agreement rules over the reconstructed schema + abstract-shape evaluation of the leaf predicates + taint rule for escaping",
            "Partial - necessary structural conditions of the round trip only: tag tables and child order agree for all classes (S-R1/S-R4/S-R5, M1..M5), the end-tag-less writer omits end tags only for shapes the reader closes by itself (W-R2), element text is escaped with entities the reader decodes (L-R2/W-R3), converter pairing (T-R1), serialize() version/end-tag guards (Q-R6), no HTML-special tag names (W-R6), pretty-printer writes whitespace only (W-R7). Does not decide equality of values (decimal exponent, millisecond rounding, string content).",
            "3 C01"),
    "C02": ("regex syntax-tree analysis of the tokenizer (re._parser) + flag-pruned CFG of _start",
            "Partial - regex clauses and the leaf/aggregate decision: tag alphabet, back-referenced optional end tag, non-greedy any-character CDATA content, text class and trimming, data unmodified, every element started once and a leaf closed exactly once (X-R1..X-R6) plus the nesting discipline P-R1..P-R4. Does not decide equivalence of renderings over the infinite input space.",
            "3 C02"),
    "C03": ("reaching-definition dataflow of the reducer + decode-table comparison with the property's own enumeration",
            "Partial - placement and the decode tables the statement enumerates: value provenance and keying in the reducer (V-R1, M1, M2), document order of list members (V-R2), absent children None (V-R3), descriptor slots (V-R4), boolean table exactly Y/N (V-R5), single-pass six-entity decoder (V-R6), both decimal separators (V-R7), date field plumbing and sign of offset minutes (Z-R4, Z-R5). Does not decide the typed value in general.",
            "3 C03"),
    "C05": ("offset provenance (reaching definitions) in parse_header + codec table normalised through codecs.lookup",
            "Partial - offset provenance and codec: the string whose match end is the seek offset is exactly what was read since header_start, single-byte decoded (H-R1); codec = codecs[charset] on every path and the table maps to latin-1/cp1252/utf-8 (H-R2); the v2 path slices the string it searched (H-R3). Does not decide which layouts the regexes tolerate on concrete bytes.",
            "3 C05"),
    "C06": ("parameter-use, keyword/child agreement against the schema, dispatch-table agreement, CFG guards and pipeline-shape rules on Client.py",
            "Partial - composition clauses: no parameter dropped (Q-R1), constructor keywords carry the like-named values and name declared children (Q-R2), tuples/handlers/builders/message sets agree (Q-R3), CLIENTUID and FI decisions (Q-R4), fresh trnuid per wrapper (Q-R5), end-tag-less writer only below 200 and header for the effective version (Q-R6), the request pipeline only sorts/groups/flattens with order-preserving keys (Q-R7). Does not decide byte-level well-formedness beyond escaping.",
            "3 C06"),
    "C08": ("typestate analysis of TreeBuilder (CFG dominance of raising guards over the delegated end/close/start)",
            "Whole mechanism: the closing tag is compared with the innermost open tag before every delegated end (P-R1), close() refuses open elements and parse returns only close() (P-R2), a start after the root closed raises (P-R3), tail text / data after an end tag raise and feed re-raises (P-R4). Says nothing about well-formed input.",
            "3 C08"),
    "C09": ("exact finite-language enumeration of regex groups from the regex syntax tree + CFG guards + sign-domain abstract interpretation",
            "Partial - rejection clause, writer shape, offset sign: field languages equal the OFX ranges, anchoring, literal separators, failed match raises (Z-R1, Z-R1b); naive values refused on every write path (Z-R2, disjunctive); writer offset shape inside the reader grammar (Z-R3, L-R3); field-to-value plumbing (Z-R4); minutes take the sign of the hours (Z-R5). Does not decide which instant a text denotes in general, rounding, or the '-0.30' case.",
            "3 C09"),
    "C11": ("return-shape and dominance rules on the write handlers + taint rule element-text -> output",
            "Partial - lexical clauses: fixed-point decimal writer behind a non-finite refusal (L-R1), escaping on the hand-written wire form (L-R2), Bool/Integer/DateTime/Time writer shapes (L-R3), naive refusal (Z-R2), length/membership re-checked on write and unregistered types rejected (T-R3, T-R5). Does not decide the digits of particular values.",
            "3 C11"),
    "C12": ("agreement of writer field table / regex groups (syntax tree) / constructor parameters / validators; CFG of the wrapping try",
            "Partial: B-R1 field agreement, B-R2 every field validated inside the ValueError->OFXHeaderError try, B-R3 routing and error conversion, B-R4 validator parameters, B-R5 parse passes captures unmodified, B-R6 reader regex covers every token the writer can emit. Does not decide which tokens are valid beyond what the validators declare.",
            "3 C12"),
    "C15": ("CFG dominance and per-branch provenance rules on request_profile",
            "Partial - write discipline only: validate before overwrite (K-R1), atomic replace with a per-writer-unique temp name (K-R2), cache key identifies the server - ORG, FID, URL separately (K-R3; URL is a known finding), ask with the date held (K-R4). Histories, crash points and interleavings as such are NOT decided: no static argument in reach bounds them.",
            "3 C15"),
    "C18": ("provenance of ChainMap layers, table agreement (DEFAULTS / argparse dests / CONFIGURABLE / reader and writer handlers), CFG of write_config",
            "Partial - precedence structure and persistence tables: G-R1 layer order incl. OFX Home and FI-db/user-file order, G-R2 every key has a default, G-R6 absent flags do not outrank files, G-R3 reader/writer/persistable tables agree, G-R7 skip filter baseline, G-R4 nothing on a dry run and one default CLIENTUID, G-R5 '%' escaped. Does not decide list quoting for odd ids or multi-run histories beyond these clauses.",
            "3 C18"),
    "C19": ("request-table rules (option -> request kind / keyword -> like-named source) and guard rules on the account-info parsers",
            "Partial - request tables and the ACTIVE filter: J-R1 each account option iterated once into the right request kind with like-named dates/flags, all built requests passed on, --all merges first, OFXClient parameters from like-named options; J-R2 every discovered id collected under svcstatus == 'ACTIVE', dispatcher keys/coverage, groupby fed sorted records. Does not decide the interplay of discovered and configured accounts for concrete values.",
            "3 C19"),
    "C07": ("CFG dominance / handler-exit analysis of the reducer + chain and rename-path rules on every groom override",
            "Whole mechanism: the unknown-tag branch returns the accumulator it received and stores nothing (U-R1), sub-trees are converted only after a successful spec lookup (U-R2), vendor tags removed or skipped (U-R3, disjunctive), groom overrides chain to the base and _convert grooms before folding (U-R4), class-specific renames look at direct children only, including through helpers (U-R5).",
            "3 C07"),
}

EXTRA = {
    "C01": " Also: one positional sequence for list members (M2), date-times as instants (Z-R3..Z-R7), closed writer cannot emit <X /> (Q-R6), header/body hand-over (B, H rules). Round 5: every class found under its tag (S-R2), millisecond format (L-R3). Round 6: reader rules V-R1..V-R7 (entity decoder decodes once), only B-R1/B-R3/B-R6 of the header family. Round 7: to_etree builds its result on every call (M3), the closed writer writes characters, not character references (Q-R6). Round 8: Integer reader not through float (T-R3), groom overrides only retag (U-R9). Round 9: constraints in validate_args are route-independent - kwargs values are not ordered or computed with (S-R6d). Z-R5b (sign of [-0.30]). Round 10: open-tag stack per instance (P-R1 clause). Round 11: per-class memo not read through inheritance, descriptors included (S-R10); written children always recorded by the reader (W-R11 = F-R4 clause); CDATA content spans lines (X-R3; D18 fixed in 2aef96b).",
    "C02": " Also: tag group of unbounded length (X-R1), tail group independent of the end-tag group (X-R7), every match dispatched (P-R6), no early exit from the token loop (P-R7). Round 5: the stack of open tags is per instance (P-R1). Round 7: start() refuses nothing but a second root (P-R3). Round 9: one tokenizer - no second markup parser constructed in ofxtools.Parser (P-R8). Round 10: the conditions before an end() imply end tag / data / close tag (P-R10); feed() tokenizes the text it was given (P-R7). Round 11: CDATA content spans lines and may be set off by whitespace (X-R3; D18 fixed in 2aef96b).",
    "C03": " Also: no decimal context arithmetic in the converters (T-R6b), tokenizer rules X-R*; comma never dropped (V-R7), no implicit concatenation in token tables (V-R8), one sequence for list members (M2), grammar and carrier date of times (Z-R1, Z-R6). Round 5: normalised values labelled UTC (Z-R4), CHARSET codec table (H-R2). Round 6: values at a limit reach the model (T-R4), one descriptor per child (S-R9), reducer rules also on the loop form of the fold. Round 8: groom overrides only retag (U-R9). Round 9: OFXTree.convert() builds the model in every call (P-R9); limit switches are declarations, not run-time state (T-R4b). One seeded change declined (enumeration contents are specification data). Round 10: offset range tests written with module constants admit -12..+14 (V-R13 = Z-R8); decoded text handed on unaltered (V-R6). Round 11: every child's class reachable by tag (V-R14 = S-R2); unknown tag leaves the fold's state alone (U-R1 / U-R1b); zone table consistent (Z-R12).",
    "C04": " Also: guard tables T-R4 measure the value itself. Round 6: a declared child is never skipped without trace (F-R4), order guard decided on paths, loop form of the fold. Round 7: mutex members counted by `is not None` (F-R5, structural), groupby in overrides fed sorted input (S-R6), mutex tables re-iterable (E-R7). Round 8: per-class tables not read through inheritance, also under computed names (S-R10). Round 9: overrides forward *args/**kwargs as received (S-R6), constraints route-independent (S-R6d), groom overrides do not re-sequence children (F-R4b = U-R9). Round 10: T-R4b (no run-time switch of String.strict). One seeded change declined (order of declarations is the only statement of the spec order). Round 11: U-R1 / U-R1b (an unknown tag does not reset the order check); all_equal compares every member (S-R6e).",
    "C05": " Also, path by path: every version-1 path repositions before reading, body handed over whole and without newline translation (H-R1); quote back-references of the XML declaration (B-R9). Round 5: everything read ahead of the header is decoded by a total, one-character-per-byte decoder (H-R1; defect D16 fixed in a240aaf). Round 6: relative seek form (H-R1). Round 7: every v1 path decodes the body with the parsed header's codec (H-R1). Round 9: the decoded body is wrapped in nothing but a whitespace strip on every path (H-R1 body-not-rewritten); header fields stored as given, through nothing but int()/str()/validator (B-R2). Round 10: nothing between read() and decode() (H-R1). Round 11: validators and patterns of the header fields (B-R4, B-R6); body not cut by an upper-bounded slice (H-R1).",
    "C06": " Also: aware datetimes are never relabelled (Z-R7), writer offset notation (Z-R3), closed writer (Q-R6). Round 5: what is sorted and grouped is the whole multiset of requests (Q-R7). Round 6: string writers return what was checked (Q-R8 = T-R3). Round 7: constructor arguments stored and profile sign-on anonymous (Q-R9 = N-R9/N-R6). Round 8: keyword values are the caller's values unedited and flags not hard-wired (Q-R2), composing stores nothing on the client (Q-R10). Round 9: supplied text is kept - no str reader reached from Element.__set__ decodes entities (T-R10; known finding F6 on today's tree); offset minutes take the sign of the hours (Z-R5); indent() stores only indentation (W-R7). Round 10: sign not printed by a numeric format of the hours part (Z-R3). Round 11: a parameter overwritten by None before use (Q-R2); format templates of the unclosed writer are literals (L-R2).",
    "C07": " Also: positional deletions in descending order (U-R7), every matched tag dispatched / no early exit (P-R6, P-R7), tokenizer rules X-R*. Round 5: .text/.tail of unknown elements never used as an object unguarded (U-R8); open-tag stack per instance (P-R1). Round 6: loop form of the fold (break in the unknown-tag branch), membership test in place of the try (U-R1). Round 9: loop form of the fold - state carried between children is not assigned on the unknown-tag path (U-R1b). Round 11: no partial table indexed by a child's tag (U-R10); hand-over clauses of H-R1 (U-R11).",
    "C08": " Also: every matched tag dispatched (P-R6), no early exit from the token loop (P-R7), tail group independent (X-R7), body handed over whole (H-R1). Round 5: open-tag stack per instance (P-R1). Round 6: the tail group matches every non-'<' run from its first character (X-R4). Round 9: one tokenizer (P-R8); no invented end - self.end() only from the dispatcher on a tested match (P-R10).",
    "C09": " Also: whole-hour offsets and zone-table fallback (Z-R4); carrier date of Time arithmetic (Z-R6), aware values kept (Z-R7), awareness decided by utcoffset() (Z-R2), zone-name group admits written names (Z-R3). Round 5: UTC label (Z-R4), range tests on offset hours admit -12..+14 (Z-R8), no run-time memo table in the date routines (Z-R9), exact millisecond format (L-R3). Round 6: only int() may fail in the statement that falls back to the zone table (Z-R4). Round 9: the sign of an offset survives an hours field of zero - int(<hours text>) needs a test of the text's sign character (Z-R5b; D9 fixed in e4b95cf). Round 10: zone data read from the value as given (Z-R10); Z-R3 signed-format clause. Round 11: zone table consistent (Z-R12); dates typed at the command line reach the converter as typed (Z-R11 = J-R9).",
    "C10": " Also Z-R2/Z-R4..Z-R7 for the date/time converters. Round 5: OneOf.valid never re-bound to one member (T-R3). Round 6: date/time grammar (T-R8 = Z-R1/Z-R1b), len(str(value)) is not a digit count (T-R4). Round 7: writer inside the reader's grammar (T-R9 = Z-R3). Round 9: no handler registered for a foreign type, Union annotations split (T-R1); limit switches never assigned at run time (T-R4b); the two decode tables (V-R5, V-R6); supplied text kept (T-R10; known finding F6). Z-R5b (sign of [-0.30]). Round 11: subclass declaration wins in _superdict (S-R12); offset domain (Z-R8).",
    "C11": " Also: length guard measures the value (T-R4), offset notation (Z-R3), list elements through their converter (L-R4). Round 7: offset pieces cut from strftime('%z') with both bounds (Z-R3). Round 9: limit switches (String.strict ...) never assigned at run time (T-R4b).",
    "C12": " Also: mandatory fields on the pattern's mandatory spine (B-R7), no bounded repetition at the unanchored end (B-R8), routing by int(version)//100 (leading-digit routing recognised as wrong). Round 5: the refusing side of the validators is evaluated here too (T-R2/T-R3/T-R4); v1 token fields admit exactly the OFX 1.x tokens (B-R4). Round 6: no field normalised before validation (B-R2). Round 7: int()-converted fields captured by digit-only groups (B-R11); header text validated as read, byte for character (B-R12 = chunk clauses of H-R1). Round 9: digit count never by two-argument math.log (T-R4); a `version` parameter of a request method is never dropped (B-R13 = version clause of Q-R1); T-R4b. Round 11: str(header) built on every call (B-R14); self.version never swapped by a request (B-R15 = Q-R10 clause).",
    "C13": " Also: one descriptor object per child (S-R9), token tables without implicit concatenation (V-R8). Round 5: no class-level table remembered on cls and read through inheritance (S-R10). Round 7: every child an override tests can be supplied (S-R6c, exhaustive truth table), mutex tables re-iterable (S-R11 = E-R7). Round 9: groom/ungroom overrides only rename (S-R11 = U-R9, helpers followed, elem[:] = ...); route-independent constraints (S-R6d). Round 11: S-R12, S-R6e.",
    "C14": " Also: service URLs from the current profile (N-R10 = K-R1 return rules); every constructor parameter stored under its own name (N-R9). Round 5: self.url stored only by __init__ (N-R11). Round 7: no handler re-sends the body, no send in a loop or exception handler (N-R12). Round 9: no function of the package re-binds a client's cookie jar or clears / edits one (N-R8). Round 10: the jar has the default cookie policy (N-R8). Round 11: the requests transport stores what the server sets (N-R8); cache key quality (N-R13 = K-R3 clauses).",
    "C15": " Also: a fresh profile returns what the server sent (K-R1), key components reach the name whole (K-R3); rename after the temporary file is closed (K-R2), returned stream rewound (K-R1). All on enumerated paths of the flattened method with value origins. Round 5: the server's response is handed back only when not older than the held profile (K-R1); DTPROFUP written with an exact millisecond field (K-R5 = L-R3). Round 6: the held date is read by the DateTime reader whose offset plumbing is Z-R4/Z-R5 (K-R6). Round 7: K-R2 reads tempfile.NamedTemporaryFile / mkstemp. Round 9: no many-to-one rewriting of ORG/FID in the cache file name (K-R3 unmerged); a truncated response is refused - no invented end tags (K-R7 = P-R10). Round 10: no per-process hash()/id() in the cache file name (K-R3). Round 11: zone table consistent (Z-R12); end() compares the innermost open tag (P-R1 clauses).",
    "C16": " Also: no cached shortcut (A-R5), utils.UTC picklable (A-R6); a successful proxied read is returned whatever its value (A-R1), per-element unrolling of loops over explicit alternatives (A-R2), `or <default>` on a sub-aggregate and document order of shortcut lists (A-R3). Round 5: per-class sub-aggregate tables (A-R7 = S-R10); possibly-None locals collected only under `is not None` (A-R3). Round 6: truth tests of aggregates that cannot have list members (A-R2). Round 7: shortcuts leave the model as it was (A-R8 = effect rules on properties), default copy protocol (A-R9). Round 8: an alias is the child on every path and shortcuts raise only AttributeError (A-R3). Round 9: no swallowed miss - a getter whose name a sub-aggregate can answer has no unguarded read that raises AttributeError on a valid instance (A-R10); alias properties typed. Round 10: Element.__get__ never answers an unset slot with AttributeError (A-R1); shortcuts never hand out copies (A-R3).",
    "C17": " Also: class-level mutex tables re-iterable (E-R7), no memoisation keyed on non-text arguments (E-R8); class-level containers mutated through self (triage 8a), text wrappers around caller streams detached (E-R5), decimal context untouched (E-R6). Round 7: shallow copies share their members; `x += seq` on an alias is an in-place change. Round 10: no process-wide interpreter setting changed (E-R9: warnings filters, decimal context, locale ...).",
    "C18": " Also: OFX Home consulted whenever configured (G-R1, path conditions), writer/reader agree on '%' (G-R5), read_config returns what it read (G-R3), argparse declarations by abstract interpretation. Round 5: the user file is re-read before it is opened for writing (G-R4). Round 6: OFX Home record used whatever its fields (G-R1), boolean client arguments deliver both values (G-R8); dry-run / CLIENTUID / reload clauses decided on paths. Round 7: boolean reader knows all true spellings, list reader splits on the comma alone (G-R3), section read = section written (G-R9). Round 8: skipped options are cleared from the section (G-R7; defect D17 fixed in f973700), only USERCFG.write reaches the user's file (G-R10). Round 9: 'unset' is NULL_ARGS membership, never falsiness (G-R7); values picked from individual sources name them in rank order (G-R1). Round 10: every urlopen of the OFX Home lookup inside the URLError-handling try (G-R11). Round 11: regex list separator needs a comma (G-R3); FID repair keeps the element (G-R12).",
    "C19": " Also: discovered accounts inserted right after the command line, string writers return what was checked (J-R5 = T-R3); command-line layer keeps every non-None value (J-R3), date plumbing (J-R4 = Z-R4/Z-R5), sending client built after the merge. Round 5: parameters of the request builders reach the like-named children (J-R6 = Q-R1/Q-R2), ofxget token tables (V-R8). Round 6: --all merge-before-read decided on paths with flag locals. Round 7: list reader clause (J-R7 = G-R3). Round 8: include flags not hard-wired (Q-R2). Round 9: argparse dests and args[k] reads are DEFAULTS keys (J-R8 = G-R2); a builder keyword is not `<param> if <other param> else None` (Q-R2). Round 10: date options reach the converter as typed (J-R9). Round 11: one-shot iterators consumed once (J-R10); user file read after the FI database (J-R11 = G-R1 clause).",
}

PENDING_REASON = "check not built yet in this session; planned per DESIGN.md section 3 - not claimed until its check exists"
NA = {
    "C20": "check digits are arithmetic over runtime characters (weights, parity, letter expansion); no clause is visible in the shape of the code except constant tables, and comparing those with a frozen copy would alarm on behaviour-preserving edits while missing indexing slips - static analysis in reach cannot decide it (DESIGN.md section 4)",
}


def build():
    checks = []
    for pid in sorted(CLAIMS):
        tech, text, ref = CLAIMS[pid]
        checks.append(
            {
                "property_id": pid,
                "quick_cmd": f"cd /verif && {PY} -m sa.check {pid} --tier quick",
                "thorough_cmd": f"cd /verif && {PY} -m sa.check {pid} --tier thorough",
                "evidence_file": f"/verif/evidence/{pid}.json",
                "replay_cmd_template": f"cd /verif && {PY} -m sa.check {pid} --replay {{path}}",
                "engine": "sa",
                "level_claimed": {"category": "other", "text": text + EXTRA.get(pid, ""), "design_ref": f"DESIGN.md section {ref}"},
                "level_note": NOTE,
                "technique": "static analysis: " + tech,
            }
        )
    na = []
    for i in range(1, 21):
        pid = "C%02d" % i
        if pid in CLAIMS:
            continue
        na.append({"property_id": pid, "reason": NA.get(pid, PENDING_REASON)})
    return {
        "version": 1,
        "setup_cmd": f"cd /verif && {PY} -m compileall -q sa",
        "hooks": {
            "guard": "OFXTOOLS_VERIF",
            "enable": "none needed: the checks read /repo's source and never execute or instrument it; no hook commits exist",
            "baseline_off_cmd": f"cd /repo && {PY} -m pytest -ra -q -p no:cacheprovider --timeout=900 --continue-on-collection-errors",
            "source_commits": [],
            "add_only": True,
        },
        "engines": [
            {
                "name": "sa",
                "path": "/verif/sa",
                "serves_properties": sorted(CLAIMS),
                "kind_free_text": "repository-specific static analyser (stdlib ast + re._parser only): source model with demand-driven name resolution, class/schema reconstruction, statement CFG with path queries, reaching definitions, singledispatch handler tables, regex-AST language enumeration, write-effect classification",
            }
        ],
        "checks": checks,
        "not_applicable": na,
        "notes": "Exit protocol: 0 = every obligation discharged, or listed in known_findings.json (KNOWN-FINDING lines), or left undecided (UNDECIDED property=<id> <rule>: <why> lines - the rule could not recognise its mechanism in this tree; recorded in the evidence, never a violation); 1 = VIOLATION (a recognised mechanism is recognisably wrong; the line above names file:line, rule and construct); 2 = ANALYSIS-ERROR (internal error of the analyser; never a property verdict). Rules work on canonicalised (flattened) functions and path-condition tables, see DESIGN.md section 10. OFXTOOLS_VERIF_REPO overrides the analysed tree (default /repo).",
    }


if __name__ == "__main__":
    (VERIF / "MANIFEST.json").write_text(json.dumps(build(), indent=1) + "\n")
    print("MANIFEST.json written:", len(build()["checks"]), "checks")
