"""Generates /verif/MANIFEST.json from the table below: /venv/bin/python -m sa.manifest"""
import json
import pathlib

VERIF = pathlib.Path(__file__).resolve().parent.parent
PY = "/venv/bin/python"

NOTE = (
    "Trusted: CPython ast/re._parser; stdlib semantics the library delegates to; the engine's model of Python class "
    "semantics (cross-checked against the imported package in the thorough tier). Decides only the clauses named in "
    "level_claimed.text; anything value-level is explicitly not decided. Behaviour under python -O (assert-based "
    "guards stripped) is not covered."
)

CLAIMS = {
    "C13": ("static schema analysis (AST class-model reconstruction + rule evaluation over all classes/children/constraints)",
            "Whole property, exhaustive over its finite quantifier (programs): for all 396 exported aggregate classes, 2122 declared children and all mutex groups, rules S-R1..S-R8 (tag agreement writer/reader, findable by tag, mutex members declared/non-repeated/non-required and inherited groups in force, list contiguity, list kinds, constraints that can fire, no container-API shadowing, buildable by keyword) plus mechanism rules M1..M5 tying them to models/base.py. Does not decide that construction succeeds for particular values.",
            "3 C13"),
}

PENDING_REASON = "check not built yet in this session; planned per DESIGN.md section 3 - not claimed until its check exists"
NA = {
    "C20": "check digits are arithmetic over runtime characters (weights, parity, letter expansion); no clause is visible in the shape of the code except constant tables, and comparing those with a frozen copy would alarm on behaviour-preserving edits while missing indexing slips - static analysis in reach cannot decide it (DESIGN.md section 4)",
}


def build():
    checks = []
    for pid in sorted(CLAIMS):
        tech, text, ref = CLAIMS[pid]
        checks.append(
            {
                "property_id": pid,
                "quick_cmd": f"cd /verif && {PY} -m sa.check {pid} --tier quick",
                "thorough_cmd": f"cd /verif && {PY} -m sa.check {pid} --tier thorough",
                "evidence_file": f"/verif/evidence/{pid}.json",
                "replay_cmd_template": f"cd /verif && {PY} -m sa.check {pid} --replay {{path}}",
                "engine": "sa",
                "level_claimed": {"category": "other", "text": text, "design_ref": f"DESIGN.md section {ref}"},
                "level_note": NOTE,
                "technique": "static analysis: " + tech,
            }
        )
    na = []
    for i in range(1, 21):
        pid = "C%02d" % i
        if pid in CLAIMS:
            continue
        na.append({"property_id": pid, "reason": NA.get(pid, PENDING_REASON)})
    return {
        "version": 1,
        "setup_cmd": f"cd /verif && {PY} -m compileall -q sa",
        "hooks": {
            "guard": "OFXTOOLS_VERIF",
            "enable": "none needed: the checks read /repo's source and never execute or instrument it; no hook commits exist",
            "baseline_off_cmd": f"cd /repo && {PY} -m pytest -ra -q -p no:cacheprovider --timeout=900 --continue-on-collection-errors",
            "source_commits": [],
            "add_only": True,
        },
        "engines": [
            {
                "name": "sa",
                "path": "/verif/sa",
                "serves_properties": sorted(CLAIMS),
                "kind_free_text": "repository-specific static analyser (stdlib ast + re._parser only): source model with demand-driven name resolution, class/schema reconstruction, statement CFG with path queries, reaching definitions, singledispatch handler tables, regex-AST language enumeration, write-effect classification",
            }
        ],
        "checks": checks,
        "not_applicable": na,
        "notes": "Exit protocol: 0 = all obligations discharged or listed in known_findings.json (KNOWN-FINDING lines); 1 = VIOLATION; 2 = ANALYSIS-ERROR (the analyser can no longer see the mechanism; never a property verdict). OFXTOOLS_VERIF_REPO overrides the analysed tree (default /repo).",
    }


if __name__ == "__main__":
    (VERIF / "MANIFEST.json").write_text(json.dumps(build(), indent=1) + "\n")
    print("MANIFEST.json written:", len(build()["checks"]), "checks")
