"""Catalogue of seeded faults (must be reported) and benign edits (must stay silent).
Each entry is a list of exact-text replacements on the current working tree; an entry whose anchor
text is gone is skipped (not-applicable), never an error."""

B_ = "ofxtools/models/base.py"
T_ = "ofxtools/Types.py"
C_ = "ofxtools/Client.py"
P_ = "ofxtools/Parser.py"
H_ = "ofxtools/header.py"
G_ = "ofxtools/scripts/ofxget.py"
U_ = "ofxtools/utils.py"

MUTANTS = []


def F(mid, props, *edits):
    MUTANTS.append({"id": mid, "kind": "fault", "props": props if isinstance(props, list) else [props], "edits": list(edits)})


def B(mid, props, *edits):
    MUTANTS.append({"id": mid, "kind": "benign", "props": props if isinstance(props, list) else [props], "edits": list(edits)})


ALL = ["C%02d" % i for i in range(1, 20)]

# ---------------------------------------------------------------- C13 / schema
F("rename-child", ["C13", "C01"], ("ofxtools/models/bank/msgsets.py", "    stmttrnrq = ListAggregate(STMTTRNRQ)", "    stmttrnrqs = ListAggregate(STMTTRNRQ)"))
F("revert-D1", ["C13", "C01"], ("ofxtools/models/billpay/msgsets.py", "    pmtmailtrnrs = ListAggregate(PMTMAILTRNRS)", "    pmtmailtrns = ListAggregate(PMTMAILTRNRS)"))
F("retarget-child", ["C13"], ("ofxtools/models/bank/stmt.py", "    availbal = SubAggregate(AVAILBAL)\n", "    availbal = SubAggregate(LEDGERBAL)\n", 2))
F("scalar-between-lists", ["C13", "C01"], ("ofxtools/models/invest/stmt.py", "    vestinfo = ListAggregate(VESTINFO)\n    loaninfo = ListAggregate(LOANINFO)\n    inv401ksummary = SubAggregate(INV401KSUMMARY)", "    vestinfo = ListAggregate(VESTINFO)\n    inv401ksummary = SubAggregate(INV401KSUMMARY)\n    loaninfo = ListAggregate(LOANINFO)"))
F("mutex-typo", ["C13", "C04"], ("ofxtools/models/signup.py", '    requiredMutexes = [["svcadd", "svcchg", "svcdel"]]\n\n\nclass ACCTRS', '    requiredMutexes = [["svcadd", "svcchg", "svcdell"]]\n\n\nclass ACCTRS'))
F("revert-D2-invbuy", ["C13", "C04"], ("ofxtools/models/invest/transactions.py", "class INVBUY(Origcurrency, Aggregate):", "class INVBUY(Aggregate, Origcurrency):"))
F("drop-from-all", ["C13"], ("ofxtools/models/invest/securities.py", '    "SECID",\n', ""))
F("revert-D14", ["C13"], ("ofxtools/models/tax1099.py", 'if "sttaxwh" in kwargs and "payerstate" not in kwargs:', 'if "STTAXWH" in kwargs and "PAYERSTATE" not in kwargs:'))
F("ofx-drops-super-validate", ["C13", "C04"], ("ofxtools/models/ofx.py", "            raise ValueError(msg)\n\n        super().validate_args(*args, **kwargs)\n", "            raise ValueError(msg)\n"))
F("child-named-count", ["C13"], ("ofxtools/models/common.py", "class STATUS(Aggregate):\n    \"\"\"OFX section 3.1.5\"\"\"\n", "class STATUS(Aggregate):\n    \"\"\"OFX section 3.1.5\"\"\"\n\n    count = Integer()\n"))
F("mutex-reads-base-class", ["C13", "C04"], (B_, "            mutexes=cls.optionalMutexes,", "            mutexes=Aggregate.optionalMutexes,"))
F("lookup-lowercased-tag", ["C13", "C03"], (B_, "            SubClass = getattr(ofxtools.models, elem.tag)", "            SubClass = getattr(ofxtools.models, elem.tag.lower())"))
F("writer-tag-not-upper", ["C13", "C01"], (B_, "                    ET.SubElement(root, attr.upper()).text = text", "                    ET.SubElement(root, attr).text = text"))
F("ungroom-rename-dropped", ["C13", "C01"], ("ofxtools/models/email.py", '            frm.tag = "FROM"', '            frm.tag = "FRM"'))
F("listelement-in-aggregate", ["C13"], ("ofxtools/models/tax1099.py", "class TAX1099RQ(ElementList):", "class TAX1099RQ(Aggregate):"))
B("add-wellformed-class", ALL, ("ofxtools/models/common.py", "class STATUS(Aggregate):", "class XNEWTHING(Aggregate):\n    foo = String(3)\n    bar = Bool()\n\n\nclass STATUS(Aggregate):"),
  ("ofxtools/models/common.py", '__all__ = ["SVCSTATUSES", "STATUS",', '__all__ = ["XNEWTHING", "SVCSTATUSES", "STATUS",'))
F("add-unexported-class", ["C13"], ("ofxtools/models/common.py", "class STATUS(Aggregate):", "class XNEWTHING(Aggregate):\n    foo = String(3)\n    bar = Bool()\n\n\nclass STATUS(Aggregate):"))
B("msgsetlist-drops-super-validate", ["C13", "C04"], ("ofxtools/models/profile.py", "            raise ValueError(msg.format(cls.__name__))\n\n        super().validate_args(*args, **kwargs)\n", "            raise ValueError(msg.format(cls.__name__))\n"))
B("type-self-for-class", ["C13", "C01", "C04"], (B_, "        cls = self.__class__\n        root = ET.Element(cls.__name__)", "        cls = type(self)\n        root = ET.Element(cls.__name__)"))
B("rename-local-attrname", ["C13", "C03", "C04", "C07"], (B_, "attrname", "child_key", 9))

# ---------------------------------------------------------------- C10 / converters
F("length-ge", ["C10", "C04"], (T_, "len(value) > self.length:", "len(value) >= self.length:"))
F("digits-gt", ["C10", "C04"], (T_, "value >= 10**length:", "value > 10**length:"))
F("unconvert-str-skips-length", ["C10", "C11"], (T_, "    def _unconvert_str(self, value: str):\n        return self.enforce_length(value)", "    def _unconvert_str(self, value: str):\n        return value"))
F("bool-none-skips-required", ["C10", "C04"], (T_, "class Bool(Element):\n    __type__ = bool\n    mapping = {\"Y\": True, \"N\": False}\n\n    @singledispatchmethod\n    def convert(self, value):\n        # By default, any type not specifically dispatched raises an error\n        msg = f\"{value} is not one of the allowed values {self.mapping.keys()}\"\n        raise OFXSpecError(msg)\n\n    @convert.register\n    def _convert_none(self, value: None):\n        # Pass through None, unless value is required\n        return self.enforce_required(value)", "class Bool(Element):\n    __type__ = bool\n    mapping = {\"Y\": True, \"N\": False}\n\n    @singledispatchmethod\n    def convert(self, value):\n        # By default, any type not specifically dispatched raises an error\n        msg = f\"{value} is not one of the allowed values {self.mapping.keys()}\"\n        raise OFXSpecError(msg)\n\n    @convert.register\n    def _convert_none(self, value: None):\n        # Pass through None, unless value is required\n        return value"))
F("nagstring-truncates", ["C10"], (T_, "                warnings.warn(msg, category=OFXTypeWarning)\n        return value", "                warnings.warn(msg, category=OFXTypeWarning)\n                value = value[: self.length]\n        return value"))
F("string-empty-returns-none", ["C10", "C04"], (T_, "        if value == \"\":\n            return self.enforce_required(None)", "        if value == \"\":\n            return None"))
F("required-guard-or", ["C10", "C04"], (T_, "        if value is None and self.required:", "        if value is None or self.required:"))
F("oneof-unconvert-no-membership", ["C10", "C11"], (T_, "    @singledispatchmethod\n    def unconvert(self, value):\n        value = self.enforce_required(value)\n        if value is not None and value not in self.valid:\n            raise OFXSpecError(f\"'{value}' is not OneOf {self.valid}\")\n        return value", "    @singledispatchmethod\n    def unconvert(self, value):\n        value = self.enforce_required(value)\n        return value"))
F("string-default-accepts-any", ["C10"], (T_, "        raise TypeError(f\"{value!r} is not a str\")", "        return str(value)"))
F("integer-str-skips-length", ["C10", "C04"], (T_, "            return self.enforce_required(None)\n        return self.enforce_length(int(value))", "            return self.enforce_required(None)\n        return int(value)"))
F("decimal-str-no-quantize", ["C10"], (T_, "        if self.scale is not None:\n            dec = dec.quantize(self.scale)\n\n        return dec", "        return dec"))
F("strict-flag-ignored", ["C10"], (T_, "            if self.strict:\n                raise OFXSpecError(msg)\n            else:\n                warnings.warn(msg, category=OFXTypeWarning)", "            raise OFXSpecError(msg)"))
B("length-flipped-spelling", ["C10", "C04"], (T_, "len(value) > self.length:", "self.length < len(value):"))
B("digits-not-lt", ["C10", "C04"], (T_, "value >= 10**length:", "not value < 10**length:"))
B("integer-unconvert-inline", ["C10", "C11"], (T_, "        value = self.enforce_length(value)\n        return str(value)", "        return str(self.enforce_length(value))"))

# ---------------------------------------------------------------- C04 / construction funnel
F("init-drops-validate", ["C04"], (B_, "        list.__init__(self)\n        self.validate_args(*args, **kwargs)\n", "        list.__init__(self)\n"))
F("init-validate-without-kwargs", ["C04"], (B_, "        self.validate_args(*args, **kwargs)\n\n        for attr", "        self.validate_args(*args)\n\n        for attr"))
F("order-nonstrict-and-no-dupcheck", ["C04"], (B_, "            if index <= prev_index and not (is_listmember and prev_is_listmember):", "            if index < prev_index and not (is_listmember and prev_is_listmember):"), (B_, "                if attrname in kwargs:\n                    raise OFXSpecError\n", ""))
B("order-nonstrict-only", ["C04"], (B_, "            if index <= prev_index and not (is_listmember and prev_is_listmember):", "            if index < prev_index and not (is_listmember and prev_is_listmember):"))
# round 12 (seed C04-duplicate-child-test-removed): NOT benign - inside a run of list members the position moves back, so LIST_A, X, LIST_B, LIST_A, X
# (TAX1099INT_V100: FORINCOME, TAXEXEMPTINT, ORIGSTATE, FORINCOME, TAXEXEMPTINT) repeats X past the strict order test; it was listed as benign until then
F("dupcheck-removed-only", ["C04"], (B_, "                if attrname in kwargs:\n                    raise OFXSpecError\n", ""))
F("order-exempt-any-listmember", ["C04"], (B_, "and not (is_listmember and prev_is_listmember):", "and not (is_listmember or prev_is_listmember):"))
F("setattr-error-swallowed", ["C04"], (B_, "            except ValueError as exc:\n                cls = self.__class__.__name__\n                msg = exc.args[0]\n                raise type(exc)(f\"Can't set {cls}.{attr} to {value}: {msg}\")", "            except ValueError as exc:\n                logger.warning(f\"Can't set {attr} to {value}: {exc}\")"))
F("subclass-init-skips-super", ["C04"], ("ofxtools/models/common.py", "class BAL(Aggregate):\n    \"\"\"OFX section 3.1.4\"\"\"\n", "class BAL(Aggregate):\n    \"\"\"OFX section 3.1.4\"\"\"\n\n    def __init__(self, *args, **kwargs):\n        list.__init__(self)\n        for k, v in kwargs.items():\n            setattr(self, k, v)\n"))
F("optional-predicate-le2", ["C04"], (B_, "            predicate=lambda x: x <= 1,", "            predicate=lambda x: x <= 2,"))
F("required-predicate-ge1", ["C04"], (B_, "            predicate=lambda x: x == 1,", "            predicate=lambda x: x >= 1,"))
F("apply-args-no-admission", ["C04", "C13"], (B_, "                if arg not in self.listaggregates:\n                    msg = f\"{clsnm} can't contain {arg} as list item: {member}\"\n                    raise TypeError(msg)\n", "                if arg not in self.listaggregates:\n                    logger.debug(f\"{clsnm}: unexpected list item {arg}\")\n"))
F("count-truthy-not-none", ["C04"], (B_, "count = sum([kwargs.get(m, None) is not None for m in mutex])", "count = sum([bool(kwargs.get(m, None)) for m in mutex])"))
F("position-not-threaded", ["C04"], (B_, "            return args, kwargs, index, is_listmember", "            return args, kwargs, prev_index, is_listmember"))
F("descriptor-stores-raw", ["C04", "C03"], (T_, "        obj.__dict__[self.name] = self.convert(value)", "        obj.__dict__[self.name] = value"))
B("predicate-lt2", ["C04"], (B_, "            predicate=lambda x: x <= 1,", "            predicate=lambda x: x < 2,"))
B("order-guard-flipped", ["C04"], (B_, "            if index <= prev_index and not (is_listmember and prev_is_listmember):", "            if prev_index >= index and not (is_listmember and prev_is_listmember):"))

# ---------------------------------------------------------------- C16 / shortcuts
BM_ = "ofxtools/models/bank/msgsets.py"
F("revert-D3-duplicate-arm", ["C16"], (BM_, "            elif isinstance(trnrq, STMTENDTRNRQ):\n                stmtrq = trnrq.stmtendrq", "            elif isinstance(trnrq, STMTTRNRQ):\n                stmtrq = trnrq.stmtendrq"))
F("revert-D4-getattr-outside-try", ["C16"], (B_, "            try:\n                subagg = getattr(self, subaggregate)\n                return getattr(subagg, attr)", "            subagg = getattr(self, subaggregate)\n            try:\n                return getattr(subagg, attr)"))
F("getattr-handler-drops-keyerror", ["C16"], (B_, "            except (AttributeError, KeyError):\n                continue", "            except AttributeError:\n                continue"))
F("alias-sibling-account", ["C16"], ("ofxtools/models/bank/stmt.py", "    def account(self):\n        return self.bankacctfrom", "    def account(self):\n        return self.ccacctfrom"))
F("alias-balance-availbal", ["C16"], ("ofxtools/models/bank/stmt.py", "    def balance(self):\n        return self.ledgerbal", "    def balance(self):\n        return self.availbal", 2))
F("ofx-statements-drops-invrs", ["C16"], ("ofxtools/models/ofx.py", '            "invstmtmsgsrsv1",\n        ):', '        ):'))
F("ofx-statements-order", ["C16"], ("ofxtools/models/ofx.py", '            "bankmsgsrsv1",\n            "creditcardmsgsrsv1",', '            "creditcardmsgsrsv1",\n            "bankmsgsrsv1",'))
F("wrapper-statement-wrong-child", ["C16"], ("ofxtools/models/bank/stmtend.py", "    def statement(self):\n        return self.ccstmtendrs", "    def statement(self):\n        return self.status"))
F("invrs-tests-request-class", ["C16"], ("ofxtools/models/invest/msgsets.py", "            if isinstance(trnrs, INVSTMTTRNRS):", "            if isinstance(trnrs, INVSTMTTRNRQ):"))
F("cursym-returns-currate", ["C16"], ("ofxtools/models/i18n.py", "        if cur is not None:\n            return cur.cursym", "        if cur is not None:\n            return cur.currate"))
F("ccrq-drops-closing-arm", ["C16"], (BM_, "            elif isinstance(trnrq, CCSTMTENDTRNRQ):\n                stmtrq = trnrq.ccstmtendrq\n", ""))
F("getattr-raises-keyerror", ["C16"], (B_, "        raise AttributeError(f\"'{cls}' object has no attribute '{attr}'\")", "        raise KeyError(f\"'{cls}' object has no attribute '{attr}'\")"))
F("securities-reads-request-set", ["C16"], ("ofxtools/models/ofx.py", 'msgs = getattr(self, "seclistmsgsrsv1", None)', 'msgs = getattr(self, "seclistmsgsrqv1", None)'))
B("rename-loop-var", ["C16"], (BM_, "(trnrq, ", "(wrapper, ", 4), (BM_, " trnrq.", " wrapper.", 4), (BM_, "for trnrq in", "for wrapper in", 2))
B("assert-form-arm", ["C16"], (BM_, "            elif isinstance(trnrq, CCSTMTENDTRNRQ):\n                stmtrq = trnrq.ccstmtendrq\n", "            else:\n                assert isinstance(trnrq, CCSTMTENDTRNRQ)\n                stmtrq = trnrq.ccstmtendrq\n"))
B("getattr-handler-exception", ["C16"], (B_, "            except (AttributeError, KeyError):\n                continue", "            except (KeyError, AttributeError):\n                logger.debug(\"miss\")\n                continue"))

# ---------------------------------------------------------------- C14 / client
F("post-before-dryrun-gate", ["C14"], (C_, "        if dryrun:\n            return BytesIO(request)\n\n        if url is None:\n            url = self.url\n", "        if url is None:\n            url = self.url\n"), (C_, "        response = self.post_request(url, request, timeout)\n        return BytesIO(response)", "        response = self.post_request(url, request, timeout)\n        if dryrun:\n            return BytesIO(request)\n        return BytesIO(response)"))
F("profile-lookup-before-dryrun", ["C14"], (C_, "        if dryrun:\n            url = \"\"\n            logger.info(\"Dry run for statement request\")\n        elif skip_profile:", "        if skip_profile:"))
F("urllib-method-put", ["C14"], (C_, 'url, method="POST", data=serialized_request, headers=self.http_headers', 'url, method="PUT", data=serialized_request, headers=self.http_headers'))
F("urllib-drops-headers", ["C14"], (C_, 'url, method="POST", data=serialized_request, headers=self.http_headers', 'url, method="POST", data=serialized_request'))
F("requests-drops-headers", ["C14"], (C_, "                    headers=self.http_headers,\n", ""))
F("profile-real-userid", ["C14"], (C_, "        user = password = AUTH_PLACEHOLDER", "        user = self.userid\n        password = AUTH_PLACEHOLDER"))
F("profile-userid-not-passed", ["C14"], (C_, "        signon = self.signon(password, userid=user)", "        signon = self.signon(password)"))
F("advertised-url-ignored", ["C14"], (C_, "            url = urls.pop()\n            logger.info(f\"Received service url", "            url = self.url\n            logger.info(f\"Received service url"))
F("accounts-url-not-passed", ["C14"], (C_, "            version=version,\n            newfileuid=newfileuid,\n            dryrun=dryrun,\n            timeout=timeout,\n            url=url,\n        )", "            version=version,\n            newfileuid=newfileuid,\n            dryrun=dryrun,\n            timeout=timeout,\n        )"))
F("class-level-jar", ["C14"], (C_, "    persist_cookies: bool = True\n", "    persist_cookies: bool = True\n    cookiejar = http.cookiejar.CookieJar()\n"), (C_, "        self.cookiejar = http.cookiejar.CookieJar()\n", ""))
F("shared-module-jar", ["C14"], (C_, 'AUTH_PLACEHOLDER = "{:0<32}".format("anonymous")\n', 'AUTH_PLACEHOLDER = "{:0<32}".format("anonymous")\n_SHARED_JAR = http.cookiejar.CookieJar()\n'), (C_, "        self.cookiejar = http.cookiejar.CookieJar()\n", "        self.cookiejar = _SHARED_JAR\n"))
F("install-opener", ["C14"], (C_, "            opener = urllib_request.build_opener(*handlers)\n", "            opener = urllib_request.build_opener(*handlers)\n            urllib_request.install_opener(opener)\n"))
F("content-type-xml", ["C14"], (C_, '        mimetype = "application/x-ofx"', '        mimetype = "application/xml"'))
F("accept-excludes-ofx", ["C14"], (C_, '"Accept": "*/*, {}, application/xml;q=0.9".format(mimetype),', '"Accept": "application/xml;q=0.9",'))
F("useragent-hardwired", ["C14"], (C_, '            "User-Agent": self.useragent,', '            "User-Agent": "InetClntApp/3.0",'))
F("persist-default-false", ["C14"], (C_, "    persist_cookies: bool = True\n", "    persist_cookies: bool = False\n"))
F("requests-jar-not-attached", ["C14"], (C_, "                if self.persist_cookies:\n                    sess.cookies = self.cookiejar  # type: ignore\n", ""))
F("download-overrides-url", ["C14"], (C_, "        if url is None:\n            url = self.url\n", "        url = self.url\n"))
F("stmt-dryrun-not-forwarded", ["C14"], (C_, "        return self.download(\n            ofx,\n            newfileuid=newfileuid,\n            dryrun=dryrun,\n            timeout=timeout,\n            url=url,\n        )\n\n    def _get_service_urls(", "        return self.download(\n            ofx,\n            newfileuid=newfileuid,\n            timeout=timeout,\n            url=url,\n        )\n\n    def _get_service_urls("))
F("retry-post", ["C14"], (C_, "            response = opener.open(req, timeout=timeout)\n", "            try:\n                response = opener.open(req, timeout=timeout)\n            except OSError:\n                response = opener.open(req, timeout=timeout)\n"))
F("helper-posts-directly", ["C14"], (C_, "    def dtclient(self) -> datetime.datetime:", "    def ping(self) -> bytes:\n        return urllib_request.urlopen(self.url).read()\n\n    def dtclient(self) -> datetime.datetime:"))
F("body-not-serialized-request", ["C14"], (C_, "                    data=serialized_request,\n", "                    data=b\"\",\n"))
B("accept-without-explicit-ofx", ["C14"], (C_, '"Accept": "*/*, {}, application/xml;q=0.9".format(mimetype),', '"Accept": "*/*, application/xml;q=0.9",'))
B("dryrun-negated-form", ["C14"], (C_, "        if dryrun:\n            return BytesIO(request)\n\n        if url is None:\n            url = self.url\n\n        # NB: we resolve the url opener here instead of in __init__ because the tests\n        #     mock urlopen after instantiating the OFXClient object\n        response = self.post_request(url, request, timeout)\n        return BytesIO(response)", "        if not dryrun:\n            if url is None:\n                url = self.url\n            response = self.post_request(url, request, timeout)\n            return BytesIO(response)\n        return BytesIO(request)"))
B("log-in-post", ["C14"], (C_, "            logger.info(\"Using urllib to post request\")\n", "            logger.info(\"Using urllib to post request\")\n            logger.debug(f\"POST {url}\")\n"))
B("placeholder-two-assignments", ["C14"], (C_, "        user = password = AUTH_PLACEHOLDER", "        user = AUTH_PLACEHOLDER\n        password = AUTH_PLACEHOLDER"))

# ---------------------------------------------------------------- C17 / purity
SEC_ = "ofxtools/models/invest/securities.py"
F("decimal-cache", ["C17"], (T_, "@call_signature(scale=None)\nclass Decimal(Element):", "_DEC_CACHE = {}\n\n\n@call_signature(scale=None)\nclass Decimal(Element):"), (T_, "        # Handle Euro-style decimal separators (comma)\n        try:\n            dec = decimal.Decimal(value)", "        if value in _DEC_CACHE:\n            return _DEC_CACHE[value]\n        # Handle Euro-style decimal separators (comma)\n        try:\n            dec = decimal.Decimal(value)"), (T_, "            dec = dec.quantize(self.scale)\n\n        return dec", "            dec = dec.quantize(self.scale)\n\n        _DEC_CACHE[value] = dec\n        return dec"))
F("mail-groom-no-copy", ["C17"], ("ofxtools/models/email.py", "        # Keep input free of side effects\n        elem = deepcopy(elem)\n\n        frm = elem.find(\"./FROM\")", "        frm = elem.find(\"./FROM\")"))
F("base-groom-no-copy", ["C17"], (B_, "        elem = deepcopy(elem)\n\n        for child in set(elem):", "        for child in set(elem):"))
F("mfinfo-ungroom-no-copy", ["C17"], (SEC_, "        # Keep input free of side effects\n        elem = deepcopy(elem)\n\n        yld = elem.find(\"./YLD\")\n        if yld is not None:\n            logger.debug(\"Renaming <YLD> to <YIELD>\")\n            yld.tag = \"YIELD\"\n\n        return super(MFINFO, MFINFO).ungroom(elem)", "        yld = elem.find(\"./YLD\")\n        if yld is not None:\n            logger.debug(\"Renaming <YLD> to <YIELD>\")\n            yld.tag = \"YIELD\"\n\n        return super(MFINFO, MFINFO).ungroom(elem)"))
F("default-builder-instance", ["C17"], (P_, "    def parse(self, source, parser=None) -> ET.Element:", "    def parse(self, source, parser=TreeBuilder()) -> ET.Element:"), (P_, "class OFXTree(ET.ElementTree):", "class _Fwd:\n    pass\n\n\nclass OFXTree(ET.ElementTree):"))
F("module-level-builder", ["C17"], (P_, "def main(*files):", "_BUILDER = TreeBuilder()\n\n\ndef main(*files):"))
F("descriptor-keeps-and-reads-last", ["C17"], (T_, "        obj.__dict__[self.name] = self.convert(value)", "        if getattr(self, \"last_raw\", None) == value:\n            obj.__dict__[self.name] = self.last_val\n            return\n        self.last_raw = value\n        self.last_val = self.convert(value)\n        obj.__dict__[self.name] = self.last_val"))
F("register-other-handler", ["C17"], (T_, "        self.unconvert.register(datetime.datetime, self._unconvert_datetime)", "        self.unconvert.register(datetime.datetime, self._unconvert_none)"))
F("bool-mapping-mutated", ["C17"], (T_, "        try:\n            return self.mapping[value]\n        except KeyError:", "        try:\n            self.mapping.setdefault(value.upper(), self.mapping.get(value.upper()[:1]))\n            return self.mapping[value]\n        except KeyError:"))
F("to-etree-cached-on-instance", ["C17"], (B_, "        cls = self.__class__\n        root = ET.Element(cls.__name__)", "        if getattr(self, \"_etree\", None) is not None:\n            return self._etree\n        cls = self.__class__\n        root = ET.Element(cls.__name__)"), (B_, "        # Hook to modify `ET.ElementTree` after conversion\n        return cls.ungroom(root)", "        # Hook to modify `ET.ElementTree` after conversion\n        self._etree = cls.ungroom(root)\n        return self._etree"))
F("spec-cache-on-class", ["C17"], (B_, "        return {k: v for k, v in cls._superdict.items() if predicate(v)}", "        cache = Aggregate.__dict__.get(\"_filter_cache\")\n        key = (cls, predicate.__code__.co_code)\n        if key not in _FILTER_CACHE:\n            _FILTER_CACHE[key] = {k: v for k, v in cls._superdict.items() if predicate(v)}\n        return _FILTER_CACHE[key]"), (B_, "class Aggregate(list):", "_FILTER_CACHE = {}\n\n\nclass Aggregate(list):"))
F("lru-cache-from-etree", ["C17"], (B_, "    @staticmethod\n    def groom(elem: ET.Element) -> ET.Element:", "    @staticmethod\n    @functools.lru_cache(maxsize=128)\n    def groom(elem: ET.Element) -> ET.Element:"))
F("convert-pops-children", ["C17"], (B_, "        args, kwargs = functools.reduce(update_args, elem, initial)[:2]\n", "        args, kwargs = functools.reduce(update_args, elem, initial)[:2]\n        elem.clear()\n"), (B_, "        # Hook to modify incoming ``ET.Element`` before conversion\n        elem = cls.groom(elem)\n", "        # Hook to modify incoming ``ET.Element`` before conversion\n        groomed = cls.groom(elem)\n"))
B("descriptor-write-only-attr", ["C17"], (T_, "        obj.__dict__[self.name] = self.convert(value)", "        self.last_seen_raw = value\n        obj.__dict__[self.name] = self.convert(value)"))
B("drop-runtime-register", ["C17", "C10", "C09"], (T_, "        self.unconvert.register(datetime.datetime, self._unconvert_datetime)\n", ""))
B("groom-copy-via-copy-module", ["C17"], ("ofxtools/models/email.py", "        # Keep input free of side effects\n        elem = deepcopy(elem)\n\n        frm = elem.find(\"./FROM\")", "        elem = deepcopy(elem)  # defensive copy\n        logger.debug(\"grooming MAIL\")\n\n        frm = elem.find(\"./FROM\")"))
B("new-pure-helper", ["C17"], (U_, "def fixpath(path: str) -> str:", "def squares(n: int) -> list:\n    out = []\n    for i in range(n):\n        out.append(i * i)\n    return out\n\n\ndef fixpath(path: str) -> str:"))

# ---------------------------------------------------------------- C07 / unknown tags
F("unknown-resets-order-state", ["C07"], (B_, "                warnings.warn(msg, category=UnknownTagWarning)\n                return accum", "                warnings.warn(msg, category=UnknownTagWarning)\n                return args, kwargs, -1, False"))
F("unknown-clears-listmember-flag", ["C07"], (B_, "                warnings.warn(msg, category=UnknownTagWarning)\n                return accum", "                warnings.warn(msg, category=UnknownTagWarning)\n                return args, kwargs, prev_index, False"))
F("unknown-raises", ["C07"], (B_, "                warnings.warn(msg, category=UnknownTagWarning)\n                return accum", "                raise OFXSpecError(msg)"))
F("mfinfo-groom-no-chain", ["C07"], (SEC_, "        return super(MFINFO, MFINFO).groom(elem)", "        return elem"))
F("convert-before-lookup", ["C07"], (B_, "            args, kwargs, prev_index, prev_is_listmember = accum\n            attrname = elem.tag.lower()\n", "            args, kwargs, prev_index, prev_is_listmember = accum\n            attrname = elem.tag.lower()\n            parsed = elem.text or Aggregate.from_etree(elem)\n"))
F("groom-descendant-search", ["C07"], (SEC_, '        yld = elem.find("./YIELD")', '        yld = elem.find(".//YIELD")', 2))
F("groom-iter-search", ["C07"], ("ofxtools/models/email.py", '        frm = elem.find("./FROM")\n        if frm is not None:', '        for frm in elem.iter("FROM"):'))
F("convert-skips-groom", ["C07"], (B_, "        # Hook to modify incoming ``ET.Element`` before conversion\n        elem = cls.groom(elem)\n", ""))
F("unknown-stores-value", ["C07"], (B_, "                warnings.warn(msg, category=UnknownTagWarning)\n                return accum", "                warnings.warn(msg, category=UnknownTagWarning)\n                kwargs[attrname] = elem.text\n                return accum"))
B("groom-keeps-vendor-tags", ["C07"], (B_, "        for child in set(elem):\n            if \".\" in child.tag:\n                logger.debug(f\"Removing extended tag <{child.tag}>\")\n                elem.remove(child)\n", ""))
B("unknown-logs-too", ["C07"], (B_, "                warnings.warn(msg, category=UnknownTagWarning)\n                return accum", "                warnings.warn(msg, category=UnknownTagWarning)\n                logger.debug(msg)\n                return accum"))
B("groom-find-without-dot", ["C07"], ("ofxtools/models/email.py", '        frm = elem.find("./FROM")', '        frm = elem.find("FROM")'))

# ---------------------------------------------------------------- C06 / request composition
F("revert-D5a-acctnum", ["C06"], (C_, "        rq = TAX1099RQ(*taxyears, acctnum=acctnum or None, recid=recid or None)", "        rq = TAX1099RQ(*taxyears, recid=recid or None)"))
F("revert-D5b-version", ["C06"], (C_, "            ofx,\n            version=version,\n            newfileuid=newfileuid,\n            dryrun=dryrun,\n            timeout=timeout,\n            url=url,\n        )\n\n    def request_tax1099(", "            ofx,\n            newfileuid=newfileuid,\n            dryrun=dryrun,\n            timeout=timeout,\n            url=url,\n        )\n\n    def request_tax1099("))
F("ccstmt-dates-swapped", ["C06"], (C_, "        acct = CCACCTFROM(acctid=acctid)\n        inctran_ = INCTRAN(dtstart=dtstart, dtend=dtend, include=inctran)", "        acct = CCACCTFROM(acctid=acctid)\n        inctran_ = INCTRAN(dtstart=dtend, dtend=dtstart, include=inctran)"))
F("ccstmtend-handler-unregistered", ["C06"], (C_, "@wrap_stmtrq.register(CcStmtEndRq)\ndef wrap_stmtrq_ccstmtendrq", "def wrap_stmtrq_ccstmtendrq"))
F("clientuid-threshold-102", ["C06"], (C_, "        if self.version < 103:", "        if self.version < 102:"))
F("clientuid-threshold-104", ["C06"], (C_, "        if self.version < 103:", "        if self.version < 104:"))
F("trnuid-hoisted", ["C06"], (C_, "        stmtrq = STMTRQ(bankacctfrom=acct, inctran=inctran_)\n        trnuid = self.uuid\n        return STMTTRNRQ(trnuid=trnuid, stmtrq=stmtrq)", "        stmtrq = STMTRQ(bankacctfrom=acct, inctran=inctran_)\n        return STMTTRNRQ(trnuid=_TRNUID, stmtrq=stmtrq)"), (C_, 'AUTH_PLACEHOLDER = "{:0<32}".format("anonymous")\n', 'AUTH_PLACEHOLDER = "{:0<32}".format("anonymous")\n_TRNUID = str(uuid.uuid4()).upper()\n'))
F("requests-sliced", ["C06"], (C_, "                sorted(requests, key=sortKey), key=groupKey", "                sorted(requests[1:], key=sortKey), key=groupKey"))
F("incpos-hardwired", ["C06"], (C_, "        incpos_ = INCPOS(dtasof=dtasof, include=incpos)", "        incpos_ = INCPOS(dtasof=dtasof, include=True)"))
F("trnrqs-sort-dropped", ["C06"], (C_, "        trnrqs.sort(key=trnSortKey)\n", ""))
F("requests-sort-dropped", ["C06"], (C_, "                sorted(requests, key=sortKey), key=groupKey", "                requests, key=groupKey"))
F("unclosed-guard-dropped", ["C06"], (C_, "            if version >= 200:\n                raise ValueError(\n                    f\"OFX version {version} requires ending tags for elements\"\n                )\n", ""))
F("unclosed-guard-on-self-version", ["C06"], (C_, "        if close_elements is False:\n            if version >= 200:", "        if close_elements is False:\n            if self.version >= 200:"))
F("appid-appver-swapped", ["C06"], (C_, "            appid=self.appid,\n            appver=self.appver,", "            appid=self.appver,\n            appver=self.appid,"))
F("stmtend-wrong-wrapper", ["C06"], (C_, "    return (\n        BANKMSGSRQV1,\n        [client.stmtendtrnrq(**dict(rq._asdict(), bankid=client.bankid)) for rq in rqs],\n    )", "    return (\n        CREDITCARDMSGSRQV1,\n        [client.stmtendtrnrq(**dict(rq._asdict(), bankid=client.bankid)) for rq in rqs],\n    )"))
F("sort-by-acctid-too", ["C06"], (C_, '        sortKey = attrgetter("__class__.__name__")', '        sortKey = attrgetter("__class__.__name__", "acctid")'))
F("header-version-self", ["C06"], (C_, "                    version=version, oldfileuid=oldfileuid, newfileuid=newfileuid", "                    version=self.version, oldfileuid=oldfileuid, newfileuid=newfileuid"))
F("fi-without-fid", ["C06"], (C_, "            fi: Optional[FI] = FI(org=self.org, fid=self.fid)", "            fi: Optional[FI] = FI(org=self.org, fid=self.org)"))
B("clientuid-threshold-le102", ["C06"], (C_, "        if self.version < 103:", "        if self.version <= 102:"))
B("builder-inline-trnuid", ["C06"], (C_, "        stmtrq = STMTRQ(bankacctfrom=acct, inctran=inctran_)\n        trnuid = self.uuid\n        return STMTTRNRQ(trnuid=trnuid, stmtrq=stmtrq)", "        stmtrq = STMTRQ(bankacctfrom=acct, inctran=inctran_)\n        return STMTTRNRQ(trnuid=self.uuid, stmtrq=stmtrq)"))
B("rename-local-acct", ["C06"], (C_, "        acct = CCACCTFROM(acctid=acctid)\n        stmtrq = CCSTMTENDRQ(ccacctfrom=acct, dtstart=dtstart, dtend=dtend)", "        account = CCACCTFROM(acctid=acctid)\n        stmtrq = CCSTMTENDRQ(ccacctfrom=account, dtstart=dtstart, dtend=dtend)"))

# ---------------------------------------------------------------- C09 / dates ; C11 / C01 wire
F("revert-D15-offset-dot", ["C09"], (T_, "(\\.(?P<gmt_offset_minutes>\\d\\d))?", "(.(?P<gmt_offset_minutes>\\d\\d))?", 2))
F("hour-24", ["C09"], (T_, "(?P<hour>([0-1][0-9])|(2[0-3]))", "(?P<hour>([0-1][0-9])|(2[0-4]))", 2))
F("day-00", ["C09"], (T_, "(?P<day>(0[1-9])|([1-2][0-9])|(3[0-1]))", "(?P<day>(0[0-9])|([1-2][0-9])|(3[0-1]))"))
F("minute-69", ["C09"], (T_, "(?P<minute>[0-5][0-9])", "(?P<minute>[0-6][0-9])", 2))
F("dt-unanchored", ["C09"], (T_, "                )?\n            )?\n        )?\n    )?\n    $\n", "                )?\n            )?\n        )?\n    )?\n"))
F("ms-dot-unescaped", ["C09"], (T_, "                (\\.(?P<millisecond>[0-9]{3}))?\n                (\n                    \\[", "                (.(?P<millisecond>[0-9]{3}))?\n                (\n                    \\["))
F("naive-both-dropped", ["C09", "C11"], (T_, "    utcoffset = value.utcoffset()\n    if utcoffset is None:\n        raise ValueError(f\"{value} is not timezone-aware\")\n", "    utcoffset = value.utcoffset() or datetime.timedelta(0)\n"), (T_, "    def _unconvert_datetime(self, value: datetime.datetime):\n        if not hasattr(value, \"utcoffset\") or value.utcoffset() is None:\n            msg = f\"'{value}' must be a timezone-aware {self.__type__} instance\"\n            raise ValueError(msg)\n", "    def _unconvert_datetime(self, value: datetime.datetime):\n"))
# not benign (corrected after round-3 seed C09-time-naive-check-on-tzinfo): format_datetime only sees the carrier datetime built
# around the time, whose utcoffset() is not None even when the time's own is (date-dependent tzinfo)
F("naive-time-handler-only-dropped", ["C09", "C11"], (T_, "    def _unconvert_time(self, value: datetime.time):\n        if not hasattr(value, \"utcoffset\") or value.utcoffset() is None:\n            msg = f\"'{value}' must be a timezone-aware {self.__type__} instance\"\n            raise ValueError(msg)\n", "    def _unconvert_time(self, value: datetime.time):\n"))
F("gmt-offset-timedelta", ["C09", "C03"], (U_, "    offset_minutes = math.copysign(60 * abs(hours) + minutes, hours)\n    return datetime.timedelta(minutes=offset_minutes)", "    return datetime.timedelta(hours=hours, minutes=minutes)"))
F("offset-added", ["C09", "C03"], (T_, "        return (value - gmt_offset).replace(tzinfo=utils.UTC)", "        return (value + gmt_offset).replace(tzinfo=utils.UTC)"))
F("ms-factor-100", ["C09", "C03"], (T_, '1000 * intmatches.pop("millisecond")', '100 * intmatches.pop("millisecond")'))
F("sign-for-nonpositive", ["C09"], (T_, '    sign = "-" if offset_mins < 0 else "+"', '    sign = "-" if offset_mins <= 0 else "+"'))
F("ms-two-digits", ["C09", "C11"], (T_, 'return f"{value_bumped.strftime(format)}.{ms:03d}[{tz}]"', 'return f"{value_bumped.strftime(format)}.{ms:02d}[{tz}]"'))
F("no-match-not-rejected", ["C09"], (T_, "        if match is None:\n            msg = f\"'{value}' does not conform to OFX formats for {self.__type__}\"\n            raise OFXSpecError(msg)\n", "        if match is None:\n            match = self.regex.match(value[:8])\n"))
B("gmt-offset-sign-product", ["C09"], (U_, "    offset_minutes = math.copysign(60 * abs(hours) + minutes, hours)\n", "    offset_minutes = (60 * abs(hours) + minutes) * (-1 if hours < 0 else 1)\n"))
F("revert-D10-decimal-str", ["C11"], (T_, "        if not value.is_finite():\n            raise ValueError(f\"'{value}' is not a finite number\")\n        return format(value, \"f\")", "        return str(value)"))
F("decimal-nan-allowed", ["C11"], (T_, "        if not value.is_finite():\n            raise ValueError(f\"'{value}' is not a finite number\")\n", ""))
F("revert-D11-no-escape", ["C11", "C01"], (U_, "            elem.tag, saxutils.escape(elem.text or \"\"), elem.tail or \"\"", "            elem.tag, elem.text or \"\", elem.tail or \"\""))
F("bool-writer-constant", ["C11"], (T_, "        return {v: k for k, v in self.mapping.items()}[value]", "        return {True: \"Y\", False: \"F\"}[value]"))
F("integer-writer-repr", ["C11"], (T_, "        value = self.enforce_length(value)\n        return str(value)", "        value = self.enforce_length(value)\n        return f\"{value:,}\""))
F("datetime-writer-isoformat", ["C11"], (T_, '        return format_datetime("%Y%m%d%H%M%S", value)', '        return format_datetime("%Y-%m-%dT%H:%M:%S", value)'))
F("escape-html-quotes", ["C01"], (U_, "from xml.sax import saxutils\n", "from xml.sax import saxutils\nimport html\n"), (U_, "saxutils.escape(elem.text or \"\")", "html.escape(elem.text or \"\")"))
B("escape-html-noquote", ["C01", "C11"], (U_, "from xml.sax import saxutils\n", "from xml.sax import saxutils\nimport html\n"), (U_, "saxutils.escape(elem.text or \"\")", "html.escape(elem.text or \"\", quote=False)"))

# ---------------------------------------------------------------- C03 / placement and decode tables ; C01 extras
F("prepend-list-members", ["C03"], (B_, "                args.append(value)", "                args.insert(0, value)"))
F("store-under-raw-tag", ["C03", "C13"], (B_, "                kwargs[attrname] = value", "                kwargs[elem.tag] = value"))
F("text-stripped-digits", ["C03"], (B_, "                value = elem.text\n", "                value = elem.text.lstrip(\"0\")\n"))
F("bool-accepts-lowercase", ["C03"], (T_, '    mapping = {"Y": True, "N": False}', '    mapping = {"Y": True, "N": False, "y": True, "n": False}'))
F("bool-table-swapped", ["C03"], (T_, '    mapping = {"Y": True, "N": False}', '    mapping = {"Y": False, "N": True}'))
F("nbsp-not-decoded", ["C03"], (T_, 'saxutils.unescape(value, {"&nbsp;": " ", "&apos;": "\'", "&quot;": \'"\'})', 'saxutils.unescape(value, {"&apos;": "\'", "&quot;": \'"\'})'))
F("amp-first-replace-loop", ["C03"], (T_, "        value = saxutils.unescape(value, {\"&nbsp;\": \" \", \"&apos;\": \"'\", \"&quot;\": '\"'})\n", "        for ent, ch in {\"&amp;\": \"&\", \"&lt;\": \"<\", \"&gt;\": \">\", \"&nbsp;\": \" \", \"&apos;\": \"'\", \"&quot;\": '\"'}.items():\n            value = value.replace(ent, ch)\n"))
F("comma-not-accepted", ["C03"], (T_, "        try:\n            dec = decimal.Decimal(value)\n        except decimal.InvalidOperation:\n            dec = decimal.Decimal(value.replace(\",\", \".\"))\n", "        dec = decimal.Decimal(value)\n"))
F("apply-args-reversed", ["C03"], (B_, "        for member in args:\n            if isinstance(member, Aggregate):", "        for member in reversed(args):\n            if isinstance(member, Aggregate):"))
F("absent-child-default-empty", ["C03", "C04"], (B_, "            value = kwargs.pop(attr, None)", "            value = kwargs.pop(attr, \"\")"))
F("get-reads-other-slot", ["C03"], (T_, "        return obj.__dict__[self.name]", "        return obj.__dict__.get(self.name.lower())"))
B("amp-last-replace-loop", ["C03"], (T_, "        value = saxutils.unescape(value, {\"&nbsp;\": \" \", \"&apos;\": \"'\", \"&quot;\": '\"'})\n", "        for ent, ch in {\"&lt;\": \"<\", \"&gt;\": \">\", \"&nbsp;\": \" \", \"&apos;\": \"'\", \"&quot;\": '\"', \"&amp;\": \"&\"}.items():\n            value = value.replace(ent, ch)\n"))
F("writer-omits-all-endtags", ["C01"], (U_, "    if len(elem) == 0:\n        text = \"<{}>{}{}\".format(", "    if len(elem) == 0 or not elem.text:\n        text = \"<{}>{}{}\".format("))
F("indent-touches-leaf-text", ["C01"], (U_, "    else:\n        if level and (not elem.tail or not elem.tail.strip()):\n            elem.tail = i", "    else:\n        elem.text = (elem.text or \"\").strip() + \" \"\n        if level and (not elem.tail or not elem.tail.strip()):\n            elem.tail = i"))
F("class-named-base", ["C01"], ("ofxtools/models/common.py", "class STATUS(Aggregate):", "class BASE(Aggregate):\n    foo = String(3)\n\n\nclass STATUS(Aggregate):"), ("ofxtools/models/common.py", '__all__ = ["SVCSTATUSES", "STATUS",', '__all__ = ["BASE", "SVCSTATUSES", "STATUS",'))

# ---------------------------------------------------------------- C12 / C05 headers
F("str-drops-compression", ["C12"], (H_, '            ("COMPRESSION", self.compression),\n', ""))
F("charset-outside-try", ["C12"], (H_, "        try:\n            self.ofxheader = int(ofxheader or 100)\n            self.data = data or \"OFXSGML\"", "        self.charset = charset or \"NONE\"\n        try:\n            self.ofxheader = int(ofxheader or 100)\n            self.data = data or \"OFXSGML\""), (H_, "            self.charset = charset or \"NONE\"\n            self.compression", "            self.compression"))
F("routing-swapped", ["C12", "C01"], (H_, "{1: OFXHeaderV1, 2: OFXHeaderV2}", "{1: OFXHeaderV2, 2: OFXHeaderV1}"))
F("wrong-exception-caught", ["C12"], (H_, "            self.newfileuid = newfileuid or \"NONE\"\n        except ValueError as err:\n            raise OFXHeaderError(f\"Invalid OFX header - {err.args[0]}\")\n\n    def __str__(self) -> str:\n        # Flat", "            self.newfileuid = newfileuid or \"NONE\"\n        except TypeError as err:\n            raise OFXHeaderError(f\"Invalid OFX header - {err.args[0]}\")\n\n    def __str__(self) -> str:\n        # Flat"))
F("v2-olduid-40", ["C12"], (H_, "    security = Types.OneOf(\"NONE\", \"TYPE1\")\n    oldfileuid = Types.String(36)\n    newfileuid = Types.String(36)\n\n    regex = re.compile(\n        r\"\"\"<\\?OFX", "    security = Types.OneOf(\"NONE\", \"TYPE1\")\n    oldfileuid = Types.String(40)\n    newfileuid = Types.String(36)\n\n    regex = re.compile(\n        r\"\"\"<\\?OFX"))
F("v1-ofxheader-any", ["C12"], (H_, "    ofxheader = Types.OneOf(100)", "    ofxheader = Types.OneOf(100, 200)"))
F("parse-preconverts-ints", ["C12"], (H_, "        headerattrs = {k.lower(): v for k, v in headerattrs.items()}", "        headerattrs = {k.lower(): (int(v) if v and v.isdigit() else v) for k, v in headerattrs.items()}"))
F("v2-uid-regex-no-underscore", ["C12"], (H_, 'OLDFILEUID=\\"(?P<oldfileuid>[\\w-]+)\\"', 'OLDFILEUID=\\"(?P<oldfileuid>[A-Za-z0-9-]{1,36})\\"'))
F("encoding-regex-no-dash", ["C12"], (H_, "ENCODING:\\s*(?P<ENCODING>[A-Z0-9-]+)", "ENCODING:\\s*(?P<ENCODING>[A-Z0-9]+)"))
F("str-fields-swapped", ["C12"], (H_, '            ("OLDFILEUID", self.oldfileuid),\n            ("NEWFILEUID", self.newfileuid),\n        )\n        lines', '            ("OLDFILEUID", self.newfileuid),\n            ("NEWFILEUID", self.oldfileuid),\n        )\n        lines'))
F("make-header-valueerror-leaks", ["C12"], (H_, "    except ValueError:\n        raise OFXHeaderError(f\"Invalid OFX version {version}\")", "    except ValueError:\n        raise"))
B("str-uses-fstring-join", ["C12"], (H_, '        lines = "\\r\\n".join([":".join(field) for field in fields])', '        lines = "\\r\\n".join([f"{name}:{val}" for name, val in fields])'))
F("revert-D6-inserted-newline", ["C05"], (H_, "        rawheader = line\n", '        rawheader = line + "\\n"\n'))
F("body-constant-codec", ["C05"], (H_, "        message = source.read().decode(header.codec).strip()", '        message = source.read().decode("utf_8").strip()'))
F("cp1252-as-latin1", ["C05"], (H_, '"1252": "cp1252"', '"1252": "latin_1"'))
F("line-lstripped", ["C05"], (H_, '        line = source.readline().decode("ascii", errors="replace")\n        if line.strip():', '        line = source.readline().decode("ascii", errors="replace").lstrip()\n        if line:'))
F("seek-without-start", ["C05"], (H_, "        source.seek(header_start + header_end_offset)", "        source.seek(header_end_offset)"))
F("codec-special-case", ["C05", "C01"], (H_, "        return self.codecs[self.charset]", "        if self.encoding == \"USASCII\" and self.charset == \"NONE\":\n            return \"latin_1\"\n        return self.codecs[self.charset]"))
F("v2-slice-from-other-string", ["C05"], (H_, "        message = decoded_source[header_end_index:]", "        message = decoded_source.strip()[header_end_index:]"))
F("body-strip-chars", ["C05"], (H_, "        message = source.read().decode(header.codec).strip()", '        message = source.read().decode(header.codec).strip(" \\r\\n<>")'))
B("decode-latin1-header", ["C05"], (H_, '        line = source.readline().decode("ascii", errors="replace")', '        line = source.readline().decode("latin_1")'))
F("revert-D16-strict-ascii-first-line", ["C05"], (H_, '        line = source.readline().decode("ascii", errors="replace")', '        line = source.readline().decode("ascii")'))
F("revert-D16-strict-ascii-more-lines", ["C05"], (H_, '            rawheader += source.readline().decode("ascii", errors="replace")', '            rawheader += source.readline().decode("ascii")'))
F("read-ahead-errors-ignore", ["C05"], (H_, '            rawheader += source.readline().decode("ascii", errors="replace")', '            rawheader += source.readline().decode("ascii", errors="ignore")'))
B("read-ahead-surrogateescape", ["C05"], (H_, '            rawheader += source.readline().decode("ascii", errors="replace")', '            rawheader += source.readline().decode("ascii", "surrogateescape")'))

# ---------------------------------------------------------------- C08 / C02 parser
F("revert-D8-end-unchecked", ["C08", "C02"], (P_, "        if not self._open or self._open[-1] != tag:\n            expected = f\"</{self._open[-1]}>\" if self._open else \"no end tag\"\n            raise ParseError(f\"Unexpected </{tag}>; expected {expected}\")\n", ""))
F("revert-D8-close-unchecked", ["C08"], (P_, "        if self._open:\n            raise ParseError(f\"Unclosed <{self._open[-1]}> at end of data\")\n", ""))
F("close-override-deleted", ["C08"], (P_, "    def close(self):\n        if self._open:\n            raise ParseError(f\"Unclosed <{self._open[-1]}> at end of data\")\n        return super().close()\n\n", ""))
F("second-root-accepted", ["C08"], (P_, "        if self._closed_root:\n            raise ParseError(f\"<{tag}> after end of root element\")\n", ""))
F("tail-check-removed", ["C08", "C02"], (P_, "                if tail:\n                    raise ParseError", "                if False and tail:\n                    raise ParseError"))
F("text-after-endtag-accepted", ["C08"], (P_, "            if text:\n                raise ParseError(f\"Tail text '{text}' after <{tag}>\")\n", ""))
F("end-compares-any-open", ["C08"], (P_, "        if not self._open or self._open[-1] != tag:", "        if not self._open or tag not in self._open:"))
F("feed-swallows-parseerror", ["C08"], (P_, "                msg += \" - position=[{}:{}]\".format(match.start(), match.end())\n                raise ParseError(msg)", "                msg += \" - position=[{}:{}]\".format(match.start(), match.end())\n                logger.error(msg)"))
F("start-bypasses-end", ["C08", "C02"], (P_, "            logger.debug(f\"Popping tag '{tag}'\")\n            self.end(tag)\n        elif closetag:", "            logger.debug(f\"Popping tag '{tag}'\")\n            self._open.pop()\n            ET.TreeBuilder.end(self, tag)\n        elif closetag:"))
F("revert-D7-greedy-cdata", ["C02"], (P_, "(?P<cdata>.+?)\\]\\]>", "(?P<cdata>.+)\\]\\]>"))
F("cdata-excludes-bracket", ["C02"], (P_, "(?P<cdata>.+?)\\]\\]>", "(?P<cdata>[^\\]]+)\\]\\]>"))
F("tag-class-no-underscore", ["C02"], (P_, "<(?P<tag>[A-Z0-9./_ ]+?)>", "<(?P<tag>[A-Z0-9./ ]+?)>"))
F("closetag-not-backref", ["C02"], (P_, "(</(?P<closetag>(?P=tag))>)?", "(</(?P<closetag>[A-Z0-9./_ ]+?)>)?"))
F("text-not-trimmed", ["C02"], (P_, '                text = self._groomstring(groupdict["text"])', '                text = groupdict["text"]'))
F("cdata-trimmed-and-unescaped", ["C02"], (P_, '                cdata = groupdict["cdata"]', '                cdata = self._groomstring(groupdict["cdata"])'))
F("leaf-not-closed-without-endtag", ["C02"], (P_, "            logger.debug(f\"Popping tag '{tag}'\")\n            self.end(tag)\n        elif closetag:", "            if closetag:\n                self.end(tag)\n        elif closetag:"))
F("empty-aggregate-not-closed", ["C02"], (P_, "        elif closetag:\n            # Empty OFX \"aggregate\" branch\n            logger.debug(f\"Popping tag '{closetag}'\")\n            self.end(tag)", "        elif closetag:\n            # Empty OFX \"aggregate\" branch\n            logger.debug(f\"Popping tag '{closetag}'\")"))
F("data-upper-cased", ["C02"], (P_, "            self.data(text)", "            self.data(text.upper())"))
B("end-check-split-ifs", ["C08", "C02"], (P_, "        if not self._open or self._open[-1] != tag:\n            expected = f\"</{self._open[-1]}>\" if self._open else \"no end tag\"\n            raise ParseError(f\"Unexpected </{tag}>; expected {expected}\")\n", "        if not self._open or tag != self._open[-1]:\n            raise ParseError(f\"Unexpected </{tag}>\")\n"))
B("close-len-test", ["C08"], (P_, "        if self._open:\n            raise ParseError(f\"Unclosed", "        if len(self._open) > 0:\n            raise ParseError(f\"Unclosed"))

# ---------------------------------------------------------------- C15 / cache
F("revert-D13-in-place-write", ["C15"], (C_, "            tmppath = persistpath.with_name(f\"{persistpath.name}.{self.uuid}.tmp\")\n            with open(tmppath, \"wb\") as f:\n                f.write(response.read())\n            os.replace(tmppath, persistpath)\n", "            with open(persistpath, \"wb\") as f:\n                f.write(response.read())\n"))
F("write-before-parse", ["C15"], (C_, "        if dryrun:\n            return response\n\n        parser = OFXTree()\n        parser.parse(response)\n        ofx = parser.convert()\n", "        if dryrun:\n            return response\n\n        tmppath = persistpath.with_name(f\"{persistpath.name}.{self.uuid}.tmp\")\n        with open(tmppath, \"wb\") as f:\n            f.write(response.read())\n        os.replace(tmppath, persistpath)\n        response.seek(0)\n\n        parser = OFXTree()\n        parser.parse(response)\n        ofx = parser.convert()\n"))
F("older-profile-overwrites", ["C15"], (C_, "            assert dtprofup is None or dtprofup <= dtprofup_server\n", ""))
F("status-not-checked", ["C15"], (C_, "            assert proftrnrs.status.code == 0\n", ""))
F("cache-key-drops-fid", ["C15"], (C_, 'filename = f"{self.org}-{self.fid}.profrs"', 'filename = f"{self.org}.profrs"'))
F("cache-key-org-or-fid", ["C15"], (C_, 'filename = f"{self.org}-{self.fid}.profrs"', 'filename = f"{self.org or self.fid}.profrs"'))
F("shared-tmp-name", ["C15"], (C_, 'tmppath = persistpath.with_name(f"{persistpath.name}.{self.uuid}.tmp")', 'tmppath = persistpath.with_suffix(".tmp")'))
F("tmp-never-renamed", ["C15"], (C_, "            os.replace(tmppath, persistpath)\n", ""))
F("dtprofup-not-sent", ["C15"], (C_, "        response = self._request_profile(\n            dtprofup=dtprofup,\n", "        response = self._request_profile(\n"))
F("dtprofup-always-none", ["C15"], (C_, "            dtprofup = proftrnrs.profrs.dtprofup\n        else:", "            dtprofup = None\n        else:"))
F("cache-written-on-dryrun", ["C15"], (C_, "        if dryrun:\n            return response\n\n        parser = OFXTree()", "        parser = OFXTree()"))
F("writes-cached-copy", ["C15"], (C_, "                f.write(response.read())\n            os.replace", "                f.write(profrs.read() if profrs else response.read())\n            os.replace"))
B("tmp-via-tempfile-uuid", ["C15"], (C_, 'tmppath = persistpath.with_name(f"{persistpath.name}.{self.uuid}.tmp")', 'tmppath = persistdir / f"{filename}.{uuid.uuid4().hex}.part"'))
B("log-before-write", ["C15"], (C_, "            # Cache the updated PROFRS sent by the server\n            response.seek(0)\n", "            # Cache the updated PROFRS sent by the server\n            logger.debug(\"caching profile\")\n            response.seek(0)\n"))

# ---------------------------------------------------------------- C18 / C19 ofxget
F("chainmap-config-over-cli", ["C18"], (G_, "ChainMap(_args, user_cfg, DEFAULTS)", "ChainMap(user_cfg, _args, DEFAULTS)"))
F("ofxhome-inserted-first", ["C18"], (G_, "            args.maps.insert(\n                -1,", "            args.maps.insert(\n                0,"))
F("password-persistable", ["C18"], (G_, 'configurable_user = (\n    "user",', 'configurable_user = (\n    "password",\n    "user",'))
F("unknown-args-key", ["C18"], (G_, '        gen_newfileuid=not args["nonewfileuid"],\n    ) as f:\n        response = f.read()\n\n    print(response.decode())\n\n    if args["write"]:\n        write_config(args)\n\n\ndef request_acctinfo', '        gen_newfileuid=not args["nonewfileuuid"],\n    ) as f:\n        response = f.read()\n\n    print(response.decode())\n\n    if args["write"]:\n        write_config(args)\n\n\ndef request_acctinfo'))
F("write-on-dryrun", ["C18"], (G_, "    if args[\"dryrun\"]:\n        msg = \"Dry run; won't store password\"\n        warnings.warn(msg, category=SyntaxWarning)\n        return\n", "    if args[\"dryrun\"]:\n        msg = \"Dry run; won't store password\"\n        warnings.warn(msg, category=SyntaxWarning)\n"))
F("clientuid-regenerated", ["C18"], (G_, '    if "clientuid" not in defaults:\n        clientuid = OFXClient.uuid', '    if True:\n        clientuid = OFXClient.uuid'))
F("revert-D17-stale-option-kept", ["C18"], (G_, "            elif value not in NULL_ARGS:\n                # The lower-ranking sources already yield this value; don't let\n                # a different one saved earlier keep overriding them.\n                USERCFG.remove_option(server, opt)\n", ""))
F("revert-D12-percent", ["C18"], (G_, '    return handlers[cfg_type](value).replace("%", "%%")  # type: ignore', "    return handlers[cfg_type](value)  # type: ignore"))
F("store-true-default-false", ["C18"], (G_, '        "--nonewfileuid",\n        action="store_true",\n        default=None,', '        "--nonewfileuid",\n        action="store_true",'))
F("write-filter-defaults-first", ["C18"], (G_, "        elif value == lib_cfg.get(opt, DEFAULTS[opt]):", "        elif value == ChainMap(DEFAULTS, lib_cfg)[opt]:"))
F("user-file-before-fi-db", ["C18"], (G_, "USERCFG.read([CONFIGPATH, USERCONFIGPATH])", "USERCFG.read([USERCONFIGPATH, CONFIGPATH])"))
F("bool-writer-yes-no-swapped", ["C18"], (G_, '        return {True: "true", False: "false"}[value]', '        return {True: "false", False: "true"}[value]'))
F("configurable-typo", ["C18"], (G_, '    "brokerid",\n    "bankid",\n    "appid",', '    "brokerid",\n    "bank_id",\n    "appid",'))
F("int-reader-missing", ["C18"], (G_, "        int: proxy.getint,\n", ""))
F("extractns-keeps-none", ["C18"], (G_, "    return {k: v for k, v in vars(ns).items() if v is not None}", "    return {k: v for k, v in vars(ns).items()}"))
F("version-not-persistable", ["C18"], (G_, '    "ofxhome",\n    "version",\n    "pretty",', '    "ofxhome",\n    "pretty",'))
B("chainmap-kw-layout", ["C18"], (G_, "    merged: ArgsType = ChainMap(_args, user_cfg, DEFAULTS)  # type: ignore", "    layers = (_args, user_cfg, DEFAULTS)\n    merged: ArgsType = ChainMap(*layers)  # type: ignore"))
F("ccacct-no-active-filter", ["C19"], (G_, '    return {"creditcard": [i.acctid for i in acctinfos if _acctIsActive(i)]}', '    return {"creditcard": [i.acctid for i in acctinfos]}'))
F("active-includes-avail", ["C19"], (G_, '    return acctinfo.svcstatus == "ACTIVE"', '    return acctinfo.svcstatus in ("ACTIVE", "AVAIL")'))
F("active-not-pend", ["C19"], (G_, '    return acctinfo.svcstatus == "ACTIVE"', '    return acctinfo.svcstatus != "PEND"'))
F("accttype-checkings", ["C19"], (G_, '    for accttype in ("checking", "savings", "moneymrkt", "creditline"):\n        stmtrqs.extend(', '    for accttype in ("checkings", "savings", "moneymrkt", "creditline"):\n        stmtrqs.extend('))
F("dtasof-from-end", ["C19"], (G_, '                dtasof=dt["asof"],', '                dtasof=dt["end"],'))
F("acctinfo-groupby-unsorted", ["C19"], (G_, "    acctinfos: List[AcctInfo] = sorted(extract_acctinfos(markup), key=sortKey)", "    acctinfos: List[AcctInfo] = list(extract_acctinfos(markup))"))
F("creditcard-as-bank", ["C19"], (G_, "    for acctid in args[\"creditcard\"]:\n        stmtendrqs.append(\n            CcStmtEndRq(acctid=acctid, dtstart=dt[\"start\"], dtend=dt[\"end\"])\n        )", "    for acctid in args[\"creditcard\"]:\n        stmtendrqs.append(\n            StmtEndRq(acctid=acctid, accttype=\"CREDITLINE\", dtstart=dt[\"start\"], dtend=dt[\"end\"])\n        )"))
F("savings-iterated-twice", ["C19"], (G_, '    for accttype in ("checking", "savings", "moneymrkt", "creditline"):\n        acctids = args[accttype]', '    for accttype in ("checking", "savings", "savings", "creditline"):\n        acctids = args[accttype]'))
F("inv-ignores-incpos", ["C19"], (G_, '                incpos=args["incpos"],', '                incpos=args["incbal"],'))
F("bank-filter-dropped", ["C19"], (G_, "    for inf in acctinfos:\n        if _acctIsActive(inf):\n            bankids.append(inf.bankid)\n            args_[inf.accttype.lower()].append(inf.acctid)", "    for inf in acctinfos:\n        bankids.append(inf.bankid)\n        if _acctIsActive(inf):\n            args_[inf.accttype.lower()].append(inf.acctid)"))
F("first-request-dropped", ["C19"], (G_, "        password,\n        *stmtrqs,\n", "        password,\n        *stmtrqs[1:],\n"))
F("brokerid-from-bankid", ["C19"], (G_, '        brokerid=args["brokerid"] or None,', '        brokerid=args["bankid"] or None,'))
F("stmtend-ignores-dtend", ["C19"], (G_, '            CcStmtEndRq(acctid=acctid, dtstart=dt["start"], dtend=dt["end"])', '            CcStmtEndRq(acctid=acctid, dtstart=dt["start"])'))
B("acctids-local-name", ["C19"], (G_, "        acctids = args[accttype]\n        stmtendrqs.extend(", "        ids = args[accttype]\n        acctids = ids\n        stmtendrqs.extend("))

# ---------------------------------------------------------------- later additions
F("to-etree-skips-falsy", ["C01", "C13"], (B_, "                if value is None:\n                    continue", "                if not value:\n                    continue"))
F("service-url-from-self", ["C14"], (C_, "            RqCls: msgset.url  # proxy access to SubAggregate attributes", "            RqCls: self.url  # proxy access to SubAggregate attributes"))
F("stmtend-url-from-self", ["C14"], (C_, "                    urls[stmtendrqCls] = msgset.url  # proxy access to SubAgg attributes", "                    urls[stmtendrqCls] = self.url"))

# D9 (fix e4b95cf): the sign of [-0.30] is taken from the text
_D9 = '        gmt_offset = utils.gmt_offset(gmt_offset_hours, int(minutes or 0))\n        # An offset between -1:00 and 0 has its sign in the text alone:\n        # int("-0") == 0, which gmt_offset() takes for positive.\n        if gmt_offset_hours == 0 and hours and hours.startswith("-"):\n            gmt_offset = -gmt_offset\n        return gmt_offset\n'
F("revert-D9-sign-of-zero-hours", ["C09", "C10", "C01", "C03", "C06"], (T_, _D9, "        return utils.gmt_offset(gmt_offset_hours, int(minutes or 0))\n"))
F("D9-sign-test-on-the-integer", ["C09"], (T_, 'if gmt_offset_hours == 0 and hours and hours.startswith("-"):', "if gmt_offset_hours == 0 and gmt_offset_hours < 0:"))
B("D9-sign-by-membership-test", ["C09", "C10"], (T_, 'hours.startswith("-")', '"-" in hours'))

# D18 (fix 2aef96b): CDATA content spans lines (re.DOTALL) and may be set off by whitespace
P_ = "ofxtools/Parser.py"
F("revert-D18-dotall", ["C02", "C03", "C01"], (P_, "        re.VERBOSE | re.DOTALL,\n    )\n\n    def __init__", "        re.VERBOSE,\n    )\n\n    def __init__"))
F("revert-D18-whitespace-before-cdata", ["C02"], (P_, "((\\s*<!\\[CDATA\\[(?P<cdata>.+?)\\]\\]>\\s*)|", "((<!\\[CDATA\\[(?P<cdata>.+?)\\]\\]>\\s*)|"))
B("D18-cdata-class-instead-of-dotall", ["C02", "C03", "C08"], (P_, "(?P<cdata>.+?)", "(?P<cdata>[\\s\\S]+?)"))

# D19 (fix c2dfae3): with --all the account types the response supplies nothing for are masked
F("revert-D19-unlisted-types-not-masked", ["C19"], (G_, "    args.maps.insert(1, ChainMap(*parsed_args, unlisted))  # type: ignore", "    args.maps.insert(1, ChainMap(*parsed_args))  # type: ignore"))
F("D19-mask-omits-investment", ["C19"], (G_, '        "creditcard",\n        "investment",\n    )\n    unlisted', '        "creditcard",\n    )\n    unlisted'))
F("D19-mask-ranks-before-the-parsed-accounts", ["C19"], (G_, "ChainMap(*parsed_args, unlisted)", "ChainMap(unlisted, *parsed_args)"))
B("D19-mask-by-fromkeys", ["C19", "C18"], (G_, "    unlisted: ParsedAcctinfo = {\n        accttype: [] for accttype in accttypes if accttype in args\n    }\n", "    unlisted: ParsedAcctinfo = {\n        accttype: [] for accttype in accttypes if accttype in args.keys()\n    }\n"))
B("D19-mask-bound-to-a-local-layer", ["C19"], (G_, "    args.maps.insert(1, ChainMap(*parsed_args, unlisted))  # type: ignore", "    layer = ChainMap(*parsed_args, unlisted)\n    args.maps.insert(1, layer)  # type: ignore"))

# round 12 rules: hand variants (the seeded corpus holds the faults found by the sub-agents; these pin the benign side and a
# few faults in other spellings)
B("T-R11-empty-test-by-truth", ["C10", "C03", "C01"], (T_, '        if value == "":\n            return self.enforce_required(None)\n\n        # Unescape', '        if not value:\n            return self.enforce_required(None)\n\n        # Unescape'))
F("T-R11-empty-test-on-stripped-copy", ["C10"], (T_, '        if value == "":\n            return self.enforce_required(None)\n\n        # Unescape', '        if value.strip() == "":\n            return self.enforce_required(None)\n\n        # Unescape'))
B("U-R11-iterates-a-list-snapshot", ["C03", "C07", "C17"], (B_, "        for child in set(elem):", "        for child in list(elem):"))
F("U-R11-iterates-the-element-itself", ["C03", "C07"], (B_, "        for child in set(elem):", "        for child in elem:"))
B("Q-R11-fallback-by-conditional-expression", ["C06", "C12", "C01"], (C_, "        if version is None:\n            version = self.version\n        if prettyprint is None:", "        version = self.version if version is None else version\n        if prettyprint is None:"))
F("Q-R11-prettyprint-or-default", ["C06"], (C_, "        if prettyprint is None:\n            prettyprint = self.prettyprint\n        if close_elements is None:", "        prettyprint = prettyprint or self.prettyprint\n        if close_elements is None:"))
F("P-R11-root-truth-in-parse", ["C02"], (P_, "        return super().close()\n", "        root = super().close()\n        return root if root else None\n"))
B("P-R11-root-is-none-test", ["C02", "C08"], (P_, "        return super().close()\n", "        root = super().close()\n        if root is None:\n            return None\n        return root\n"))
F("S-R13-scale-on-trnamt", ["C03"], ("ofxtools/models/bank/stmt.py", "    trnamt = Decimal(required=True)", "    trnamt = Decimal(2, required=True)"))
F("N-R14-ccstmtend-by-bank-msgset", ["C14"], (C_, "        map_stmtendrq_urls(CREDITCARDMSGSET, CcStmtEndRq)", "        map_stmtendrq_urls(BANKMSGSET, CcStmtEndRq)"))
F("G-R13-pop-server-before-lookup", ["C18"], (G_, '    if "server" in _args:\n        user_cfg = read_config(config, _args["server"])', '    if urllib_parse.urlparse(_args.get("server") or "").scheme:\n        _args["url"] = _args.pop("server")\n    if "server" in _args:\n        user_cfg = read_config(config, _args["server"])'))

# round 13 rules: hand variants
_GRP = "            wrap_stmtrq(cls(), rqs, self)\n"
B("Q-R12-group-materialised-once-then-logged", ["C06", "C14", "C17"], (C_, "        trnrqs = [\n            wrap_stmtrq(cls(), rqs, self)\n            for cls, rqs in itertools.groupby(\n                sorted(requests, key=sortKey), key=groupKey\n            )\n        ]\n", "        trnrqs = []\n        for cls, rqs in itertools.groupby(sorted(requests, key=sortKey), key=groupKey):\n            rqs = list(rqs)\n            logger.debug(f\"Wrapping {len(rqs)} {cls.__name__}\")\n            trnrqs.append(wrap_stmtrq(cls(), rqs, self))\n"))
F("Q-R12-group-walked-for-the-log-first", ["C06"], (C_, "        trnrqs = [\n            wrap_stmtrq(cls(), rqs, self)\n            for cls, rqs in itertools.groupby(\n                sorted(requests, key=sortKey), key=groupKey\n            )\n        ]\n", "        trnrqs = []\n        for cls, rqs in itertools.groupby(sorted(requests, key=sortKey), key=groupKey):\n            logger.debug(f\"Wrapping {len(list(rqs))} {cls.__name__}\")\n            trnrqs.append(wrap_stmtrq(cls(), rqs, self))\n"))
B("F-R2-kwargs-copied-after-validation", ["C04", "C13", "C17"], (B_, "        self.validate_args(*args, **kwargs)\n\n        for attr in self.spec_no_listaggregates:", "        self.validate_args(*args, **kwargs)\n        kwargs = dict(kwargs)\n\n        for attr in self.spec_no_listaggregates:"))
F("F-R2-kwargs-stripped-after-validation", ["C04"], (B_, "        self.validate_args(*args, **kwargs)\n\n        for attr in self.spec_no_listaggregates:", "        self.validate_args(*args, **kwargs)\n        kwargs = {k.strip(): v for k, v in kwargs.items()}\n\n        for attr in self.spec_no_listaggregates:"))
F("K-R5-dryrun-returns-cache-before-asking", ["C15"], (C_, "            profrs = None\n            dtprofup = None\n\n        response = self._request_profile(", "            profrs = None\n            dtprofup = None\n\n        if profrs is not None and timeout == 0:\n            return profrs\n\n        response = self._request_profile("))
F("P-R13-close-in-finally-with-return", ["C08"], (P_, "        return super().close()\n", "        try:\n            root = super().close()\n        finally:\n            return self._last if hasattr(self, \"_last\") else None\n"))
F("G-R14-write-skipped-when-section-empty", ["C18"], (G_, "    mk_server_cfg(args)\n    logger.info(f\"Writing user configs to {USERCONFIGPATH}\")\n", "    cfg = mk_server_cfg(args)\n    if not len(cfg):\n        return\n    logger.info(f\"Writing user configs to {USERCONFIGPATH}\")\n"))


# round 14 rules: hand variants (benign side first)
B("G-R7b-predicate-merged-correctly", ["C18"], (G_, """        if value in NULL_ARGS:
            return False
        # Don't include CLIENTUID in the server section if it's sourced
        # from USERCFG.default_section
        if opt == "clientuid" and value == defaults["clientuid"]:
            return False
        # Don't include configs that are the same as defaults
        elif value == lib_cfg.get(opt, DEFAULTS[opt]):
            return False

        return True
""", """        return (
            value not in NULL_ARGS
            and not (opt == "clientuid" and value == defaults["clientuid"])
            and value != lib_cfg.get(opt, DEFAULTS[opt])
        )
"""))
F("G-R7b-predicate-merged-with-or-slip", ["C18"], (G_, """        if value in NULL_ARGS:
            return False
        # Don't include CLIENTUID in the server section if it's sourced
        # from USERCFG.default_section
        if opt == "clientuid" and value == defaults["clientuid"]:
            return False
        # Don't include configs that are the same as defaults
        elif value == lib_cfg.get(opt, DEFAULTS[opt]):
            return False

        return True
""", """        return (
            value not in NULL_ARGS
            and (opt != "clientuid" or value == defaults["clientuid"])
            and value != lib_cfg.get(opt, DEFAULTS[opt])
        )
"""))
B("N-R15-one-url-by-explicit-raise", ["C14", "C06"], (C_, """            assert len(urls) == 1
            url = urls.pop()

        logger.info("Creating account info request")""", """            if len(urls) != 1:
                raise ValueError("profile advertises several service URLs")
            url = urls.pop()

        logger.info("Creating account info request")"""))
F("N-R15-only-the-empty-set-refused", ["C14"], (C_, """            assert len(urls) == 1
            url = urls.pop()

        logger.info("Creating account info request")""", """            if not urls:
                raise ValueError("profile advertises no service URL")
            url = urls.pop()

        logger.info("Creating account info request")"""))
B("B-R16-xml-pattern-from-a-helper-optional-space", ["C05", "C12"], (H_, """XML_REGEX = re.compile(
    r\"\"\"(<\\?xml\\s+
        (version=(?P<versionquote>[\\"'])(?P<xmlversion>[\\d.]+)(?P=versionquote))?\\s*
        (encoding=(?P<encodingquote>[\\"'])(?P<encoding>[\\w-]+)(?P=encodingquote))?\\s*
        (standalone=(?P<standalonequote>[\\"'])(?P<standalone>[\\w]+)(?P=standalonequote))?\\s*
        \\?>)\\s*\"\"\",
    re.VERBOSE,
)
""", """def _xml_attr(name, group, value):
    return rf\"\"\"({name}=(?P<{name}quote>[\\"'])(?P<{group}>{value})(?P={name}quote))?\\s*\"\"\"


XML_REGEX = re.compile(
    r\"(<\\?xml\\s+\"
    + _xml_attr("version", "xmlversion", r"[\\d.]+")
    + _xml_attr("encoding", "encoding", r"[\\w-]+")
    + _xml_attr("standalone", "standalone", r"[\\w]+")
    + r\"\\?>)\\s*\",
    re.VERBOSE,
)
"""))

B("P-R15-end-by-match-with-guard", ["C08", "C02", "C07", "C15"], (P_, """        if not self._open or self._open[-1] != tag:
            expected = f"</{self._open[-1]}>" if self._open else "no end tag"
            raise ParseError(f"Unexpected </{tag}>; expected {expected}")
        self._open.pop()
""", """        match self._open:
            case []:
                raise ParseError(f"Unexpected </{tag}>; expected no end tag")
            case [*_, innermost] if innermost != tag:
                raise ParseError(f"Unexpected </{tag}>; expected </{innermost}>")
        self._open.pop()
"""))

F("T-R3-digit-gate-on-the-raw-text", ["C01", "C10"], (T_, "            return self.enforce_required(None)\n        return self.enforce_length(int(value))\n", "            return self.enforce_required(None)\n        if not value.isdigit():\n            raise ValueError(f\"invalid literal for int(): {value!r}\")\n        return self.enforce_length(int(value))\n"))
