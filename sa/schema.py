"""E2 - the model schema, computed the way `Aggregate.spec` computes it, from source."""
from __future__ import annotations

import ast
from typing import Dict, List, Optional

from .source import AnalysisError, Call, ClassInfo, Ext, Func, Project, UNK

TYPES = "ofxtools.Types"
BASE = "ofxtools.models.base"
MODELS = "ofxtools.models"

FLOOR_CLASSES = 390
FLOOR_CHILDREN = 2000
FLOOR_MUTEX = 80


class Child:
    """One declared child of an aggregate class."""

    __slots__ = ("name", "kind", "kinds", "call", "owner", "required", "target", "valid", "length", "scale", "inner")

    def __init__(self, name, kinds, call, owner):
        self.name = name
        self.kinds = kinds
        self.kind = kinds[0]
        self.call = call
        self.owner = owner  # ClassInfo whose body declares it
        self.required = call.kwargs.get("required", False)
        self.target = None
        self.valid = None
        self.length = None
        self.scale = None
        self.inner = None
        if self.is_agg:
            self.target = call.args[0] if call.args else None
        if self.kind == "OneOf":
            self.valid = list(call.args)
        if "String" in kinds or self.kind == "Integer":
            self.length = call.args[0] if call.args else call.kwargs.get("length")
        if self.kind == "Decimal":
            self.scale = call.args[0] if call.args else call.kwargs.get("scale")
        if self.kind == "ListElement":
            self.inner = call.args[0] if call.args else call.kwargs.get("converter")

    @property
    def is_agg(self):
        return "SubAggregate" in self.kinds

    @property
    def is_list(self):
        return self.kind in ("ListAggregate", "ListElement")

    @property
    def is_unsupported(self):
        return self.kind == "Unsupported"

    def __repr__(self):
        return f"<{self.kind} {self.name}>"


class Schema:
    def __init__(self, project: Project):
        self.p = project
        self.aggregate = project.get_class(BASE, "Aggregate")
        self.elementlist = project.get_class(BASE, "ElementList")
        self.element = project.get_class(TYPES, "Element")
        self.unsupported = project.get_class(TYPES, "Unsupported")
        self._spec: Dict[ClassInfo, Dict[str, Child]] = {}
        self._classes: Optional[Dict[str, ClassInfo]] = None

    # ------------------------------------------------------------------
    def type_kinds(self, call) -> Optional[List[str]]:
        """names of the `ofxtools.Types` classes along the MRO of the callee, if it is one"""
        if not isinstance(call, Call):
            return None
        f = call.func
        if isinstance(f, ClassInfo) and f.module == TYPES:
            return [c.name for c in f.mro if isinstance(c, ClassInfo)]
        return None

    def is_aggregate(self, ci) -> bool:
        return isinstance(ci, ClassInfo) and self.aggregate in ci.mro

    def is_elementlist(self, ci) -> bool:
        return isinstance(ci, ClassInfo) and self.elementlist in ci.mro

    def superdict_order(self, ci: ClassInfo) -> List[str]:
        """key order of ChainMap(*[b.__dict__ for b in cls.mro()]): maps iterated last to first,
        first insertion position kept"""
        order: Dict[str, None] = {}
        for c in reversed(ci.mro):
            if isinstance(c, ClassInfo):
                for k in c.attrs:
                    order.setdefault(k, None)
            elif isinstance(c, Ext) and c.name == "list":
                for k in list.__dict__:
                    order.setdefault(k, None)
            elif isinstance(c, Ext) and c.name == "object":
                for k in object.__dict__:
                    order.setdefault(k, None)
        return list(order)

    def spec(self, ci: ClassInfo) -> Dict[str, Child]:
        got = self._spec.get(ci)
        if got is not None:
            return got
        out: Dict[str, Child] = {}
        for k in self.superdict_order(ci):
            definer = ci.definer(k)
            if definer is None:
                continue
            v = definer.own(k)
            ks = self.type_kinds(v)
            if ks and ("Element" in ks or "Unsupported" in ks):
                out[k] = Child(k, ks, v, definer)
        self._spec[ci] = out
        return out

    @staticmethod
    def _materialise(v):
        """the groups a table built by an itertools combinator over constants denotes (what the FIRST iteration yields;
        that such a table is a one-shot iterator is reported by E-R7)"""
        from .source import Call as _Call, Ext as _Ext
        import itertools as _it

        if isinstance(v, _Call) and isinstance(v.func, _Ext) and v.func.name in ("itertools.combinations", "itertools.permutations", "combinations", "permutations") and len(v.args) == 2 and isinstance(v.args[0], (list, tuple)) and isinstance(v.args[1], int) and all(isinstance(x, str) for x in v.args[0]):
            fn_ = _it.combinations if "combinations" in v.func.name else _it.permutations
            return [list(g) for g in fn_(list(v.args[0]), v.args[1])]
        return v

    def mutexes(self, ci: ClassInfo, which: str):
        """effective (MRO-resolved) value of optionalMutexes / requiredMutexes"""
        v = self._materialise(ci.lookup(which))
        if v is None:
            return []
        if not isinstance(v, (list, tuple)):
            raise AnalysisError(f"{ci.name}.{which} is not a literal list: {v!r}")
        out = []
        for g in v:
            if isinstance(g, str):
                # a group that IS a string (`("wirers", "wirecanrs")` for `(("wirers", "wirecanrs"),)`): the validator
                # iterates it letter by letter - S-R3 reports its 'members' as undeclared children
                out.append(list(g))
                continue
            if not isinstance(g, (list, tuple)) or not all(isinstance(x, str) for x in g):
                raise AnalysisError(f"{ci.name}.{which} has a non-literal group: {g!r}")
            out.append(list(g))
        return out

    def own_mutexes(self, ci: ClassInfo, which: str):
        if which not in ci.attrs:
            return None
        v = self._materialise(ci.own(which))
        if not isinstance(v, (list, tuple)):
            raise AnalysisError(f"{ci.name}.{which} is not a literal list: {v!r}")
        return [list(g) for g in v]

    # ------------------------------------------------------------------
    def exported(self) -> Dict[str, ClassInfo]:
        """aggregate classes reachable as getattr(ofxtools.models, NAME)"""
        if self._classes is None:
            res = {}
            names = set(self.p.public(MODELS))
            # names bound directly in the package __init__ are attributes too
            for bname, kind, payload in self.p.module(MODELS).bindings:
                if bname != "*":
                    names.add(bname)
            for n in sorted(names):
                v = self.p.resolve(MODELS, n)
                if isinstance(v, ClassInfo) and self.is_aggregate(v):
                    res[n] = v
            self._classes = res
        return self._classes

    def all_aggregate_classes(self) -> List[ClassInfo]:
        """every class statement under ofxtools/models whose MRO contains Aggregate"""
        out = []
        for name, m in self.p.modules.items():
            if not name.startswith(MODELS):
                continue
            for bname, kind, payload in m.bindings:
                if kind == "class":
                    ci = self.p.classinfo(name, payload)
                    try:
                        if self.is_aggregate(ci):
                            out.append(ci)
                    except AnalysisError:
                        raise
        return out

    def model_by_tag(self, tag: str) -> Optional[ClassInfo]:
        v = self.p.resolve(MODELS, tag)
        return v if isinstance(v, ClassInfo) else None

    def check_floors(self):
        classes = self.exported()
        n_children = sum(len(self.spec(c)) for c in classes.values())
        n_mutex = sum(len(self.mutexes(c, "optionalMutexes")) + len(self.mutexes(c, "requiredMutexes")) for c in classes.values())
        if len(classes) < FLOOR_CLASSES or n_children < FLOOR_CHILDREN or n_mutex < FLOOR_MUTEX:
            raise AnalysisError(
                f"schema floor not met: classes={len(classes)} (>= {FLOOR_CLASSES}), "
                f"children={n_children} (>= {FLOOR_CHILDREN}), mutex groups={n_mutex} (>= {FLOOR_MUTEX})"
            )
        return len(classes), n_children, n_mutex

    # ------------------------------------------------------------------
    def attr_defined_on(self, ci: ClassInfo, name: str, depth: int = 6) -> bool:
        """is `name` readable on an instance of ci: spec child, class attribute along the MRO,
        or proxied by __getattr__ from a non-repeated sub-aggregate descendant"""
        if ci.definer(name) is not None:
            return True
        if isinstance(ci, ClassInfo):
            for c in ci.mro:
                if isinstance(c, Ext) and c.name == "list" and hasattr(list, name):
                    return True
        if depth <= 0:
            return False
        for ch in self.spec(ci).values():
            if ch.kind == "SubAggregate" and isinstance(ch.target, ClassInfo):
                if self.attr_defined_on(ch.target, name, depth - 1):
                    return True
        return False


def dump(schema: Schema):
    """JSON-able rendering used by the analyser cross-check (thorough tier)"""
    res = {}
    for n, ci in schema.exported().items():
        d = {
            "spec": [],
            "optionalMutexes": schema.mutexes(ci, "optionalMutexes"),
            "requiredMutexes": schema.mutexes(ci, "requiredMutexes"),
            "mro": [c.name for c in ci.mro],
        }
        for k, ch in schema.spec(ci).items():
            ent = {"name": k, "kind": ch.kind, "required": bool(ch.required)}
            if ch.is_agg:
                ent["target"] = getattr(ch.target, "name", repr(ch.target))
            if ch.kind == "OneOf":
                ent["valid"] = list(ch.valid)
            if ch.kind in ("String", "NagString", "Integer"):
                ent["length"] = ch.length
            if ch.kind == "Decimal":
                ent["scale"] = ch.scale
            if ch.kind == "ListElement":
                ks = schema.type_kinds(ch.inner)
                ent["inner"] = ks[0] if ks else None
            d["spec"].append(ent)
        res[n] = d
    return res
