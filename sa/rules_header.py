"""Header rules B-R1..6 (C12) and H-R1..3 (C05)."""
from __future__ import annotations

import ast
import codecs as _codecs
from typing import Dict, List, Optional, Set

from . import rx
from .cfg import CFG
from .dataflow import Reaching, local_defs, own_nodes, own_statements, params_of, resolve_values
from .match import Expander, norm, text
from .report import Report
from .schema import Schema
from .flat import flat as _flat2
from .paths import return_paths as _rp
from .source import AnalysisError, Call, ClassInfo, Project, dotted, parent

HEADER = "ofxtools.header"


def hloc(p: Project, node):
    return f"{p.module(HEADER).relpath}:{getattr(node, 'lineno', '?')}"


def _validators(p: Project, schema: Schema, ci: ClassInfo) -> Dict[str, Call]:
    out = {}
    for k in ci.attrs:
        v = ci.own(k)
        ks = schema.type_kinds(v)
        if ks and "Element" in ks:
            out[k] = v
    return out


def _str_fields(fn) -> Optional[List[tuple]]:
    """[(NAME, value expr)] of the `fields = ((NAME, value), ...)` tuple in __str__"""
    for st in own_statements(fn):
        if isinstance(st, ast.Assign) and isinstance(st.value, ast.Tuple) and st.value.elts and all(isinstance(e, ast.Tuple) and len(e.elts) == 2 and isinstance(e.elts[0], ast.Constant) for e in st.value.elts):
            return [(e.elts[0].value, e.elts[1]) for e in st.value.elts]
    return None


def _captures_map(e) -> Optional[bool]:
    """is `e` the regex match's groupdict with at most the KEYS lower-cased?  True / False (a value is converted or
    altered) / None (shape not recognised)"""
    if isinstance(e, ast.Call) and isinstance(e.func, ast.Attribute) and e.func.attr == "groupdict" and not e.args:
        return True
    key = val = gen = None
    if isinstance(e, ast.DictComp) and len(e.generators) == 1:
        key, val, gen = e.key, e.value, e.generators[0]
    elif isinstance(e, ast.Call) and isinstance(e.func, ast.Name) and e.func.id == "dict" and len(e.args) == 1 and not e.keywords and isinstance(e.args[0], (ast.GeneratorExp, ast.ListComp)) and len(e.args[0].generators) == 1 and isinstance(e.args[0].elt, ast.Tuple) and len(e.args[0].elt.elts) == 2:
        key, val = e.args[0].elt.elts
        gen = e.args[0].generators[0]
    if gen is None or gen.ifs:
        return None
    it = gen.iter
    src = None
    kname = vname = None
    if isinstance(it, ast.Call) and isinstance(it.func, ast.Attribute) and it.func.attr == "items" and isinstance(gen.target, ast.Tuple) and len(gen.target.elts) == 2 and all(isinstance(t, ast.Name) for t in gen.target.elts):
        src, kname, vname = it.func.value, gen.target.elts[0].id, gen.target.elts[1].id
    elif isinstance(gen.target, ast.Name):
        src = it.func.value if isinstance(it, ast.Call) and isinstance(it.func, ast.Attribute) and it.func.attr == "keys" else it
        kname = gen.target.id
    if src is None or not text(src).endswith(".groupdict()"):
        return None
    key_ok = (isinstance(key, ast.Name) and key.id == kname) or (isinstance(key, ast.Call) and isinstance(key.func, ast.Attribute) and key.func.attr == "lower" and isinstance(key.func.value, ast.Name) and key.func.value.id == kname and not key.args)
    if vname is not None:
        val_ok = isinstance(val, ast.Name) and val.id == vname
    else:
        val_ok = (isinstance(val, ast.Subscript) and text(val.value) == text(src) and isinstance(val.slice, ast.Name) and val.slice.id == kname) or (isinstance(val, ast.Call) and isinstance(val.func, ast.Attribute) and val.func.attr == "get" and text(val.func.value) == text(src) and len(val.args) == 1 and text(val.args[0]) == kname)
    if not key_ok:
        return None
    if val_ok:
        return True
    # the value component is something else: a conversion / edit of the captured string
    return False


def _foreign_calls(p: Project, ci, expr, nm: str, depth: int = 2) -> Optional[str]:
    """name of a function (other than int / str / bool / a validator's convert) that is handed the field `nm` inside
    `expr`; private helpers of the class / module are looked into"""
    from .source import Func

    for c in ast.walk(expr):
        if not isinstance(c, ast.Call):
            continue
        takes = [i for i, a in enumerate(c.args) if any(isinstance(x, ast.Name) and x.id == nm for x in ast.walk(a))] or [k.arg for k in c.keywords if any(isinstance(x, ast.Name) and x.id == nm for x in ast.walk(k.value))]
        if not takes:
            continue
        f = c.func
        if isinstance(f, ast.Name) and f.id in ("int", "str", "bool", "isinstance", "len"):
            continue
        if isinstance(f, ast.Attribute) and f.attr in ("convert", "unconvert", "format", "debug", "info", "warning"):
            continue
        helper = None
        if isinstance(f, ast.Attribute) and isinstance(f.value, ast.Name) and f.value.id in ("self", "cls") or isinstance(f, ast.Attribute) and isinstance(f.value, ast.Name) and f.value.id == ci.name:
            _d, helper = ci.find_method(f.attr)
        elif isinstance(f, ast.Name):
            r = p.resolve(ci.module, f.id)
            helper = r.node if isinstance(r, Func) else None
        if helper is not None and depth > 0:
            hp = [a.arg for a in helper.args.args if a.arg not in ("self", "cls")]
            idx = takes[0]
            pn = hp[idx] if isinstance(idx, int) and idx < len(hp) else (idx if isinstance(idx, str) else None)
            if pn is None:
                return text(f)
            for r_ in ast.walk(helper):
                if isinstance(r_, ast.Return) and r_.value is not None:
                    inner = _foreign_calls(p, ci, r_.value, pn, depth - 1)
                    if inner:
                        return inner
            continue
        return text(f)
    return None


def b_rules(p: Project, rep: Report):
    schema = Schema(p)
    rep.rule("B-R1", "for both header classes the fields written by __str__, the named groups of the parsing regex and the constructor parameters agree (same set; same order for writer and regex); each written value is the attribute of the same name")
    rep.rule("B-R2", "every constructor parameter is stored under its own name, every stored field has a class-level validator, and every store lies inside the try that turns ValueError into OFXHeaderError")
    rep.rule("B-R4", "validators: OFXHEADER is OneOf(100) / OneOf(200); all four file-UID fields are String(36); v1 VERSION is a 3-digit Integer, v2 VERSION an enumeration of 2xx values; SECURITY agrees between the classes; the v1 token fields admit exactly the OFX 1.x tokens (DATA: OFXSGML; COMPRESSION: NONE; CHARSET: ISO-8859-1, 1252, NONE; ENCODING: USASCII, UNICODE and at most UTF-8 beside them)")
    rep.rule("B-R5", "parse() hands the captured strings to the constructor unmodified (keys lower-cased only) and fails with OFXHeaderError when the regex does not match")
    rep.rule("B-R11", "fields the constructors convert with int() (OFXHEADER, VERSION) are captured by digit-only groups: int() accepts underscores, signs and blanks, so a wider group lets a non-numeric field through as a number")
    rep.rule("B-R6", "reader covers writer: for every field, every token its validator admits (and the UID alphabet [A-Za-z0-9_-], up to 36 characters) is in the language of the field's regex group")
    for clsname, major in (("OFXHeaderV1", 1), ("OFXHeaderV2", 2)):
        ci = p.get_class(HEADER, clsname)
        r = rx.class_regex(p, HEADER, clsname)
        sfn, ifn = ci.own_func("__str__"), ci.own_func("__init__")
        if sfn is None or ifn is None:
            raise AnalysisError(f"{clsname}.__str__/__init__ not found")
        fields = _str_fields(sfn)
        if fields is None:
            raise AnalysisError(f"{clsname}.__str__: field table not recognised")
        wnames = [n for n, _ in fields]
        gnames = r.group_order()
        pnames = params_of(ifn)[1:]
        ok = [n.lower() for n in wnames] == [g.lower() for g in gnames]
        rep.check("B-R1", f"{clsname}:writer-fields=regex-groups", ok, f"__str__ writes {wnames}, the regex reads {gnames}: the generated header does not parse back to equal fields" if not ok else "", hloc(p, sfn))
        ok = set(g.lower() for g in gnames) == set(pnames)
        rep.check("B-R1", f"{clsname}:regex-groups=constructor-parameters", ok, f"regex groups {sorted(g.lower() for g in gnames)} vs constructor parameters {sorted(pnames)}: parse() raises TypeError or drops a field" if not ok else "", hloc(p, ifn))
        for n, v in fields:
            t = text(v)
            ok = t in (f"self.{n.lower()}", f"str(self.{n.lower()})")
            rep.check("B-R1", f"{clsname}.__str__:{n}", ok, f"{n} is written from {t}" if not ok else "", hloc(p, v))
        # B-R2
        vals = _validators(p, schema, ci)
        trys = [s for s in own_statements(ifn) if isinstance(s, ast.Try)]
        wraps = [t for t in trys if any(h.type is not None and "ValueError" in text(h.type) and any(isinstance(x, ast.Raise) and x.exc is not None and "OFXHeaderError" in text(x.exc) for x in ast.walk(h)) for h in t.handlers)]
        stores = [s for s in own_statements(ifn) if isinstance(s, ast.Assign) and isinstance(s.targets[0], ast.Attribute) and text(s.targets[0].value) == "self"]
        dyn = [c for c in own_nodes(ifn) if isinstance(c, ast.Call) and isinstance(c.func, ast.Name) and c.func.id == "setattr" and c.args and text(c.args[0]) == "self"]
        if dyn and len(stores) < len(pnames):
            rep.note(f"B-R2 undecided for {clsname}: fields are stored through setattr() in a loop")
            for c in dyn:
                inside = any(any(x is c for x in ast.walk(ast.Module(body=t.body, type_ignores=[]))) for t in wraps)
                rep.check("B-R2", f"{clsname}.__init__:setattr:inside-wrapping-try", inside, "fields are stored outside the try that converts ValueError into OFXHeaderError" if not inside else "", hloc(p, c))
            stores = []
            pnames_to_check = []
        elif not stores:
            rep.note(f"B-R2 undecided for {clsname}: __init__ stores no field directly (fields are set elsewhere)")
            pnames_to_check = []
        else:
            pnames_to_check = pnames
        stored = {}
        for s in stores:
            nm = s.targets[0].attr
            stored[nm] = s
            inside = any(any(x is s for x in ast.walk(ast.Module(body=t.body, type_ignores=[]))) for t in wraps)
            rep.check("B-R2", f"{clsname}.__init__:{nm}:inside-wrapping-try", inside, f"self.{nm} is assigned outside the try that converts ValueError into OFXHeaderError: an invalid {nm.upper()} escapes as a different exception" if not inside else "", hloc(p, s))
            rep.check("B-R2", f"{clsname}.__init__:{nm}:has-validator", nm in vals, f"self.{nm} has no class-level validator: any value is accepted" if nm not in vals else "", hloc(p, s))
            sval_ = s.value
            try:
                sval_ = Expander(ifn).x(s.value)  # temporaries (`n = version if version else 102; self.version = int(n)`)
            except Exception:
                pass
            names = {x.id for x in ast.walk(sval_) if isinstance(x, ast.Name)}
            ok = nm in names and not (names & (set(pnames) - {nm}))
            rep.check("B-R2", f"{clsname}.__init__:{nm}:from-own-parameter", ok, f"self.{nm} is computed from {sorted(names & set(pnames))}" if not ok else "", hloc(p, s))
            # ... and is validated as given: a text normalised first (case-folded, stripped, padded) makes tokens
            # outside the domain pass as the valid token they resemble
            norm_calls = [c_ for c_ in ast.walk(s.value) if isinstance(c_, ast.Call) and isinstance(c_.func, ast.Attribute) and c_.func.attr in ("upper", "lower", "casefold", "title", "capitalize", "swapcase", "strip", "lstrip", "rstrip", "replace", "zfill", "translate", "removeprefix", "removesuffix") and any(isinstance(x, ast.Name) and x.id == nm for x in ast.walk(c_.func.value))]
            if ok and not norm_calls:
                # ... nor rewritten by any other function: only int()/str()/a validator's convert() may take the field
                fc_ = _foreign_calls(p, ci, s.value, nm)
                if fc_:
                    rep.check("B-R2", f"{clsname}.__init__:{nm}:validated-as-given", False, f"self.{nm} = {text(s.value)[:60]}: the field passes through {fc_}(...) on its way into the header object, which rewrites values it recognises - the header then reports a {nm.upper()} that is not the one the file carries", hloc(p, s))
                    continue
            if ok:
                rep.check("B-R2", f"{clsname}.__init__:{nm}:validated-as-given", not norm_calls, f"self.{nm} = {text(s.value)[:60]}: the field is normalised with .{norm_calls[0].func.attr}() BEFORE it is validated, so a token outside the domain that differs from a valid one only by that normalisation (e.g. 'none', 'Type1') is accepted and yields a header object" if norm_calls else "", hloc(p, s))
        for prm in pnames_to_check:
            rep.check("B-R2", f"{clsname}.__init__:{prm}:stored", prm in stored, f"parameter {prm} is never stored" if prm not in stored else "", hloc(p, ifn))
        # handlers must not swallow
        for t in trys:
            for h in t.handlers:
                ok = any(isinstance(x, ast.Raise) for x in ast.walk(h))
                rep.check("B-R2", f"{clsname}.__init__:handler-raises", ok, "a validation error is swallowed: an invalid header yields a header object" if not ok else "", hloc(p, h))
        # B-R4
        def args_of(name):
            c = vals.get(name)
            return (schema.type_kinds(c)[0], list(c.args), dict(c.kwargs)) if c is not None else (None, [], {})
        k, a, kw = args_of("ofxheader")
        rep.check("B-R4", f"{clsname}.ofxheader", k == "OneOf" and a == [major * 100], f"OFXHEADER validator is {k}{a}; expected OneOf({major * 100})", hloc(p, ci.node))
        for uid in ("oldfileuid", "newfileuid"):
            k, a, kw = args_of(uid)
            ln = a[0] if a else kw.get("length")
            rep.check("B-R4", f"{clsname}.{uid}", k == "String" and ln == 36, f"{uid.upper()} validator is {k}({ln}); file UIDs are at most 36 characters", hloc(p, ci.node))
        k, a, kw = args_of("version")
        if major == 1:
            ln = a[0] if a else kw.get("length")
            rep.check("B-R4", f"{clsname}.version", k == "Integer" and ln == 3, f"VERSION validator is {k}({ln}); expected a 3-digit integer", hloc(p, ci.node))
        else:
            ok = k == "OneOf" and bool(a) and all(isinstance(x, int) and 200 <= x <= 299 for x in a) and {200, 201, 202, 203, 210, 211, 220} <= set(a)
            rep.check("B-R4", f"{clsname}.version", ok, f"VERSION validator is {k}{a}; expected the supported 2xx versions", hloc(p, ci.node))
        k, a, kw = args_of("security")
        rep.check("B-R4", f"{clsname}.security", k == "OneOf" and set(a) == {"NONE", "TYPE1"}, f"SECURITY validator is {k}{a}", hloc(p, ci.node))
        if major == 1:
            for fname_, exact, atleast in (("data", {"OFXSGML"}, None), ("compression", {"NONE"}, None), ("charset", {"ISO-8859-1", "1252", "NONE"}, None), ("encoding", {"USASCII", "UNICODE", "UTF-8"}, {"USASCII", "UNICODE"})):
                k, a, kw = args_of(fname_)
                if k is None:
                    continue
                toks = set(x for x in a if isinstance(x, str))
                if k != "OneOf" or len(toks) != len(a):
                    rep.check("B-R4", f"{clsname}.{fname_}", False, f"{fname_.upper()} validator is {k}{a}; expected an enumeration of tokens", hloc(p, ci.node))
                    continue
                extra, missing = sorted(toks - exact), sorted((atleast or exact) - toks)
                rep.check("B-R4", f"{clsname}.{fname_}", not extra and not missing, f"{fname_.upper()} admits {sorted(toks)}: " + (f"{extra} are not {fname_.upper()} tokens of OFX 1.x - a header carrying them is accepted instead of refused" if extra else f"the valid tokens {missing} are refused"), hloc(p, ci.node))
        # B-R6 reader covers writer
        for fname, call in vals.items():
            kind = schema.type_kinds(call)[0]
            gname = next((g for g in r.groups if g.lower() == fname), None)
            if gname is None:
                continue
            items, _ = r.find_group(gname)
            cs, unbounded, maxrep = _group_class(items)
            if cs is None:
                raise AnalysisError(f"B-R6: regex group {gname} of {clsname} is not a simple repeated character class")
            if kind == "OneOf":
                bad = [str(t) for t in call.args if not set(str(t)) <= cs]
                rep.check("B-R6", f"{clsname}.regex:{gname}-admits-valid-tokens", not bad, f"valid {fname.upper()} tokens {bad} cannot be matched by the header regex group ({''.join(sorted(cs))[:40]}...)" if bad else "", r.where)
            elif kind == "String":
                alpha = set("ABCDEFGHIJKLMNOPQRSTUVWXYZabcdefghijklmnopqrstuvwxyz0123456789_-")
                miss = sorted(alpha - cs)
                ok = not miss and (unbounded or maxrep >= 36)
                rep.check("B-R6", f"{clsname}.regex:{gname}-admits-uid-alphabet", ok, f"the regex group for {fname.upper()} rejects {miss[:8]} / allows at most {maxrep} characters: a header the library itself generates is refused" if not ok else "", r.where)
            elif kind == "Integer":
                rep.check("B-R6", f"{clsname}.regex:{gname}-admits-digits", set("0123456789") <= cs, "", r.where)
            # a field the constructor passes through int() is numeric only if the PATTERN says so: int() itself
            # accepts '1_02', ' 102', '+102' - whatever else the group lets through is read as a number
            st_ = stored.get(fname) if "stored" in dir() else None
            through_int = st_ is not None and any(isinstance(c_, ast.Call) and isinstance(c_.func, ast.Name) and c_.func.id == "int" for c_ in ast.walk(st_.value))
            if through_int:
                extra = sorted(cs - set("0123456789"))
                rep.check("B-R11", f"{clsname}.regex:{gname}-digits-only", not extra, f"the group for {fname.upper()} also admits {[repr(x) for x in extra[:6]]}...; the constructor converts it with int(), which accepts underscores and signs: a non-numeric {fname.upper()} such as 1_02 yields a header object" if extra else "", r.where)
    # B-R7 / B-R8: what the pattern lets through before any validator sees it
    rep.rule("B-R7", "a missing mandatory field is refused: every named group of a header pattern lies on the pattern's mandatory spine (not under `?`, `*`, `{0,n}` or an alternative) - except COMPRESSION of the v1 header, which the pattern of the pinned tree makes optional and the constructor defaults")
    rep.rule("B-R8", "an over-long last field is refused, not cut: the pattern is applied with match() (no end anchor), so its final consuming item must not have a finite upper bound - a bounded `{1,36}` there stops after 36 characters, hands a valid-looking value to the validator and leaves the rest in front of the message body")
    OPTIONAL_OK = {("OFXHeaderV1", "COMPRESSION")}
    for clsname in ("OFXHeaderV1", "OFXHeaderV2"):
        try:
            r = rx.class_regex(p, HEADER, clsname)
        except AnalysisError as e:
            rep.undecided(f"B-R7 {clsname}", e)
            continue
        for g in r.group_order():
            _items, path = r.find_group(g)
            optional = any((el[0] == "repeat" and el[1] == 0) or el[0] in ("branch", "assert") for el in (path or []))
            if (clsname, g) in OPTIONAL_OK:
                continue
            rep.check("B-R7", f"{clsname}.regex:{g}:mandatory", not optional, f"the {g} field sits in an optional part of the pattern: a header without it is accepted and the constructor silently fills in a default" if optional else "", r.where)
        # the final consuming item
        last = None
        seq = list(r.tree)
        while seq:
            op, av = seq[-1]
            if op is rx.sre_c.SUBPATTERN:
                seq = list(av[3])
                continue
            if op in (rx.sre_c.MAX_REPEAT, rx.sre_c.MIN_REPEAT):
                last = (op, av)
            break
        if last is not None:
            lo, hi, _inner = last[1]
            bounded = hi is not rx.sre_c.MAXREPEAT and hi > 1
            rep.check("B-R8", f"{clsname}.regex:last-item-unbounded", not bounded, f"the pattern ends in a repetition of at most {hi}: applied with match(), an over-long final field is cut to {hi} characters instead of being refused, and the remainder is taken for the start of the message body" if bounded else "", r.where)
    # B-R5 parse
    from .flat import flat as _flat

    base = p.get_class(HEADER, "OFXHeaderBase")
    pfn0 = base.own_func("parse")
    if pfn0 is None:
        raise AnalysisError("OFXHeaderBase.parse not found")
    pfn = _flat(p, HEADER, pfn0, base)
    ex = Expander(pfn)
    cfg = CFG(pfn)
    reach = Reaching(cfg)
    ctor = cfg.nodes_calling(lambda c: isinstance(c.func, ast.Name) and c.func.id == params_of(pfn)[0] and any(k.arg is None for k in c.keywords))
    if not ctor:
        raise AnalysisError("B-R5: parse() does not build cls(**attrs)")
    for n in ctor:
        c = [x for x in n.calls() if isinstance(x.func, ast.Name) and x.func.id == params_of(pfn)[0]][0]
        star = [k.value for k in c.keywords if k.arg is None][0]
        from . import paths as _PT0

        _pp = _PT0.enumerate_paths(pfn, expander=ex)
        _cn = [x for x in _pp.cfg.nodes if any(text(cc) == text(c) for cc in x.calls())]
        vals_ = []
        vasts_ = []
        for _pth in _pp:
            for x in _cn:
                if x.id in _pth.marks:
                    _v = _PT0.value_on_path(_pth, _pp.cfg, star, upto=_pth.nodes.index(x.id))
                    if text(_v) not in vals_:
                        vals_.append(text(_v))
                        vasts_.append(_v)
        verdicts_ = [_captures_map(v) for v in vasts_]
        if vasts_ and all(v is True for v in verdicts_):
            rep.check("B-R5", "parse:passes-captures-unmodified", True, "", hloc(p, c))
        elif any(v is False for v in verdicts_):
            rep.check("B-R5", "parse:passes-captures-unmodified", False, f"the constructor receives {sorted(vals_)}: captured header strings are converted or altered before validation (e.g. int('0') is falsy and would be replaced by the default)", hloc(p, c))
        else:
            rep.note(f"B-R5 undecided: the constructor's keyword mapping is built as {sorted(vals_)[0][:80] if vals_ else None}")
    from .dataflow import writes_in

    starnames = {text(k.value) for n in ctor for c in n.calls() for k in c.keywords if k.arg is None and isinstance(k.value, ast.Name)}
    def _builds_from_groupdict(stmt) -> bool:
        # `<d>.update((k.lower(), v) for k, v in <match>.groupdict().items())` / the dict-comprehension form: the mapping is
        # being BUILT from the captures (keys lower-cased, values as captured), not edited
        c_ = stmt.value if isinstance(stmt, ast.Expr) else None
        if not (isinstance(c_, ast.Call) and isinstance(c_.func, ast.Attribute) and c_.func.attr == "update" and len(c_.args) == 1):
            return False
        g_ = c_.args[0]
        if isinstance(g_, (ast.GeneratorExp, ast.ListComp)) and len(g_.generators) == 1 and isinstance(g_.elt, ast.Tuple) and len(g_.elt.elts) == 2:
            k_, v_ = g_.elt.elts
        elif isinstance(g_, ast.DictComp) and len(g_.generators) == 1:
            k_, v_ = g_.key, g_.value
        else:
            return False
        gen = g_.generators[0]
        if not (text(gen.iter).endswith(".groupdict().items()") and isinstance(gen.target, ast.Tuple) and len(gen.target.elts) == 2 and not gen.ifs):
            return False
        kn, vn = text(gen.target.elts[0]), text(gen.target.elts[1])
        return text(k_) in (kn, f"{kn}.lower()") and text(v_) == vn

    edits = [w for w in writes_in(pfn) if isinstance(w.target, (ast.Subscript, ast.Attribute, ast.Name)) and any(text(w.target).startswith(nm) for nm in starnames) and not _builds_from_groupdict(w.stmt)]
    rep.check("B-R5", "parse:captures-not-edited-in-place", not edits, f"the captured header fields are modified before validation ({[text(w.stmt)[:60] for w in edits]}): e.g. int('000') == 0 is falsy, so the constructor's `or default` replaces an invalid OFXHEADER by the valid default" if edits else "", hloc(p, edits[0].stmt if edits else pfn))
    from . import paths as PT

    ppths = PT.enumerate_paths(pfn, expander=ex)
    pc = ppths.cfg
    ctor2 = pc.nodes_calling(lambda c: isinstance(c.func, ast.Name) and c.func.id == params_of(pfn0)[0] and any(k.arg is None for k in c.keywords))
    matched = [a for a in PT.atoms_of(ppths) if a.endswith(f".search({params_of(pfn0)[1]}))") or a.endswith(f".match({params_of(pfn0)[1]}))") or a.endswith(" is None") and "regex" in a]
    ok = bool(matched) and bool(ctor2)
    if ok:
        for cn in ctor2:
            for pth in ppths:
                cb = pth.conds_before(cn.id)
                if cb is None:
                    continue
                a0 = matched[0]
                goal = PT.atom(a0, False) if a0.endswith(" is None") else PT.atom(a0, True)
                if PT.implies(cb, goal) is False:
                    ok = False
    raises = [pth for pth in ppths if pth.outcome == "raise" and pth.value is not None and "OFXHeaderError" in text(pth.value)]
    ok = ok and bool(raises)
    rep.check("B-R5", "parse:no-match-raises-OFXHeaderError", ok, "a header text that does not match the regex does not raise OFXHeaderError" if not ok else "", hloc(p, pfn))
    m = [s for s in own_statements(pfn) if isinstance(s, ast.Assign) and isinstance(s.value, ast.Call) and isinstance(s.value.func, ast.Attribute) and s.value.func.attr in ("search", "match", "fullmatch")]
    # `if (m := cls.regex.search(raw)) is None:` binds the match as well
    m += [x for x in ast.walk(pfn) if isinstance(x, ast.NamedExpr) and isinstance(x.value, ast.Call) and isinstance(x.value.func, ast.Attribute) and x.value.func.attr in ("search", "match", "fullmatch")]
    ok = bool(m) and all(ex.t(s.value.func.value) == f"{params_of(pfn0)[0]}.regex" and ex.t(s.value.args[0]) == params_of(pfn0)[1] for s in m)
    rep.check("B-R5", "parse:matches-cls.regex", ok, "" if ok else "parse() does not match its argument against cls.regex", hloc(p, pfn))

    rep.rule("B-R3", "make_header routes by int(version) // 100 through {1: OFXHeaderV1, 2: OFXHeaderV2}, turns a non-numeric version and an unsupported major version into OFXHeaderError, and passes version/security/uids to the class")
    mfn0 = p.get_function(HEADER, "make_header").node
    mfn = _flat(p, HEADER, mfn0)
    mparams = params_of(mfn0)
    mx = Expander(mfn)
    mdefs = local_defs(mfn)

    def major_of(e, depth=4):
        """normal form of the routing index: 'int(<x>) // 100' when recognisable"""
        e = mx.x(e)
        if isinstance(e, ast.BinOp) and isinstance(e.op, ast.FloorDiv) and text(e.right) == "100":
            return f"{mx.t(e.left)} // 100"
        if isinstance(e, ast.Subscript) and isinstance(e.value, ast.Call) and text(e.value.func) == "divmod" and text(e.slice) == "0" and len(e.value.args) == 2 and text(e.value.args[1]) == "100":
            return f"{mx.t(e.value.args[0])} // 100"
        if isinstance(e, ast.Name) and depth > 0:
            for d in mdefs.get(e.id, []):
                if d.kind == "unpack" and d.index == 0 and isinstance(d.value, ast.Call) and text(d.value.func) == "divmod" and len(d.value.args) == 2 and text(d.value.args[1]) == "100":
                    return f"{mx.t(d.value.args[0])} // 100"
        return None

    ok = None
    routed_names = set()
    for sub in [x for x in ast.walk(mfn) if isinstance(x, ast.Subscript) and isinstance(x.ctx, ast.Load)]:
        d = mx.x(sub.value)
        if isinstance(d, ast.Dict):
            mp = {k.value: text(v) for k, v in zip(d.keys, d.values) if isinstance(k, ast.Constant)}
            if set(mp.values()) == {"OFXHeaderV1", "OFXHeaderV2"}:
                mj = major_of(sub.slice)
                lead = any(isinstance(x, ast.Subscript) and text(x.slice) == "0" and isinstance(x.value, ast.Call) and text(x.value.func) == "str" for x in ast.walk(mx.x(sub.slice)))
                if mj is None and lead:
                    ok = False
                    rep.check("B-R3", "make_header:routing-table", False, f"versions are routed by their LEADING DIGIT ({mx.t(sub.slice)[:60]}), not by int(version) // 100: 1 and 10..19 are taken for version 1xx and get a header instead of being refused", hloc(p, mfn))
                    ok = "reported"
                elif mj is None:
                    rep.note(f"B-R3 undecided: routing index {mx.t(sub.slice)[:60]} not recognised")
                    ok = None
                else:
                    ok = mp == {1: "OFXHeaderV1", 2: "OFXHeaderV2"} and mj == f"int({mparams[0]}) // 100"
                par_ = parent(sub)
                if isinstance(par_, (ast.Assign, ast.AnnAssign)):
                    t_ = par_.targets[0] if isinstance(par_, ast.Assign) else par_.target
                    if isinstance(t_, ast.Name):
                        routed_names.add(t_.id)
                if isinstance(par_, ast.Call) and par_.func is sub:
                    routed_names.add("<direct>")
    if ok == "reported":
        pass
    elif ok is not None:
        rep.check("B-R3", "make_header:routing-table", ok, "versions are not routed {1: OFXHeaderV1, 2: OFXHeaderV2}[int(version) // 100]" if not ok else "", hloc(p, mfn))
    elif not routed_names:
        rep.note("B-R3 undecided: no {1: OFXHeaderV1, 2: OFXHeaderV2} routing table found in make_header")
    for exc in ("ValueError", "KeyError"):
        hs = [h for t in own_statements(mfn) if isinstance(t, ast.Try) for h in t.handlers if h.type is not None and exc in text(h.type)]
        ok = bool(hs) and all(any(isinstance(x, ast.Raise) and x.exc is not None and "OFXHeaderError" in text(x.exc) for x in ast.walk(h)) for h in hs)
        rep.check("B-R3", f"make_header:{exc}->OFXHeaderError", ok, f"{exc} (non-numeric / unsupported version) is not turned into OFXHeaderError" if not ok else "", hloc(p, mfn))
    calls = [c for c in ast.walk(mfn) if isinstance(c, ast.Call) and ((isinstance(c.func, ast.Name) and (isinstance(mx.x(c.func), ast.Subscript) or c.func.id in routed_names)) or isinstance(c.func, ast.Subscript))]
    if not calls:
        rep.note("B-R3 undecided: the call of the routed header class was not found")
        return
    ok = bool(calls) and all(c.args and mx.t(c.args[0]) == mparams[0] and {k.arg: mx.t(k.value) for k in c.keywords} == {q: q for q in mparams[1:]} for c in calls)
    rep.check("B-R3", "make_header:passes-arguments", ok, "" if ok else "make_header does not pass version, security, oldfileuid, newfileuid through under their own names", hloc(p, mfn))


def _group_class(items):
    """(charset, unbounded?, max repeat) of a group that is `[class]+`, `[class]{m,n}` or `\\d+`"""
    it = list(items)
    if len(it) != 1:
        return None, False, 0
    op, av = it[0]
    if op in (rx.sre_c.MAX_REPEAT, rx.sre_c.MIN_REPEAT):
        lo, hi, inner = av
        inner = list(inner)
        if len(inner) != 1:
            return None, False, 0
        cs = rx.charset([inner[0]]) if inner[0][0] is not rx.sre_c.IN else rx.charset(inner[0][1])
        return cs, hi is rx.sre_c.MAXREPEAT, (10**9 if hi is rx.sre_c.MAXREPEAT else hi)
    return None, False, 0


# --------------------------------------------------------------------------
SINGLE_BYTE = {"ascii", "latin_1", "latin-1", "latin1", "iso-8859-1", "iso8859-1", "cp1252"}


def h_r1(p: Project, rep: Report):
    rep.rule("H-R1", "v1 (helpers inlined, names by role): the source is repositioned to <position before the first header line> + <match end of OFXHeaderV1.parse(R)>, where R is exactly the concatenation of what was read from the source since that position, each chunk decoded with a single-byte codec: nothing inserted, stripped or skipped; the body is the rest of the stream decoded with header.codec, only surrounding whitespace stripped")
    global _FOLD_P
    _FOLD_P = p
    fn0 = p.get_function(HEADER, "parse_header").node
    fn = _flat2(p, HEADER, fn0)
    src = params_of(fn0)[0]
    cfg = CFG(fn)
    reach = Reaching(cfg)
    defs = local_defs(fn)
    seeks = [(n, c) for n in cfg.nodes for c in n.calls() if isinstance(c.func, ast.Attribute) and c.func.attr == "seek" and text(c.func.value) == src and c.args and not (isinstance(c.args[0], ast.Constant) and c.args[0].value == 0)]
    if not seeks:
        raise AnalysisError("H-R1: v1 seek(<start> + <offset>) not found")
    hx = Expander(fn)
    for n, c in seeks:
        arg = c.args[0]
        if isinstance(arg, ast.Name):
            # a named temporary for the position: look through one plain assignment
            ads = [d for d in defs.get(arg.id, []) if d.kind == "assign" and isinstance(d.value, ast.AST)]
            if len(ads) == 1 and len(defs.get(arg.id, [])) == 1 and isinstance(ads[0].value, ast.BinOp):
                arg = ads[0].value
        names = [x for x in (arg.left, arg.right)] if isinstance(arg, ast.BinOp) and isinstance(arg.op, ast.Add) else []
        # relative form: seek(<match end> - len(<R>), SEEK_CUR) backs up from the current position; equivalent to the
        # absolute form exactly when R has one character per byte consumed since the header began
        whence = c.args[1] if len(c.args) > 1 else next((k.value for k in c.keywords if k.arg == "whence"), None)
        relative = whence is not None and (text(whence) in ("1", "os.SEEK_CUR", "io.SEEK_CUR", "SEEK_CUR"))
        rel_len_of = None
        if relative and isinstance(arg, ast.BinOp) and isinstance(arg.op, ast.Sub) and isinstance(arg.right, ast.Call) and text(arg.right.func) == "len" and len(arg.right.args) == 1:
            names = [arg.left]
            rel_len_of = arg.right.args[0]
        elif relative:
            rep.note(f"H-R1 undecided: the source is repositioned relatively by {text(arg)[:60]}")
            continue
        if not names and not isinstance(arg, (ast.Name, ast.Constant)):
            rep.note(f"H-R1 undecided: the source is repositioned to {text(arg)[:60]}")
            continue
        start_n = off_n = None
        for x in names:
            if isinstance(x, ast.Name):
                ds = defs.get(x.id, [])
                if any(d.kind == "assign" and isinstance(d.value, ast.AST) and text(d.value) == f"{src}.tell()" for d in ds):
                    start_n = x.id
                elif any(d.kind == "unpack" and d.index == 1 and isinstance(d.value, ast.Call) and text(d.value.func) == "OFXHeaderV1.parse" for d in ds):
                    off_n = x.id
        # start position derived as `<src>.tell() - len(<something>)`: right only if <something> is the bytes as read;
        # the decoded line encoded AGAIN is not - the read-ahead decoder replaces each undefined byte by U+FFFD, which
        # encodes to three bytes, so every non-ASCII byte on the line moves the position two bytes too far back
        reenc = None
        for x in names:
            if isinstance(x, ast.Name):
                for d in defs.get(x.id, []):
                    v_ = d.value if d.kind == "assign" and isinstance(d.value, ast.AST) else None
                    if isinstance(v_, ast.BinOp) and isinstance(v_.op, ast.Sub) and text(v_.left) == f"{src}.tell()" and isinstance(v_.right, ast.Call) and text(v_.right.func) == "len" and len(v_.right.args) == 1:
                        e_ = hx.x(v_.right.args[0])
                        if isinstance(e_, ast.Call) and isinstance(e_.func, ast.Attribute) and e_.func.attr == "encode":
                            inner = decode_info(hx.x(e_.func.value), src)
                            enc_args = [a.value for a in e_.args if isinstance(a, ast.Constant)]
                            same_codec = inner is not None and enc_args[:1] == [inner[1]]
                            lossless = inner is not None and inner[1] in ("latin-1", "latin1", "iso-8859-1", "iso8859-1", "cp437") and same_codec
                            if inner is not None and not lossless:
                                reenc = (d, text(v_), inner)
        if reenc is not None:
            rep.check("H-R1", "parse_header:header_start-from-bytes-read", False, f"the start position is computed as {reenc[1]}: the line was decoded with {reenc[2][1]}/{reenc[2][2]} and is measured after encoding it again - a byte the codec does not define comes back as U+FFFD (three bytes in UTF-8), so for a header line that runs on into a non-ASCII body (fields separated by a bare CR or by nothing) the position is too small and the body starts with the tail of the header", hloc(p, reenc[0].stmt))
            continue
        if rel_len_of is None and off_n is not None and start_n is None and any(isinstance(x, ast.Name) and any(d.kind == "unpack" or (d.kind == "assign" and isinstance(d.value, ast.Call) and "tell" not in text(d.value)) for d in defs.get(x.id, [])) for x in names):
            raise AnalysisError("H-R1: the start position is computed by a helper that could not be inlined")
        if rel_len_of is not None and off_n is not None:
            pd_ = [d for d in defs[off_n] if d.kind == "unpack"][0]
            if text(pd_.value.args[0]) == text(rel_len_of):
                start_n = "<current position - len(R)>"
            else:
                rep.check("H-R1", "parse_header:seek(header_start+offset)", False, f"the source is moved back by len({text(rel_len_of)}), which is not the text the header was matched in ({text(pd_.value.args[0])})", hloc(p, c))
                continue
        ok = start_n is not None and off_n is not None
        rep.check("H-R1", "parse_header:seek(header_start+offset)", ok, f"the source is repositioned to {text(arg)}; expected <position before the first header line> + <match end of OFXHeaderV1.parse(raw header)>" if not ok else "", hloc(p, c))
        if not ok:
            continue
        # R: the argument of OFXHeaderV1.parse
        pd = [d for d in defs[off_n] if d.kind == "unpack"][0]
        R = pd.value.args[0]
        R_defs = defs.get(R.id, []) if isinstance(R, ast.Name) else []
        if isinstance(R, ast.Name) and any(d.kind == "augassign" for d in R_defs):
            for d in R_defs:
                if d.kind == "assign":
                    vals = [text(hx.x(v)) for v in resolve_values(d.value, cfg.node_of(d.stmt), reach)]
                    good = bool(vals) and all(_is_chunk(v, src) for v in vals)
                    rep.check("H-R1", "parse_header:rawheader-starts-with-first-line-as-read", good, f"the raw header starts as {vals}: it differs from the bytes consumed since the start position (inserted, stripped or re-encoded characters shift the seek offset)" if not good else "", hloc(p, d.stmt))
                elif d.kind == "augassign":
                    v = text(hx.x(d.stmt.value))  # bytes bound to a local first: `raw = src.readline(); R += raw.decode(..)`
                    good = isinstance(d.stmt.op, ast.Add) and _is_chunk(v, src)
                    rep.check("H-R1", "parse_header:rawheader-extended-with-lines-as-read", good, f"the raw header is extended with {v}" if not good else "", hloc(p, d.stmt))
                    # ... and with EVERY line read: the read and the append are not separated by an exit from the iteration,
                    # and the append is not conditional - a line consumed from the source but left out of R (one that
                    # already holds the first body tag, say) takes the last header field with it
                    lp_ = parent(d.stmt)
                    cond_ = None
                    while lp_ is not None and not isinstance(lp_, (ast.For, ast.While, ast.FunctionDef)):
                        if isinstance(lp_, ast.If):
                            cond_ = lp_
                        lp_ = parent(lp_)
                    if isinstance(lp_, (ast.For, ast.While)):
                        reads_ = [st_ for st_ in lp_.body if any(isinstance(c_, ast.Call) and isinstance(c_.func, ast.Attribute) and c_.func.attr in ("readline", "read") and text(c_.func.value) == src for c_ in ast.walk(st_))]
                        dropped = None
                        if cond_ is not None and reads_ and not any(z is d.stmt for z in ast.walk(reads_[0])):
                            dropped = f"the append is conditional on `{text(cond_.test)[:40]}`"
                        if reads_ and d.stmt in lp_.body and reads_[0] in lp_.body:
                            i0, i1 = lp_.body.index(reads_[0]), lp_.body.index(d.stmt)
                            for st_ in lp_.body[i0:i1]:
                                for z in ast.walk(st_):
                                    if isinstance(z, (ast.Break, ast.Continue, ast.Return)):
                                        dropped = f"`{type(z).__name__.lower()}` at line {z.lineno} leaves the iteration after the line was read and before it is appended"
                        rep.check("H-R1", "parse_header:every-line-read-is-in-the-raw-header", dropped is None, f"{dropped}: a line consumed from the source is missing from the text the header is matched in - with the body glued to the last header field (NEWFILEUID:NONE<OFX>) that field is lost and a tolerated layout is refused" if dropped else "", hloc(p, d.stmt))
                else:
                    raise AnalysisError(f"H-R1: raw header bound by {d.kind}")
        else:
            r_ = _chunks_only(R, src, hx)
            if r_ is None:
                rep.note(f"H-R1 undecided: raw header built as {hx.t(R)[:80]}")
            else:
                rep.check("H-R1", "parse_header:rawheader-starts-with-first-line-as-read", r_, f"the raw header is {hx.t(R)[:80]}: it differs from the bytes consumed since the start position (inserted, stripped or re-encoded characters shift the seek offset)" if not r_ else "", hloc(p, c))
        if rel_len_of is not None:
            continue
        # the start position is taken immediately before the first line is read
        hs = [d.stmt for d in defs.get(start_n, []) if d.kind == "assign"]
        good = bool(hs)
        for st in hs:
            body = parent(st).body if hasattr(parent(st), "body") else []
            k = body.index(st) if st in body else -1
            nxt = body[k + 1] if 0 <= k < len(body) - 1 else None
            nv = getattr(nxt, "value", None) if isinstance(nxt, (ast.Assign, ast.AnnAssign)) else None
            good = good and nv is not None and (_is_chunk(text(nv), src) or text(nv) in (f"{src}.readline()", f"{src}.read()"))
        rep.check("H-R1", "parse_header:header_start-just-before-first-read", good, "" if good else "the start position is not the stream position immediately before the first header line is read (or that line is altered as it is read)", hloc(p, fn0))
    # once the source is positioned at the body, the next thing read from it is the body, whole: nothing reads (peeks for a
    # log line, sniffs a byte-order mark) in between without putting the position back
    for n_, c_ in seeks:
        later = sorted((x for x in ast.walk(fn) if isinstance(x, ast.Call) and isinstance(x.func, ast.Attribute) and text(x.func.value) == src and x.func.attr in ("read", "readline", "readlines", "readinto", "read1", "peek") and x.lineno >= c_.lineno and x is not c_), key=lambda x: (x.lineno, x.col_offset))
        if not later:
            continue
        first_ = later[0]
        whole = first_.func.attr == "read" and not first_.args and not first_.keywords
        rep.check("H-R1", "parse_header:body-read-first-after-the-seek", whole, f"after the source is positioned at the body, `{text(first_)[:40]}` (line {first_.lineno}) consumes part of it before the body is read: the body handed over starts that many bytes late (a peek for a debug line under isEnabledFor(DEBUG) does this only when that logger is on)" if not whole else "", hloc(p, first_))
    # what is read ahead may run on into the body (fields separated by a bare CR or by nothing put the whole file on
    # the first "line"; a header without blank line is followed by body text within the fixed number of lines): it
    # is decoded before the header's CHARSET is known, so the decoder must accept every byte
    nread = 0
    for x in ast.walk(fn):
        info = decode_info(x, src) if isinstance(x, ast.Call) else None
        if info is None:
            continue
        nread += 1
        meth, codec, errors = info
        total = codec in LATIN1 or errors in ("replace", "surrogateescape", "ignore", "backslashreplace")
        rep.check("H-R1", f"parse_header:read-ahead-accepts-every-byte[{meth}#{nread}]", total, f"{text(x)} raises UnicodeDecodeError on any byte the codec does not define, and what is read here is not only the header: with CR-only or no line separators, without a blank line after the header, or with a one-line version-2 file, body text in the declared character set (ISO-8859-1, Windows-1252, UTF-8) is read by this call, so a valid file is refused before its header is even parsed" if not total else "", hloc(p, x))
    if nread == 0:
        rep.note("H-R1 undecided: no read-ahead decode with a constant codec found")
    pfn0 = p.get_class(HEADER, "OFXHeaderBase").own_func("parse")
    pfn = _flat2(p, HEADER, pfn0, p.get_class(HEADER, "OFXHeaderBase"))
    rps_, _x = _rp(pfn, expander=Expander(pfn))
    ok = bool(rps_) and all(rt.endswith(".end())") for _p, rt, _s in rps_)
    if not ok and rps_:
        # the end of the match spelled through span(): `_, end = m.span(); return header, end` / `m.span()[1]`
        ok = True
        for _p, rt, _s in rps_:
            if rt.endswith(".end())") or rt.endswith(".span()[1])"):
                continue
            try:
                v_ = ast.parse(rt, mode="eval").body
            except SyntaxError:
                ok = False
                continue
            last = v_.elts[-1] if isinstance(v_, ast.Tuple) and v_.elts else None
            good = False
            if isinstance(last, ast.Name):
                for st_ in ast.walk(pfn):
                    if isinstance(st_, ast.Assign) and len(st_.targets) == 1 and isinstance(st_.targets[0], ast.Tuple) and len(st_.targets[0].elts) == 2 and isinstance(st_.targets[0].elts[1], ast.Name) and st_.targets[0].elts[1].id == last.id and text(st_.value).endswith(".span()"):
                        good = True
            ok = ok and good
    rep.check("H-R1", "parse:returns-match-end", ok, "" if ok else "parse() does not return the end of the header match", hloc(p, pfn0))
    # body: rest of the stream decoded with the header's codec
    reads = [x for x in ast.walk(fn) if isinstance(x, ast.Call) and text(x.func) == f"{src}.read().decode" and x.args and "OFXHeaderV2" not in text(x.args[0])]
    for x in reads:
        codec = text(x.args[0])
        ok = codec.endswith(".codec") and not codec.startswith("OFXHeaderV")
        rep.check("H-R1", "parse_header:v1-body", ok, f"the v1 body is decoded with {codec}, not with the codec of the parsed header" if not ok else "", hloc(p, x))
        par = parent(x)
        if isinstance(par, ast.Attribute) and par.attr in ("strip", "lstrip", "rstrip"):
            call = parent(par)
            ok = isinstance(call, ast.Call) and not call.args and par.attr == "strip"
            rep.check("H-R1", "parse_header:v1-body-strip", ok, f"the body is stripped with {text(call)[-30:]}: characters other than surrounding whitespace are removed" if not ok else "", hloc(p, x))
    # path by path: a v1 return repositions the source before it reads the body, and hands the decoded rest over
    # untouched (only surrounding whitespace stripped)
    import re as _re
    from . import paths as _PT

    try:
        ppl = _PT.enumerate_paths(fn, None, Expander(fn), resolve=False)
    except AnalysisError as e:
        rep.note(f"H-R1 undecided: {e}")
        ppl = None
    if ppl is not None:
        pcfg = ppl.cfg
        v1parse = [n.id for n in pcfg.nodes if n.stmt is not None and n.kind not in ("join", "handlers") and any(text(c.func) == "OFXHeaderV1.parse" for c in n.calls())]
        seek_ids = [n.id for n in pcfg.nodes if n.stmt is not None and n.kind not in ("join", "handlers") and any(isinstance(c.func, ast.Attribute) and c.func.attr == "seek" and text(c.func.value) == src and c.args and not (isinstance(c.args[0], ast.Constant) and c.args[0].value == 0) for c in n.calls())]
        read_ids = [n.id for n in pcfg.nodes if n.stmt is not None and n.kind not in ("join", "handlers") and any(text(c.func) == f"{src}.read" for c in n.calls())]
        skipped = altered = wrong_codec = None
        seen_v1 = 0
        # on EVERY returning path (v1 and v2) the decoded text is handed over as decoded: wrapped in nothing but a
        # whitespace strip - a function applied to it (normalize, translate, sub, expandtabs ...) rewrites the body
        rewritten = None
        nret = 0
        for q in ppl:
            if q.outcome != "return" or not (isinstance(q.value, ast.Tuple) and len(q.value.elts) == 2):
                continue
            nret += 1
            e_ = _PT.value_on_path(q, pcfg, q.value.elts[1], upto=len(q.nodes) - 1)
            while isinstance(e_, ast.Call) and isinstance(e_.func, ast.Attribute) and e_.func.attr in ("strip", "lstrip", "rstrip") and not e_.args:
                e_ = e_.func.value
            if isinstance(e_, ast.Call) and not (isinstance(e_.func, ast.Attribute) and e_.func.attr in ("decode", "read", "getvalue")):
                inner = [a_ for a_ in list(e_.args) + [k_.value for k_ in e_.keywords] if f"{src}.read(" in text(a_) or ".decode(" in text(a_)]
                if inner:
                    rewritten = (text(e_.func), _PT.simple_conds(q.conds))
            # ... nor cut short: a slice of the decoded text with an UPPER bound (`message[: message.find("</OFX>") + 6]`)
            # drops whatever follows - stray text that has to be refused, or the rest of a document in which an
            # unknown aggregate happens to embed the same end tag
            if isinstance(e_, ast.Subscript) and isinstance(e_.slice, ast.Slice) and e_.slice.upper is not None and (".decode(" in text(e_.value) or f"{src}.read(" in text(e_.value)):
                up_ = e_.slice.upper
                if not (isinstance(up_, ast.Call) and text(up_.func) == "len"):
                    rewritten = (f"a slice ending at {text(up_)[:40]}", _PT.simple_conds(q.conds))
        if nret:
            rep.check("H-R1", "parse_header:body-not-rewritten", rewritten is None, f"the decoded body is passed through {rewritten[0]} before it is returned (taken when {rewritten[1]}): the parser is handed text that is not what the file holds" if rewritten else "", hloc(p, fn0))
        for q in ppl:
            if q.outcome != "return" or not any(i in q.nodes for i in v1parse):
                continue
            seen_v1 += 1
            pidx = min(q.nodes.index(i) for i in v1parse if i in q.nodes)
            ridx = [q.nodes.index(i) for i in read_ids if i in q.nodes and q.nodes.index(i) > pidx]
            if ridx and not any(i in q.nodes and pidx < q.nodes.index(i) < ridx[0] for i in seek_ids):
                skipped = _PT.simple_conds(q.conds)
            v = q.value
            if isinstance(v, ast.Tuple) and len(v.elts) == 2:
                body_t = text(_PT.value_on_path(q, pcfg, v.elts[1], upto=len(q.nodes) - 1))
                m_codec = _re.fullmatch(_re.escape(src) + r"\.read\(\)\.decode\(([\w.]+\.codec)\)(\.strip\(\))?", body_t)
                m_fixed = _re.fullmatch(_re.escape(src) + r"\.read\(\)\.decode\((['\"][\w-]+['\"])\)(\.strip\(\))?", body_t)
                if m_codec and not m_codec.group(1).startswith("OFXHeaderV"):
                    pass
                elif m_codec or m_fixed:
                    wrong_codec = (m_codec or m_fixed).group(1)
                elif "TextIOWrapper(" in body_t:
                    if _re.search(r"TextIOWrapper\([^)]*newline=''", body_t):
                        pass
                    else:
                        altered = body_t + "  [a text wrapper in universal-newlines mode rewrites every \\r\\n and lone \\r of the body to \\n]"
                elif _re.match(r"^(\w+)\.decode\(", body_t) and _bytes_local_from_read(fn, _re.match(r"^(\w+)\.decode\(", body_t).group(1), src):
                    altered = body_t + f"  [{_bytes_local_from_read(fn, _re.match(r'^(\w+)', body_t).group(1), src)}: the bytes read are cut or rewritten before they are decoded, so part of the file never reaches the parser]"
                elif f"{src}.read()" in body_t and ".decode(" in body_t and f"{src}.read().decode(" not in body_t and "TextIOWrapper(" not in body_t:
                    # something stands between reading the remainder and decoding it: the BYTES are cut or rewritten
                    altered = body_t + "  [the bytes read are processed before they are decoded: whatever that step removes never reaches the parser]"
                elif f"{src}.read().decode(" in body_t and (_re.search(r"\)\[[^\]]*:[^\]]*\]", body_t) or ".rfind(" in body_t or ".find(" in body_t or ".replace(" in body_t or ".split(" in body_t or ".partition(" in body_t or ".rpartition(" in body_t):
                    altered = body_t
                else:
                    rep.note(f"H-R1 undecided: v1 body returned as {body_t[:100]}")
        if seen_v1:
            rep.check("H-R1", "parse_header:v1-repositions-on-every-path", skipped is None, f"a version-1 path reads the body without repositioning the source first (taken when {skipped}): the lines read ahead for the header are lost from the body" if skipped is not None else "", hloc(p, fn0))
            rep.check("H-R1", "parse_header:v1-body-decoded-as-declared", wrong_codec is None, f"on a version-1 path the body is decoded with {wrong_codec}, whatever CHARSET the header declares: text in ISO-8859-1 / Windows-1252 whose bytes happen to be decodable that way reaches the parser as other characters" if wrong_codec is not None else "", hloc(p, fn0))
            rep.check("H-R1", "parse_header:v1-body-handed-over-whole", altered is None, f"the version-1 body is returned as {altered[:110] if altered else ''}: part of the decoded remainder is cut or rewritten before the parser sees it (text after the last end tag would no longer be refused)" if altered is not None else "", hloc(p, fn0))
    strips = [c_ for c_ in ast.walk(fn) if isinstance(c_, ast.Call) and isinstance(c_.func, ast.Attribute) and c_.func.attr in ("strip", "lstrip", "rstrip") and c_.args]
    for c_ in strips:
        rep.check("H-R1", "parse_header:strip-with-characters", False, f"{text(c_)[:60]} removes characters other than whitespace", hloc(p, c_))


def _bytes_local_from_read(fn, name: str, src: str):
    """how the local `name` is bound when it is cut out of `<src>.read()` (unpacking / subscript / method of the bytes
    read) - text of the binding, or None when it is not derived that way"""
    for st in ast.walk(fn):
        if not isinstance(st, ast.Assign) or len(st.targets) != 1:
            continue
        tg = st.targets[0]
        names = [x.id for x in ast.walk(tg) if isinstance(x, ast.Name)]
        if name not in names:
            continue
        v = st.value
        if f"{src}.read()" not in text(v):
            continue
        if isinstance(tg, (ast.Tuple, ast.List)) or text(v) != f"{src}.read()":
            return text(st)[:70]
    return None


def h_r2(p: Project, rep: Report):
    fn = p.get_function(HEADER, "parse_header").node
    src = params_of(fn)[0]
    cfg = CFG(fn)
    reach = Reaching(cfg)
    rep.rule("H-R2", "the body is decoded with the codec the parsed header names: OFXHeaderV1.codec returns codecs[charset] on every path, the CHARSET -> codec table maps ISO-8859-1, 1252 and NONE to latin-1, cp1252 and utf-8 (normalised through codecs.lookup), charset admits exactly the table's keys; v2 uses OFXHeaderV2.codec = utf-8")
    schema = Schema(p)
    v1 = p.get_class(HEADER, "OFXHeaderV1")
    tbl = v1.lookup("codecs")
    want = {"ISO-8859-1": "iso8859-1", "1252": "cp1252", "NONE": "utf-8"}
    got = {}
    if isinstance(tbl, dict):
        for k, v in tbl.items():
            try:
                got[k] = _codecs.lookup(v).name
            except Exception:
                got[k] = f"<unknown codec {v}>"
    rep.check("H-R2", "OFXHeaderV1.codecs", got == want, f"CHARSET -> codec table resolves to {got}; expected {want}: bodies are decoded with the wrong character set", hloc(p, v1.node))
    cfn = v1.own_func("codec")
    rps_c, _y = _rp(_flat2(p, HEADER, cfn, v1), expander=Expander(cfn)) if cfn else ([], None)
    got_c = sorted({rt for _p, rt, _s in rps_c})
    ok = got_c == ["self.codecs[self.charset]"]
    rep.check("H-R2", "OFXHeaderV1.codec", ok, f"codec returns {got_c}: not (only) the table entry for the declared CHARSET" if not ok else "", hloc(p, cfn or v1.node))
    ch = _validators(p, schema, v1).get("charset")
    ok = ch is not None and isinstance(tbl, dict) and list(ch.args) == list(tbl.keys())
    rep.check("H-R2", "OFXHeaderV1.charset", ok, "CHARSET validator and codec table disagree" if not ok else "", hloc(p, v1.node))
    v2 = p.get_class(HEADER, "OFXHeaderV2")
    c2 = v2.lookup("codec")
    ok = isinstance(c2, str) and _codecs.lookup(c2).name == "utf-8"
    rep.check("H-R2", "OFXHeaderV2.codec", ok, f"OFXHeaderV2.codec is {c2!r}", hloc(p, v2.node))



def h_r3(p: Project, rep: Report):
    rep.rule("H-R3", "v2 (helpers inlined, names by role): the whole source is re-read from the start, decoded with OFXHeaderV2.codec, searched by OFXHeaderV2.parse and the body is the slice of that same string from the match end; v1/v2 is decided by XML_REGEX.match on the first non-blank line")
    fn0 = p.get_function(HEADER, "parse_header").node
    fn = _flat2(p, HEADER, fn0)
    src = params_of(fn0)[0]
    ex = Expander(fn)
    stmts = own_statements(fn)
    # role: decoded source = <name> assigned <src>.read().decode(<codec>) that is then handed to OFXHeaderV2.parse
    parses = [s_ for s_ in stmts if isinstance(s_, ast.Assign) and isinstance(s_.value, ast.Call) and text(s_.value.func) == "OFXHeaderV2.parse" and s_.value.args]
    if not parses:
        raise AnalysisError("H-R3: no OFXHeaderV2.parse(...) call found in parse_header")
    for ps in parses:
        arg = ps.value.args[0]
        argt = ex.t(arg)
        ok = argt == f"{src}.read().decode(OFXHeaderV2.codec)"
        rep.check("H-R3", "parse_header:v2-decoded-with-header-codec", ok, f"the v2 header is searched in {argt[:70]}; expected the whole source decoded with OFXHeaderV2.codec" if not ok else "", hloc(p, ps))
        # rewind before the read: on every path to this parse, the last thing that moved the source before the
        # whole-file read() is seek(0)
        from . import paths as _PT3

        try:
            vpl = _PT3.enumerate_paths(fn, None, Expander(fn), resolve=False)
        except AnalysisError as e:
            rep.note(f"H-R3 undecided: {e}")
            vpl = None
        if vpl is not None:
            vcfg = vpl.cfg
            pnode = vcfg.node_of(ps)
            rewound, seen_ = True, 0
            for q in vpl:
                pi = q.index_of(pnode.id) if pnode is not None else None
                if pi is None:
                    continue
                moves = []
                for j in range(pi + 1):
                    n_ = vcfg.nodes[q.nodes[j]]
                    if n_.stmt is None or n_.kind in ("join", "handlers"):
                        continue
                    for c_ in n_.calls():
                        if isinstance(c_.func, ast.Attribute) and text(c_.func.value) == src and c_.func.attr in ("seek", "read", "readline", "readlines"):
                            moves.append((j, c_))
                reads_ = [k for k, (j, c_) in enumerate(moves) if c_.func.attr == "read" and not c_.args]
                if not reads_:
                    continue
                seen_ += 1
                k = reads_[-1]
                prev_ = moves[k - 1][1] if k > 0 else None
                if not (prev_ is not None and prev_.func.attr == "seek" and len(prev_.args) == 1 and text(prev_.args[0]) == "0"):
                    rewound = False
            if seen_:
                rep.check("H-R3", "parse_header:v2-rewinds", rewound, "" if rewound else "the source is not rewound to its start (seek(0)) immediately before it is re-read as a whole", hloc(p, ps))
        # the slice
        tgt = ps.targets[0]
        idx_name = tgt.elts[1].id if isinstance(tgt, ast.Tuple) and len(tgt.elts) == 2 and isinstance(tgt.elts[1], ast.Name) else None
        # x[i:]  /  x[i:len(x)]  /  x[slice(i, None)]: the remainder from the match end
        def _as_slice(x):
            if not isinstance(x, ast.Subscript):
                return None
            if isinstance(x.slice, ast.Slice):
                return x.slice.lower, x.slice.upper, x.slice.step
            if isinstance(x.slice, ast.Name):
                # span = slice(i, None); text[span]
                sv_ = Expander(fn).x(x.slice)
                if isinstance(sv_, ast.Call):
                    x = ast.Subscript(value=x.value, slice=sv_, ctx=ast.Load())
            if isinstance(x.slice, ast.Call) and isinstance(x.slice.func, ast.Name) and x.slice.func.id == "slice" and not x.slice.keywords and 2 <= len(x.slice.args) <= 3:
                a_ = list(x.slice.args) + [None]
                none_ = lambda e_: None if (isinstance(e_, ast.Constant) and e_.value is None) else e_
                return a_[0], none_(a_[1]), none_(a_[2])
            return None

        slices = [x for x in ast.walk(fn) if _as_slice(x) is not None and isinstance(_as_slice(x)[0], ast.Name) and _as_slice(x)[0].id == idx_name]
        if not slices:
            rep.check("H-R3", "parse_header:v2-body-slice", False, "the body is not the slice of the decoded source from the header's match end", hloc(p, ps))
        for sl in slices:
            lo_, up_, st_ = _as_slice(sl)
            whole_tail = up_ is None or (isinstance(up_, ast.Call) and text(up_.func) == "len" and len(up_.args) == 1 and text(up_.args[0]) == text(sl.value))
            ok = text(sl.value) == text(arg) and whole_tail and st_ is None
            rep.check("H-R3", "parse_header:v2-body-slice", ok, f"the body is sliced from {text(sl.value)}, not from the string the header was searched in ({text(arg)})" if not ok else "", hloc(p, sl))
    xm = [c for c in own_nodes(fn) if isinstance(c, ast.Call) and text(c.func) in ("XML_REGEX.match", "XML_REGEX.search")]
    ok = bool(xm) and all(text(c.func) == "XML_REGEX.match" for c in xm)
    rep.check("H-R3", "parse_header:v2-detected-by-xml-declaration", ok, "" if ok else "v1/v2 is not decided by XML_REGEX.match on the first non-blank line", hloc(p, fn0))


def h_rules(p: Project, rep: Report):
    for f in (h_r1, h_r2, h_r3):
        rep.run(f, p, rep)


_FOLD_P = None  # the project whose module constants decode_info may fold (set by h_r1)
LATIN1 = {"latin_1", "latin-1", "latin1", "iso-8859-1", "iso8859-1", "iso8859_1", "l1", "8859"}
ONE_FOR_ONE_ERRORS = {"strict", "replace", "surrogateescape"}  # handlers that never change the number of characters


def decode_info(e, src: str):
    """(method, codec, errors) when `e` is exactly `<src>.readline()/read().decode(<const codec>[, <const errors>])`,
    else None"""
    if not (isinstance(e, ast.Call) and isinstance(e.func, ast.Attribute) and e.func.attr == "decode"):
        return None
    recv = e.func.value
    if not (isinstance(recv, ast.Call) and isinstance(recv.func, ast.Attribute) and recv.func.attr in ("readline", "read") and text(recv.func.value) == src and not recv.args and not recv.keywords):
        return None
    codec = e.args[0] if e.args else next((k.value for k in e.keywords if k.arg == "encoding"), None)
    errors = e.args[1] if len(e.args) > 1 else next((k.value for k in e.keywords if k.arg == "errors"), None)
    if codec is None or len(e.args) > 2 or any(k.arg not in ("encoding", "errors") for k in e.keywords):
        return None
    from .fold import fold

    # literal, or a module-level string constant
    cv = fold(codec, {}, _FOLD_P, HEADER if _FOLD_P is not None else None)
    ev_ = fold(errors, {}, _FOLD_P, HEADER if _FOLD_P is not None else None) if errors is not None else "strict"
    if not isinstance(cv, str) or not isinstance(ev_, str):
        return None
    return recv.func.attr, cv.lower(), ev_


def _is_chunk(v: str, src: str) -> bool:
    """text of an expression that is exactly one read from the source decoded with a single-byte codec, one
    character per byte (an error handler that drops or expands bytes shifts every later offset)"""
    try:
        e = ast.parse(v, mode="eval").body
    except SyntaxError:
        return False
    info = decode_info(e, src)
    return info is not None and info[1] in SINGLE_BYTE and info[2] in ONE_FOR_ONE_ERRORS


def _chunks_only(e, src: str, ex: Expander, depth=6) -> Optional[bool]:
    """is the expression exactly a concatenation of reads from the source, each decoded with a single-byte codec?
    True / False (something else is mixed in) / None (shape not recognised)"""
    if depth <= 0:
        return None
    e = ex.x(e)
    if _is_chunk(text(e), src):
        return True
    if isinstance(e, ast.BinOp) and isinstance(e.op, ast.Add):
        a, b = _chunks_only(e.left, src, ex, depth - 1), _chunks_only(e.right, src, ex, depth - 1)
        if a is False or b is False:
            return False
        return True if (a and b) else None
    if isinstance(e, (ast.ListComp, ast.GeneratorExp)) and len(e.generators) == 1 and not e.generators[0].ifs:
        return _chunks_only(e.elt, src, ex, depth - 1)
    if isinstance(e, ast.Starred):
        return _chunks_only(e.value, src, ex, depth - 1)
    if isinstance(e, (ast.List, ast.Tuple)):
        rs = [_chunks_only(x, src, ex, depth - 1) for x in e.elts]
        if any(r is False for r in rs):
            return False
        return True if rs and all(rs) else None
    if isinstance(e, ast.Call) and isinstance(e.func, ast.Attribute) and e.func.attr == "join" and isinstance(e.func.value, ast.Constant) and e.func.value.value == "" and len(e.args) == 1:
        return _chunks_only(e.args[0], src, ex, depth - 1)
    if isinstance(e, ast.Constant) and isinstance(e.value, str):
        return True if e.value == "" else False
    if isinstance(e, ast.Call) and isinstance(e.func, ast.Attribute) and e.func.attr in ("strip", "lstrip", "rstrip", "replace", "lower", "upper"):
        return False
    return None


def b_r9_quote_backrefs(p: Project, rep: Report):
    """every back-reference in the XML-declaration pattern closes the quote that was opened for the same attribute"""
    rep.rule("B-R9", "in the XML-declaration pattern every pseudo-attribute is closed by the quote it was opened with: each back-reference refers to the quote group captured immediately before it in the same attribute (a reference to another attribute's quote rejects declarations without that attribute, or with mixed quote characters, so a valid version-2 file is taken for version 1)")
    try:
        r = rx.module_regex(p, HEADER, "XML_REGEX")
    except AnalysisError as e:
        rep.undecided("B-R9", e)
        return
    names = {v: k for k, v in r.groups.items()}
    n = 0

    def walk(seq):
        nonlocal n
        last_quote = None
        for op, av in seq:
            if op is rx.sre_c.SUBPATTERN:
                g, _a, _d, inner = av
                inner_l = list(inner)
                cs = None
                if len(inner_l) == 1 and inner_l[0][0] is rx.sre_c.IN:
                    cs = rx.charset(inner_l[0][1])
                if g in names and cs is not None and cs and cs <= set("\"'"):
                    last_quote = g
                else:
                    walk(inner_l)
            elif op in (rx.sre_c.MAX_REPEAT, rx.sre_c.MIN_REPEAT):
                walk(list(av[2]))
            elif op is rx.sre_c.BRANCH:
                for alt in av[1]:
                    walk(list(alt))
            elif op is rx.sre_c.GROUPREF:
                n += 1
                ok = last_quote is not None and av == last_quote
                rep.check("B-R9", f"XML_REGEX:backref({names.get(av, av)})", ok, f"the closing quote refers to group {names.get(av, av)!r}, but the quote opened for this attribute is {names.get(last_quote, last_quote)!r}" if not ok else "", r.where)

    walk(list(r.tree))
    if n == 0:
        rep.note("B-R9 undecided: XML_REGEX has no back-references")


def b_r14_header_text_built_on_every_call(p: Project, rep: Report):
    """str(header) says what the header's fields are NOW"""
    from .flat import flat
    from .fresh import kept_from_earlier_call

    rep.rule("B-R14", "the header text is built from the fields on every call: no returning path of __str__ (base class and both header classes, helpers inlined) hands back a string the object kept from an earlier call - make_header() formats the header once for its debug log, so a text kept from then would not show a field (UID, SECURITY) assigned afterwards, and parsing the generated text would give other fields than the object's")
    n = 0
    for clsname in ("OFXHeaderBase", "OFXHeaderV1", "OFXHeaderV2"):
        cd = p.module(HEADER).classdef(clsname)
        if cd is None:
            continue
        ci = p.classinfo(HEADER, cd)
        fn0 = ci.own_func("__str__")
        if fn0 is None:
            continue
        n += 1
        try:
            kept = kept_from_earlier_call(p, HEADER, flat(p, HEADER, fn0, ci))
        except AnalysisError as e:
            rep.note(f"B-R14 undecided: {clsname}.__str__ ({e})")
            continue
        rep.check("B-R14", f"{clsname}.__str__:built-on-every-call", kept is None, f"a path returns {kept[:50] if kept else ''}: the text of an earlier call - a field assigned since then is not in it" if kept else "", hloc(p, fn0))
    if n == 0:
        rep.note("B-R14 undecided: no __str__ found on the header classes")


def b_r15_only_header_errors_out_of_parse(p: Project, rep: Report):
    """a header text that is refused is refused with OFXHeaderError"""
    rep.rule("B-R15", "OFXHeaderBase.parse() looks into its match only through groupdict() / end() / group(0) / span(): a lookup by group NAME (start(name), group(name), span(name), match[name]) is made with a constant that is a group of BOTH header patterns, never with a variable - the field names parse() works with are lower-cased, the version-1 pattern's groups are upper case, and re raises IndexError (`no such group`) for a name that is not one: a version-1 header with an out-of-domain field would then fail with IndexError instead of OFXHeaderError")
    cd = p.module(HEADER).classdef("OFXHeaderBase")
    if cd is None:
        raise AnalysisError("OFXHeaderBase not found")
    ci = p.classinfo(HEADER, cd)
    fn = ci.own_func("parse")
    if fn is None:
        raise AnalysisError("OFXHeaderBase.parse not found")
    # names bound to a match object
    matches = {st.targets[0].id for st in ast.walk(fn) if isinstance(st, ast.Assign) and len(st.targets) == 1 and isinstance(st.targets[0], ast.Name) and isinstance(st.value, ast.Call) and isinstance(st.value.func, ast.Attribute) and st.value.func.attr in ("search", "match", "fullmatch")}
    groups = []
    for cname in ("OFXHeaderV1", "OFXHeaderV2"):
        try:
            groups.append(set(rx.class_regex(p, HEADER, cname).groups))
        except Exception:
            groups.append(None)
    n = 0
    for x in ast.walk(fn):
        arg = None
        if isinstance(x, ast.Call) and isinstance(x.func, ast.Attribute) and isinstance(x.func.value, ast.Name) and x.func.value.id in matches and x.func.attr in ("start", "end", "span", "group") and x.args:
            arg = x.args[0]
        elif isinstance(x, ast.Subscript) and isinstance(x.value, ast.Name) and x.value.id in matches:
            arg = x.slice
        if arg is None:
            continue
        n += 1
        if isinstance(arg, ast.Constant) and isinstance(arg.value, int):
            ok, why = True, ""
        elif isinstance(arg, ast.Constant) and isinstance(arg.value, str):
            ok = all(g is not None and arg.value in g for g in groups)
            why = f"'{arg.value}' is not a group of both header patterns"
        elif isinstance(arg, ast.Name) and any(isinstance(g_, (ast.comprehension, ast.For)) and isinstance(g_.target, ast.Name) and g_.target.id == arg.id and (text(g_.iter).endswith(".groupindex") or text(g_.iter).endswith(".groupindex.keys()") or text(g_.iter).endswith(".groupdict()") or text(g_.iter).endswith(".groupdict().keys()")) for g_ in ast.walk(fn)):
            ok, why = True, ""  # the pattern's own group names
        else:
            ok, why = False, f"the group is named by `{text(arg)[:30]}`, a run-time value: for the version-1 pattern (upper-case groups) a lower-cased field name raises IndexError"
        rep.check("B-R15", f"parse:match-lookup:{text(x)[:40]}", ok, f"{text(x)[:50]}: {why} - a header text that should be refused with OFXHeaderError fails with IndexError instead" if not ok else "", hloc(p, x))
    rep.unit("match_lookups_by_group", n)
    rep.check("B-R15", "parse:match-read-through-groupdict", True, "", f"{n} lookups by group in OFXHeaderBase.parse")


def b_r16_optional_header_parts_stay_optional(p: Project, rep: Report):
    """layouts the header patterns tolerate today"""
    rep.rule("B-R16", "the parts of the two header notations that may be absent stay optional in the patterns: in OFXHeaderV1.regex the COMPRESSION field lies inside a group that may match nothing (files without it are read today, with compression NONE); in XML_REGEX each of version / encoding / standalone is optional AND no whitespace is REQUIRED between or after them outside those optional groups (`<?xml version=\"1.0\"?>` and a declaration without standalone are XML declarations) - a pattern generated from a field table, or attributes joined by `\\s+`, that makes one of them mandatory refuses files the property lists as tolerated")
    c = rx.sre_c

    def optional_path(tree, gname, groups):
        """does the named group lie inside a repeat with minimum 0 (or a branch with an empty alternative)?"""
        gid = groups.get(gname)
        if gid is None:
            return None

        def walk(node, under_opt):
            for op_, av_ in node:
                if op_ is c.SUBPATTERN:
                    if av_[0] == gid:
                        return under_opt
                    r = walk(av_[3], under_opt)
                    if r is not None:
                        return r
                elif op_ in (c.MAX_REPEAT, c.MIN_REPEAT):
                    r = walk(av_[2], under_opt or av_[0] == 0)
                    if r is not None:
                        return r
                elif op_ is c.BRANCH:
                    for alt in av_[1]:
                        r = walk(alt, under_opt or any(len(list(a_)) == 0 for a_ in av_[1]))
                        if r is not None:
                            return r
            return None

        return walk(tree, False)

    try:
        r1 = rx.class_regex(p, HEADER, "OFXHeaderV1")
        o1 = optional_path(r1.tree, "COMPRESSION", r1.groups)
        if o1 is None:
            rep.note("B-R16 undecided: no COMPRESSION group in OFXHeaderV1.regex")
        else:
            rep.check("B-R16", "OFXHeaderV1.regex:COMPRESSION-optional", o1, "the COMPRESSION field is mandatory in the version-1 header pattern: a header without it - read today, in every line-break layout, with compression NONE - is refused with OFXHeaderError" if not o1 else "", r1.where)
    except AnalysisError as e:
        rep.note(f"B-R16 undecided: {e}")
    try:
        r2 = rx.module_regex(p, HEADER, "XML_REGEX")
    except Exception as e:
        rep.note(f"B-R16 undecided: XML_REGEX ({e})")
        return
    for g in ("xmlversion", "encoding", "standalone"):
        o = optional_path(r2.tree, g, r2.groups)
        if o is None:
            rep.note(f"B-R16 undecided: no {g} group in XML_REGEX")
        else:
            rep.check("B-R16", f"XML_REGEX:{g}-optional", o, f"the {g} pseudo-attribute is mandatory in the XML-declaration pattern: a declaration without it is not recognised and the version-2 file is sent down the version-1 path" if not o else "", r2.where)

    # whitespace REQUIRED (min >= 1) outside optional groups, after the first pseudo-attribute position
    def required_space(node, depth=0, seen_attr=[False]):
        bad = []
        for op_, av_ in node:
            if op_ is c.SUBPATTERN:
                if av_[0] in (r2.groups.get("xmlversion"), r2.groups.get("encoding"), r2.groups.get("standalone")):
                    seen_attr[0] = True
                bad += required_space(av_[3], depth + 1, seen_attr)
            elif op_ in (c.MAX_REPEAT, c.MIN_REPEAT):
                inner = list(av_[2])
                is_ws = len(inner) == 1 and inner[0][0] is c.IN and (rx.charset(inner[0][1]) or set()) >= {" ", "\n"}
                if av_[0] >= 1 and is_ws and seen_attr[0]:
                    bad.append(av_)
                elif av_[0] >= 1:
                    bad += required_space(av_[2], depth + 1, seen_attr)
                else:
                    # optional group: whatever it requires inside is required only when the group is present
                    had = seen_attr[0]
                    required_space(av_[2], depth + 1, seen_attr)
                    seen_attr[0] = seen_attr[0] or had
            elif op_ is c.BRANCH:
                for alt in av_[1]:
                    bad += required_space(alt, depth + 1, seen_attr)
        return bad

    bad = required_space(r2.tree)
    rep.check("B-R16", "XML_REGEX:no-required-space-between-optional-attributes", not bad, "whitespace is REQUIRED after an optional pseudo-attribute position (outside the optional groups): a declaration that omits the attribute behind it (`<?xml version=\"1.0\"?>`, or one without standalone) no longer matches" if bad else "", r2.where)
