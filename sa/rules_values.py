"""Placement / decode-table rules V-R1..7 (C03)."""
from __future__ import annotations

import ast
from typing import List

from . import dispatch as D
from .cfg import CFG
from .dataflow import Reaching, local_defs, own_nodes, own_statements, params_of, resolve_values
from .match import Expander, norm, text
from .report import Report
from .rules_schema import reducer
from .rules_types import scalar_types, tloc
from .schema import BASE, TYPES, Schema
from .source import AnalysisError, Project, dotted


def _parses(a: str) -> bool:
    try:
        ast.parse(a, mode="eval")
        return True
    except SyntaxError:
        return False


def v_rules(schema: Schema, rep: Report):
    p = schema.p
    rel = p.module(BASE).relpath
    outer, inner, call = reducer(p)
    cfg = CFG(inner)
    reach = Reaching(cfg)
    params = params_of(inner)
    elem = params[1]
    cls = params_of(outer)[0]
    ex = Expander(inner, outer)

    rep.rule("V-R1", "in the reducer the value of a declared child is the element's own text (data element) or Aggregate.from_etree(<that element>) (aggregate), None only for Unsupported children, and it reaches kwargs[<own tag, lower-cased>] / args.append unmodified")
    stores = []
    for n in cfg.nodes:
        st = n.stmt
        if isinstance(st, ast.Assign) and any(isinstance(t, ast.Subscript) for t in st.targets):
            stores.append((n, st.value, "kwargs"))
        for c in n.calls():
            if isinstance(c.func, ast.Attribute) and c.func.attr in ("append", "insert", "extend") and c.args and n.kind not in ("test", "loop"):
                stores.append((n, c.args[-1], f"args.{c.func.attr}"))
    if not stores:
        raise AnalysisError("V-R1: reducer stores nothing")
    good = {f"{elem}.text", f"Aggregate.from_etree({elem})", f"{cls}.from_etree({elem})", "None"}
    # `text or from_etree(elem)`: the text when there is some, the conversion otherwise - both branches in one expression
    either = {f"{elem}.text or Aggregate.from_etree({elem})", f"{elem}.text or {cls}.from_etree({elem})"}
    good |= either
    # decided path by path (so the choice may be spelled as nested ifs, early returns of an inlined helper, a
    # conditional expression): which value reaches the store, and under which conditions
    from . import paths as PT

    try:
        ppl = PT.enumerate_paths(inner, None, ex)
    except AnalysisError as e:
        ppl = None
        rep.note(f"V-R1 undecided: {e}")
    if ppl is not None:
        pcfg = ppl.cfg
        has_text = PT.canon_atom(ast.parse(f"{elem}.text", mode="eval").body)[0]
        for n, v, kind in stores:
            # the same statement in the path CFG
            pn = [x for x in pcfg.nodes if x.stmt is n.stmt and x.kind == n.kind]
            if not pn:
                rep.note(f"V-R1 undecided: store at line {n.stmt.lineno} not found on the enumerated paths")
                continue
            pn = pn[0]
            seen_vals = set()
            bad_text = bad_agg = bad_none = None
            for q in ppl:
                i = q.index_of(pn.id)
                if i is None:
                    continue
                val = PT.value_on_path(q, pcfg, v, upto=i)
                tv = text(val)
                seen_vals.add(tv)
                facts = PT.simple_conds(q.conds_before(pn.id) or [])
                if tv == f"{elem}.text":
                    if facts.get(has_text) is not True:
                        bad_text = facts
                elif tv in (f"Aggregate.from_etree({elem})", f"{cls}.from_etree({elem})"):
                    if facts.get(has_text) is not False:
                        bad_agg = facts
                elif tv == "None":
                    if not any("unsupported" in ex.t(ast.parse(a, mode="eval").body) and w is True for a, w in facts.items() if _parses(a)):
                        bad_none = facts
            vals = sorted(seen_vals)
            ok = bool(vals) and set(vals) <= good and (f"{elem}.text" in vals or bool(set(vals) & either))
            rep.check("V-R1", f"update_args:{kind}:value", ok, f"stored value can be {vals}; expected the element's text / its conversion, unmodified" if not ok else "", f"{rel}:{n.stmt.lineno}")
            if not ok:
                continue
            if f"{elem}.text" in vals:
                rep.check("V-R1", f"update_args:{kind}:text-branch", bad_text is None, f"element text is taken on a path that has not established that the element has text (conditions: {dict(list(bad_text.items())[:4]) if bad_text else ''})" if bad_text is not None else "", f"{rel}:{n.stmt.lineno}")
            if any("from_etree" in x and x not in either for x in vals):
                rep.check("V-R1", f"update_args:{kind}:aggregate-branch", bad_agg is None, "sub-aggregates are converted although the element has text (or unconditionally)" if bad_agg is not None else "", f"{rel}:{n.stmt.lineno}")
            if "None" in vals:
                rep.check("V-R1", f"update_args:{kind}:none-only-for-unsupported", bad_none is None, f"a declared child's value is replaced by None on a path that has not established that the child is Unsupported (conditions: {dict(list(bad_none.items())[:4]) if bad_none else ''})" if bad_none is not None else "", f"{rel}:{n.stmt.lineno}")

    rep.rule("V-R2", "list members keep document order: the reducer appends (never inserts / prepends), functools.reduce folds the children left to right, _apply_args iterates its arguments in order and appends each")
    for n, v, kind in stores:
        if kind.startswith("args."):
            rep.check("V-R2", f"update_args:{kind}", kind == "args.append", f"list members are added with {kind}: document order is not kept" if kind != "args.append" else "", f"{rel}:{n.stmt.lineno}")
    ok = (dotted(call.func) or "").endswith("reduce") and len(call.args) >= 2 and not any(isinstance(x, ast.Call) and (dotted(x.func) or "") in ("reversed", "sorted") for x in ast.walk(call.args[1]))
    rep.check("V-R2", "_convert:folds-left-to-right", ok, "" if ok else "children are not folded in document order", f"{rel}:{call.lineno}")
    for qn in ("Aggregate._apply_args", "ElementList._apply_args"):
        fn = p.get_function(BASE, qn).node
        va = fn.args.vararg.arg if fn.args.vararg else None
        loops = [s for s in own_statements(fn) if isinstance(s, ast.For)]
        def in_order(it):
            # the arguments themselves, or map(f, args) - both walk them left to right
            if text(it) == va or text(it).replace(" ", "") in (f"tuple({va})", f"list({va})", f"{va}[:]", f"iter({va})"):
                return True
            return isinstance(it, ast.Call) and isinstance(it.func, ast.Name) and it.func.id == "map" and len(it.args) == 2 and text(it.args[1]) == va

        ok = bool(loops) and all(in_order(l.iter) for l in loops)
        apps = [c for c in own_nodes(fn) if isinstance(c, ast.Call) and isinstance(c.func, ast.Attribute) and text(c.func.value) == "self" and c.func.attr in ("append", "insert", "extend")]
        ok = ok and bool(apps) and all(c.func.attr == "append" for c in apps)
        rep.check("V-R2", f"{qn}:in-argument-order", ok, "list members are not appended one by one in argument order" if not ok else "", f"{rel}:{fn.lineno}")
        # ... and ALL of them: the arguments are not re-bound to a selection / re-ordering of themselves before the loop
        # (dict.fromkeys / set / sorted / filter / a slice): a list that repeats a token (LANGUAGE ENG, FRA, ENG) loses members
        if va:
            rebound = [s_ for s_ in ast.walk(fn) if isinstance(s_, (ast.Assign, ast.AugAssign, ast.AnnAssign)) and any(isinstance(t_, ast.Name) and t_.id == va for t_ in (s_.targets if isinstance(s_, ast.Assign) else [s_.target])) and text(getattr(s_, "value", None) or ast.Constant(value=None)).replace(" ", "") not in (f"tuple({va})", f"list({va})", f"{va}[:]")]
            rep.check("V-R2", f"{qn}:every-argument-kept", not rebound, f"`{text(rebound[0])[:60]}` re-binds the positional members before they are appended: repeated members are dropped or the order changes, so the model's list is not the document's" if rebound else "", f"{rel}:{(rebound[0] if rebound else fn).lineno}")

    rep.rule("V-R4", "Element.__set_name__ records the attribute name; __set__ stores under that name on the instance; __get__ reads the same slot (locals expanded, every returning path)")
    from .paths import return_paths

    el = p.get_class(TYPES, "Element")
    trel = p.module(TYPES).relpath
    sn = el.own_func("__set_name__")
    if sn is not None:
        from .flat import flat as _flat_sn

        sn = _flat_sn(p, TYPES, sn, el)
    ok = sn is not None and any(isinstance(s_, ast.Assign) and text(s_.targets[0]) == "self.name" and Expander(sn).t(s_.value) == params_of(sn)[2] for s_ in own_statements(sn))
    rep.check("V-R4", "Element.__set_name__", ok, "the descriptor does not record the attribute name it is bound to" if not ok else "", f"{trel}:{sn.lineno if sn else 0}")
    g = el.own_func("__get__")
    if g is not None:
        from .flat import flat as _flat

        g = _flat(p, TYPES, g, el)
    gp = params_of(g) if g else []
    rps, _ = return_paths(g, expander=Expander(g)) if g else ([], None)
    vals = {rtxt for _p, rtxt, sc in rps if not (rtxt == "None" and sc.get(f"{gp[1]} is None") is True)}
    ok = bool(rps) and vals == {f"{gp[1]}.__dict__[self.name]"}
    rep.check("V-R4", "Element.__get__", ok, f"the descriptor reads {sorted(vals)}, not the slot it writes" if not ok else "", f"{trel}:{g.lineno if g else 0}")

    rep.rule("V-R5", "the boolean read table is exactly {'Y': True, 'N': False}; every returning path of the str reader returns self.mapping[value] and every other path raises")
    scal, _ = scalar_types(p)
    b = scal["Bool"]
    m = b.lookup("mapping")
    rep.check("V-R5", "Bool.mapping", m == {"Y": True, "N": False}, f"Bool.mapping is {m!r}; OFX booleans are exactly Y and N", tloc(p, b.node))
    h = D.family(b, "convert").get("str")
    ok = False
    why = "no str reader"
    if h is not None:
        rps, pths = h.return_paths()
        vals = {rtxt for _p, rtxt, _s in rps}
        ok = vals == {f"self.mapping[{h.value_param()}]"}
        why = f"the boolean reader returns {sorted(vals)}; expected a strict lookup self.mapping[{h.value_param()}] (anything else must raise)"
    rep.check("V-R5", "Bool.convert[str]", ok, why if not ok else "", tloc(p, h.fn if h else b.node))

    rep.rule("V-R6", "the character-data decoder is a single-pass decoder covering &amp; &lt; &gt; &nbsp; &apos; &quot; (saxutils.unescape with an explicit table for the last three, or html.unescape); a hand-written replace chain must decode &amp; last")
    s_ = scal["String"]
    h = D.family(s_, "convert").get("str")
    if h is None:
        raise AnalysisError("String str reader not found")
    vp = h.value_param()
    hfn = h.ffn
    hex_ = Expander(hfn)
    dec_calls = [c for c in own_nodes(hfn) if isinstance(c, ast.Call) and (dotted(c.func) or "").split(".")[-1] in ("unescape",)]
    repl = [c for c in ast.walk(hfn) if isinstance(c, ast.Call) and isinstance(c.func, ast.Attribute) and c.func.attr == "replace"]
    if dec_calls:
        for c in dec_calls:
            d = dotted(c.func) or ""
            if d.startswith("saxutils") or d.endswith("saxutils.unescape"):
                tbl = c.args[1] if len(c.args) > 1 else next((k.value for k in c.keywords if k.arg == "entities"), None)
                tbl = hex_.x(tbl) if tbl is not None else None
                got = {}
                if isinstance(tbl, ast.Dict):
                    got = {k.value: v.value for k, v in zip(tbl.keys, tbl.values) if isinstance(k, ast.Constant) and isinstance(v, ast.Constant)}
                elif tbl is not None:
                    tv = p.ev(p.module(TYPES), tbl, {})
                    if isinstance(tv, dict):
                        got = tv
                    else:
                        rep.note(f"V-R6 undecided: entity table {text(tbl)} is not a literal")
                        continue
                want = {"&nbsp;": " ", "&apos;": "'", "&quot;": '"'}
                missing = {k: v for k, v in want.items() if got.get(k) != v}
                wrong = {k: v for k, v in got.items() if k in ("&amp;", "&lt;", "&gt;")}
                rep.check("V-R6", "String.convert[str]:entity-table", not missing and not wrong, (f"entities {sorted(missing)} are not decoded to their characters (table: {got})" if missing else f"the table lists {sorted(wrong)}, which saxutils.unescape decodes by itself (&amp; last): listed in the table they are decoded in the first pass as well, so the text &amp;lt; becomes < instead of &lt; (double decoding)") if (missing or wrong) else "", tloc(p, h.fn))
            elif d.startswith("html"):
                rep.check("V-R6", "String.convert[str]:entity-table", True, "html.unescape", tloc(p, h.fn))
            else:
                rep.note(f"V-R6 undecided: decoder {d} not recognised")
                continue
            ok = c.args and hex_.t(c.args[0]) == vp
            rep.check("V-R6", "String.convert[str]:decodes-the-text", bool(ok), "" if ok else "the decoder is not applied to the element text", tloc(p, h.fn))
            # ... and what it returns is what the reader hands on: a method applied to the decoded text afterwards
            # (.replace / .translate / .strip ...) cannot tell a character an entity stood for from one that was in the
            # document itself
            from .source import parent as _par

            post = None
            cur_ = c
            while True:
                up_ = _par(cur_)
                if isinstance(up_, ast.Attribute) and up_.value is cur_ and isinstance(_par(up_), ast.Call) and _par(up_).func is up_ and up_.attr not in ("encode",):
                    post = up_.attr
                    break
                if isinstance(up_, ast.Assign) and len(up_.targets) == 1 and isinstance(up_.targets[0], ast.Name):
                    # follow the local the decoded text is bound to
                    nm_ = up_.targets[0].id
                    uses_ = [x for x in ast.walk(hfn) if isinstance(x, ast.Attribute) and isinstance(x.value, ast.Name) and x.value.id == nm_ and isinstance(_par(x), ast.Call) and _par(x).func is x and x.lineno >= up_.lineno]
                    post = next((u_.attr for u_ in uses_ if u_.attr in ("replace", "translate", "strip", "lstrip", "rstrip", "lower", "upper", "casefold", "expandtabs", "split", "join", "title")), None)
                    break
                break
            rep.check("V-R6", "String.convert[str]:decoded-text-handed-on-unaltered", post is None, f"the decoded text goes through .{post}(...) before it is returned: characters that stood in the document literally (e.g. a NO-BREAK SPACE, U+00A0) are rewritten together with the ones the entities produced - the model holds text that is not in the document" if post else "", tloc(p, h.fn))
    elif repl:
        order = _replace_order(p, hfn)
        if order is None:
            rep.note("V-R6 undecided: hand-written entity decoding not understood")
        else:
            six = ["&amp;", "&lt;", "&gt;", "&nbsp;", "&apos;", "&quot;"]
            missing = [e for e in six if e not in order]
            amp_last = "&amp;" in order and order.index("&amp;") == len(order) - 1
            rep.check("V-R6", "String.convert[str]:entity-table", not missing and amp_last, (f"entities {missing} are not decoded; " if missing else "") + ("" if amp_last else f"'&amp;' is decoded before {order[order.index('&amp;') + 1:] if '&amp;' in order else order}: '&amp;lt;' becomes '<' instead of '&lt;' (double decoding)"), tloc(p, h.fn))
    else:
        rep.check("V-R6", "String.convert[str]:entity-table", False, "character data is not entity-decoded at all", tloc(p, h.fn))

    rep.rule("V-R7", "the decimal reader accepts both separators: a text that decimal.Decimal rejects (InvalidOperation) is retried with ',' replaced by '.'")
    d_ = scal["Decimal"]
    h = D.family(d_, "convert").get("str")
    ok = None
    if h is not None:
        hfn = h.ffn
        hx = Expander(hfn)
        vp = h.value_param()
        for t in [s2 for s2 in own_statements(hfn) if isinstance(s2, ast.Try)]:
            body_ok = any(isinstance(s2, ast.Assign) and hx.t(s2.value) == f"decimal.Decimal({vp})" for s2 in t.body)
            hand = [hx.t(s2.value).replace('"', "'") for hh in t.handlers for s2 in ast.walk(hh) if isinstance(s2, ast.Assign)]
            hand_ok = any(v == f"decimal.Decimal({vp}.replace(',', '.'))" for v in hand)
            if body_ok and hand_ok:
                ok = True
            elif body_ok and ok is None:
                ok = False
        if ok is None:
            # no try at all: is ',' handled some other way?
            if any(isinstance(c, ast.Call) and isinstance(c.func, ast.Attribute) and c.func.attr == "replace" and c.args and isinstance(c.args[0], ast.Constant) and c.args[0].value == "," for c in ast.walk(hfn)):
                rep.note("V-R7 undecided: ',' is replaced but not in the try/except form")
            else:
                ok = False
    if h is not None:
        # every decimal.Decimal(<text>) of the reader: the text itself, or the text with ',' turned into '.'; a
        # comma that is dropped (or turned into anything else) changes the value (5,250 -> 5250)
        for c in ast.walk(hfn):
            if isinstance(c, ast.Call) and (text(c.func) in ("decimal.Decimal", "Decimal")) and len(c.args) == 1:
                for r_ in ast.walk(hx.x(c.args[0])):
                    if isinstance(r_, ast.Call) and isinstance(r_.func, ast.Attribute) and r_.func.attr == "replace" and len(r_.args) >= 2 and isinstance(r_.args[0], ast.Constant) and r_.args[0].value == ",":
                        to = r_.args[1].value if isinstance(r_.args[1], ast.Constant) else None
                        if to is None:
                            rep.note("V-R7 undecided: ',' replaced by a non-constant")
                        else:
                            rep.check("V-R7", "Decimal.convert[str]:comma-is-the-separator", to == ".", f"a ',' in the text is replaced by {to!r} before conversion: '5,250' is read as {'5250' if to == '' else '?'} instead of 5.250" if to != "." else "", tloc(p, c))
    if ok is not None:
        rep.check("V-R7", "Decimal.convert[str]:both-separators", ok, "',' as decimal separator is not accepted (or '.' no longer is)" if not ok else "", tloc(p, h.fn if h else d_.node))


def _replace_order(p: Project, fn) -> List[str]:
    """entities in the order a hand-written decoder replaces them"""
    order = []
    # chained value.replace("&x;", ..).replace(...)
    for st in own_statements(fn):
        for c in ast.walk(st):
            if isinstance(c, ast.Call) and isinstance(c.func, ast.Attribute) and c.func.attr == "replace" and c.args and isinstance(c.args[0], ast.Constant) and str(c.args[0].value).startswith("&"):
                order.append((c.lineno, c.col_offset, c.args[0].value))
    if order:
        # inner calls of a chain are evaluated first: sort by position of the closing call is unreliable; use end offsets
        chain = []
        for st in own_statements(fn):
            chain += _chain(st)
        return chain or [x[2] for x in sorted(order)]
    # loop over a table
    for st in own_statements(fn):
        if isinstance(st, ast.For) and any(isinstance(c, ast.Call) and isinstance(c.func, ast.Attribute) and c.func.attr == "replace" for c in ast.walk(st)):
            it = st.iter
            tbl = None
            if isinstance(it, ast.Call) and isinstance(it.func, ast.Attribute) and it.func.attr == "items":
                tbl = it.func.value
            else:
                tbl = it
            v = None
            if isinstance(tbl, ast.Name):
                for bname, kind, payload in p.module(TYPES).bindings:
                    if bname == tbl.id and kind == "assign":
                        v = payload
            elif isinstance(tbl, ast.Attribute):
                for bname, kind, payload in p.module(TYPES).bindings:
                    if bname == tbl.attr and kind == "assign":
                        v = payload
            else:
                v = tbl
            if isinstance(v, ast.Dict):
                return [k.value for k in v.keys if isinstance(k, ast.Constant)]
            if isinstance(v, (ast.List, ast.Tuple)):
                return [e.elts[0].value for e in v.elts if isinstance(e, (ast.Tuple, ast.List)) and e.elts and isinstance(e.elts[0], ast.Constant)]
    return None


def _chain(st) -> List[str]:
    out = []

    def walk(e):
        if isinstance(e, ast.Call) and isinstance(e.func, ast.Attribute) and e.func.attr == "replace":
            walk(e.func.value)
            if e.args and isinstance(e.args[0], ast.Constant):
                out.append(e.args[0].value)

    for c in ast.walk(st):
        if isinstance(c, ast.Call) and isinstance(c.func, ast.Attribute) and c.func.attr == "replace":
            par = getattr(c, "_parent", None)
            if not (isinstance(par, ast.Attribute) and par.attr == "replace"):
                walk(c)
    return [x for x in out if isinstance(x, str) and x.startswith("&")]


def v_r8_token_tables(p: Project, rep: Report, modules_prefix=("ofxtools.models", "ofxtools.Types", "ofxtools.header")):
    """no element of a table of tokens is an implicit concatenation of two string literals (a missing comma merges
    two enumeration tokens into one bogus token and drops both real ones)"""
    import io
    import re as _re
    import tokenize

    rep.rule("V-R8", "token tables are what they look like: in every tuple / list / set display (and OneOf(...) argument list) made only of blank-free string literals, no element is an implicit concatenation of adjacent literals - a missing comma merges two tokens ('SARSEP' 'SIMPLE' -> 'SARSEPSIMPLE'), so neither real token is accepted any more")
    tok_re = _re.compile(r"^[A-Za-z0-9_.\-/+]+$")
    ntables = 0
    for name, m in p.modules.items():
        if not any(name == pre or name.startswith(pre + ".") for pre in modules_prefix):
            continue
        src = p.files.get(m.relpath)
        if src is None:
            continue
        for node in ast.walk(m.tree):
            elts = None
            if isinstance(node, (ast.Tuple, ast.List, ast.Set)):
                elts = node.elts
            elif isinstance(node, ast.Call) and isinstance(node.func, ast.Name) and node.func.id == "OneOf":
                elts = node.args
            if not elts or len(elts) < 2:
                continue
            if not all(isinstance(e, ast.Constant) and isinstance(e.value, str) and tok_re.match(e.value) for e in elts):
                continue
            ntables += 1
            for e in elts:
                seg = ast.get_source_segment(src, e)
                if seg is None or e.lineno == getattr(e, "end_lineno", e.lineno) and seg.count('"') + seg.count("'") <= 2:
                    continue
                try:
                    parts = [t.string for t in tokenize.generate_tokens(io.StringIO(seg).readline) if t.type == tokenize.STRING]
                except (tokenize.TokenError, IndentationError, SyntaxError):
                    continue
                if len(parts) > 1:
                    rep.check("V-R8", f"{name}:{e.value}:implicit-concatenation", False, f"{' '.join(parts)} are adjacent literals without a comma: the table holds the single token {e.value!r} and neither of {[ast.literal_eval(x) for x in parts]}", f"{m.relpath}:{e.lineno}")
    rep.unit("token_tables", ntables)
    if not any(o.rule == "V-R8" and not o.ok for o in rep.obligations):
        rep.check("V-R8", "token-tables:no-implicit-concatenation", True, f"{ntables} tables", "")
    rep.floor("V-R8", ntables, 40 if len(modules_prefix) > 1 else 4, "token tables")



def v_r15_no_html5_entity_decoder(p: Project, rep: Report, modules=("ofxtools.Types", "ofxtools.ofxhome", "ofxtools.utils", "ofxtools.Parser", "ofxtools.Client", "ofxtools.models.base", "ofxtools.scripts.ofxget")):
    """html.unescape is not an XML / SGML entity decoder"""
    rep.rule("V-R15", "no reader or writer of the library decodes text with html.unescape / HTMLParser.unescape: HTML5 rules also expand the LEGACY entity names without a semicolon, even as a prefix of a longer word (`&not`, `&reg`, `&copy`, `&sect`, `&para`, `&lt` ...) and numeric references - `Bills&notes` is read as `Bills¬es`, a password `jim&regina` goes out as `jim®ina`, an OFX Home URL `?a=1&region=us` becomes `?a=1®ion=us` - where the XML / OFX decoders (saxutils.unescape with the five entities) leave such text alone")
    n = 0
    for modname in modules:
        try:
            m = p.module(modname)
        except Exception:
            continue
        for x in ast.walk(m.tree):
            if isinstance(x, ast.Call):
                n += 1
                d = dotted(x.func) or ""
                if d in ("html.unescape", "unescape") and (d == "html.unescape" or str(p.resolve(modname, "unescape")).find("html") >= 0) or d.endswith("HTMLParser.unescape") or d.endswith("HTMLParser().unescape"):
                    rep.check("V-R15", f"{modname}:html.unescape", False, f"{m.relpath}:{x.lineno} decodes with {d}(): legacy HTML entity names without a semicolon (&not, &reg, &copy, &sect ...) and numeric references inside ordinary text are expanded - values containing `&` followed by such a name are silently changed", f"{m.relpath}:{x.lineno}")
    rep.check("V-R15", "library:no-html5-entity-decoder", True, "", f"{n} calls in {len(modules)} modules")
