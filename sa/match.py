"""Small structural matching helpers over (expanded) expression ASTs."""
from __future__ import annotations

import ast
import copy
from typing import Dict, Iterable, List, Optional

from .dataflow import clone, expand, local_defs


class _Norm(ast.NodeTransformer):
    """canonical spelling: type(x) -> x.__class__ ; `not a op b` -> complementary comparison;
    b > a -> a < b ; x == None -> x is None"""

    def visit_Call(self, node):
        self.generic_visit(node)
        if isinstance(node.func, ast.Name) and node.func.id == "type" and len(node.args) == 1 and not node.keywords:
            return ast.Attribute(value=node.args[0], attr="__class__", ctx=ast.Load())
        return node

    def visit_UnaryOp(self, node):
        self.generic_visit(node)
        if isinstance(node.op, ast.Not) and isinstance(node.operand, ast.Compare) and len(node.operand.ops) == 1:
            comp = {ast.Lt: ast.GtE, ast.LtE: ast.Gt, ast.Gt: ast.LtE, ast.GtE: ast.Lt, ast.Eq: ast.NotEq, ast.NotEq: ast.Eq,
                    ast.Is: ast.IsNot, ast.IsNot: ast.Is, ast.In: ast.NotIn, ast.NotIn: ast.In}
            op = type(node.operand.ops[0])
            if op in comp:
                new = ast.Compare(left=node.operand.left, ops=[comp[op]()], comparators=node.operand.comparators)
                return self.visit_Compare(new)
        if isinstance(node.op, ast.Not) and isinstance(node.operand, ast.UnaryOp) and isinstance(node.operand.op, ast.Not):
            return node.operand.operand
        return node

    def visit_Compare(self, node):
        self.generic_visit(node)
        if len(node.ops) == 1:
            op = node.ops[0]
            l, r = node.left, node.comparators[0]
            if isinstance(op, ast.Gt):
                return ast.Compare(left=r, ops=[ast.Lt()], comparators=[l])
            if isinstance(op, ast.GtE):
                return ast.Compare(left=r, ops=[ast.LtE()], comparators=[l])
            if isinstance(op, ast.Eq) and isinstance(r, ast.Constant) and r.value is None:
                return ast.Compare(left=l, ops=[ast.Is()], comparators=[r])
            if isinstance(op, ast.NotEq) and isinstance(r, ast.Constant) and r.value is None:
                return ast.Compare(left=l, ops=[ast.IsNot()], comparators=[r])
        return node


def norm(node) -> ast.AST:
    return _Norm().visit(clone(node))


def text(node) -> str:
    """normalised, whitespace-free rendering used for structural equality"""
    return ast.unparse(norm(node))


def parse_expr(src: str) -> ast.AST:
    return ast.parse(src, mode="eval").body


def same(node, *sources: str) -> bool:
    t = text(node)
    return any(t == text(parse_expr(s)) for s in sources)


def contains(node, *sources: str) -> bool:
    """some sub-expression of node equals one of the sources"""
    wants = {text(parse_expr(s)) for s in sources}
    for x in ast.walk(norm(node)):
        if isinstance(x, ast.expr):
            try:
                if ast.unparse(x) in wants:
                    return True
            except Exception:
                pass
    return False


class Expander:
    """expansion through single-assignment locals of a function and, for closures, of the
    enclosing functions (inner definitions shadow outer ones)"""

    def __init__(self, *fns):
        # fns: innermost first
        self.fns = fns
        defs: Dict[str, list] = {}
        for fn in reversed(fns):
            inner = local_defs(fn)
            for k, v in inner.items():
                defs[k] = v
        self.defs = defs

    def x(self, expr) -> ast.AST:
        return expand(expr, self.fns[0], _defs=self.defs)

    def t(self, expr) -> str:
        return text(self.x(expr))


def is_const_str(node) -> bool:
    return isinstance(node, ast.Constant) and isinstance(node.value, str)


def const_strs(node) -> Optional[List[str]]:
    """list of strings if node is a tuple/list/set literal of string constants (or one string)"""
    if is_const_str(node):
        return [node.value]
    if isinstance(node, (ast.Tuple, ast.List, ast.Set)) and all(is_const_str(e) for e in node.elts):
        return [e.value for e in node.elts]
    return None


def is_super_call(call: ast.Call, method: str) -> bool:
    """super().m(...), super(X, Y).m(...)"""
    f = call.func
    return (
        isinstance(f, ast.Attribute)
        and f.attr == method
        and isinstance(f.value, ast.Call)
        and isinstance(f.value.func, ast.Name)
        and f.value.func.id == "super"
    )


def passes_star_args(call: ast.Call, vararg: Optional[str], kwarg: Optional[str]) -> bool:
    has_star = any(isinstance(a, ast.Starred) and isinstance(a.value, ast.Name) and a.value.id == vararg for a in call.args) if vararg else True
    has_kw = any(k.arg is None and isinstance(k.value, ast.Name) and k.value.id == kwarg for k in call.keywords) if kwarg else True
    return has_star and has_kw
