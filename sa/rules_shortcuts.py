"""Shortcut / proxy rules A-R1..4 (C16): a small flow-sensitive type narrowing over the model
schema, applied to every @property of every model class."""
from __future__ import annotations

import ast
from typing import Dict, FrozenSet, List, Optional, Set, Tuple

from .dataflow import own_nodes, own_statements, params_of
from .match import text
from .report import Report
from .schema import BASE, MODELS, Schema
from .source import AnalysisError, ClassInfo, Project, parent

Types = Optional[FrozenSet[ClassInfo]]  # None = unknown


class IterOf:
    """an iterable (comprehension result) whose elements have the given model types"""

    def __init__(self, types: FrozenSet[ClassInfo]):
        self.types = types


def _always_exits(stmts) -> bool:
    """the block cannot fall out of its end: it ends with continue / break / return / raise (or an if/else that does)"""
    if not stmts:
        return False
    last = stmts[-1]
    if isinstance(last, (ast.Continue, ast.Break, ast.Return, ast.Raise)):
        return True
    if isinstance(last, ast.If):
        return _always_exits(last.body) and _always_exits(last.orelse)
    return False


class Narrower:
    """abstractly executes one property function for one concrete receiver class"""

    def __init__(self, schema: Schema, recv: ClassInfo, definer: ClassInfo, fn: ast.FunctionDef, rep: Report, rule="A-R2"):
        self.s, self.recv, self.definer, self.fn, self.rep, self.rule = schema, recv, definer, fn, rep, rule
        self.mod = definer.mod
        self.tested: List[ClassInfo] = []  # classes tested by isinstance on a member of self
        self.reads = 0
        self.unresolved = 0
        self.returned: List[Tuple[ast.AST, Types]] = []
        self.label = f"{recv.name}.{fn.name}"

    # -- helpers -------------------------------------------------------------
    def members(self, ci: ClassInfo) -> Types:
        out = [c.target for c in self.s.spec(ci).values() if c.kind == "ListAggregate" and isinstance(c.target, ClassInfo)]
        return frozenset(out) if out else None

    def child_type(self, ci: ClassInfo, attr: str, depth=5) -> Tuple[bool, Types]:
        """(defined?, type if the child is a sub-aggregate)"""
        spec = self.s.spec(ci)
        ch = spec.get(attr)
        if ch is not None:
            if ch.kind == "SubAggregate" and isinstance(ch.target, ClassInfo):
                return True, frozenset([ch.target])
            return True, None
        if ci.definer(attr) is not None or hasattr(list, attr):
            return True, self.prop_type(ci, attr, depth)
        if depth > 0:
            for c in spec.values():
                if c.kind == "SubAggregate" and isinstance(c.target, ClassInfo):
                    ok, t = self.child_type(c.target, attr, depth - 1)
                    if ok:
                        return True, t
        return False, None

    def prop_type(self, ci: ClassInfo, attr: str, depth=3) -> Types:
        """model type of a plain alias property (`return self.<child>.<child>` on every returning path), else None"""
        d = ci.definer(attr)
        if d is None or depth <= 0:
            return None
        kind, fn = d.attrs.get(attr, (None, None))
        if kind != "func" or not is_property(fn):
            return None
        out: Set[ClassInfo] = set()
        rets = [r for r in own_nodes(fn) if isinstance(r, ast.Return)]
        if not rets:
            return None
        for r in rets:
            cur = frozenset([ci])
            e = r.value
            chain = []
            while isinstance(e, ast.Attribute):
                chain.append(e.attr)
                e = e.value
            if not (isinstance(e, ast.Name) and e.id == "self") or not chain:
                return None
            for a in reversed(chain):
                nxt: Set[ClassInfo] = set()
                for t in cur:
                    ok, ct = self.child_type(t, a, depth - 1)
                    if not ok or ct is None:
                        return None
                    nxt |= ct
                cur = frozenset(nxt)
            out |= cur
        return frozenset(out) if out else None

    def may_raise(self, t: ClassInfo, attr: str) -> Optional[str]:
        """why reading .attr on an instance of t can raise AttributeError although t defines it: a property that
        goes through an optional child without testing it, or a name only reachable through the __getattr__ proxy"""
        spec = self.s.spec(t)
        if attr in spec:
            return None
        d = t.definer(attr)
        if d is None:
            return None if hasattr(list, attr) else f"{t.name} has no '{attr}' of its own (it is proxied from a sub-aggregate, and raises when that one is absent)"
        kind, fn = d.attrs.get(attr, (None, None))
        if kind != "func" or not is_property(fn):
            return None
        for x in ast.walk(fn):
            if isinstance(x, ast.Attribute) and isinstance(x.value, ast.Attribute) and isinstance(x.value.value, ast.Name) and x.value.value.id == "self":
                ch = spec.get(x.value.attr)
                if ch is not None and ch.kind == "SubAggregate" and not ch.required:
                    guarded = False
                    par = parent(x)
                    while par is not None and par is not fn:
                        if isinstance(par, (ast.If, ast.IfExp)) and f"self.{x.value.attr}" in text(par.test):
                            guarded = True
                        if isinstance(par, ast.Try):
                            guarded = True
                        par = parent(par)
                    # `assert self.<c> is not None` earlier in the getter states the presence the read relies on
                    for a_ in ast.walk(fn):
                        if isinstance(a_, ast.Assert) and f"self.{x.value.attr}" in text(a_.test) and a_.lineno <= x.lineno:
                            guarded = True
                    if not guarded:
                        return f"{t.name}.{attr} returns {text(x)} and <{x.value.attr.upper()}> is optional"
        return None

    def resolve_class(self, node) -> Optional[List[ClassInfo]]:
        if isinstance(node, ast.Tuple):
            out = []
            for e in node.elts:
                r = self.resolve_class(e)
                if r is None:
                    return None
                out += r
            return out
        v = self.s.p.ev(self.mod, node, {})
        return [v] if isinstance(v, ClassInfo) else None

    def where(self, node):
        return f"{self.mod.relpath}:{getattr(node, 'lineno', '?')}"

    def elements(self, it) -> Types:
        """types of the elements obtained by iterating a value of type `it`"""
        if isinstance(it, IterOf):
            return it.types
        if not it:
            return None
        mem: Set[ClassInfo] = set()
        for t in it:
            m = self.members(t)
            if m is None:
                return None
            mem |= m
        return frozenset(mem) if mem else None

    # -- expressions -----------------------------------------------------------
    def type_of(self, e, env: Dict[str, Types]) -> Types:
        if isinstance(e, ast.Name):
            return env.get(e.id)
        if isinstance(e, (ast.ListComp, ast.GeneratorExp, ast.SetComp)):
            inner = dict(env)
            for g in e.generators:
                it = self.type_of(g.iter, inner)
                if isinstance(g.target, ast.Name):
                    inner[g.target.id] = self.elements(it)
                for cond in g.ifs:
                    inner, _ = self.narrow_test(cond, inner)
            t = self.type_of(e.elt, inner)
            return IterOf(t) if isinstance(t, frozenset) and t else None
        if isinstance(e, ast.Call) and isinstance(e.func, ast.Name) and e.func.id in ("list", "tuple", "iter", "sorted", "reversed") and len(e.args) == 1 and not e.keywords:
            t = self.type_of(e.args[0], env)
            return t if isinstance(t, IterOf) else None
        if isinstance(e, ast.Attribute):
            return self.read(e.value, e.attr, e, env)
        if isinstance(e, ast.Call) and isinstance(e.func, ast.Name) and e.func.id == "getattr" and len(e.args) >= 2 and isinstance(e.args[1], ast.Constant) and isinstance(e.args[1].value, str):
            return self.read(e.args[0], e.args[1].value, e, env, has_default=len(e.args) > 2)
        if isinstance(e, ast.Subscript):
            base = self.type_of(e.value, env)
            if isinstance(base, IterOf):
                return base.types
            if base:
                out: Set[ClassInfo] = set()
                for t in base:
                    m = self.members(t)
                    if m is None:
                        return None
                    out |= m
                return frozenset(out)
            return None
        if isinstance(e, ast.IfExp):
            # each arm is read where its side of the test holds
            try:
                t_env, f_env = self.narrow_test(e.test, env)
            except AnalysisError:
                t_env, f_env = env, env
            a, b = self.type_of(e.body, t_env), self.type_of(e.orelse, f_env)
            return (a | b) if isinstance(a, frozenset) and isinstance(b, frozenset) else None
        # evaluate sub-expressions for their reads
        for ch in ast.iter_child_nodes(e):
            if isinstance(ch, ast.expr):
                self.type_of(ch, env)
        return None

    def read(self, base_expr, attr, node, env, has_default=False) -> Types:
        base = self.type_of(base_expr, env)
        if base is None or isinstance(base, IterOf):
            self.unresolved += 1
            return None
        out: Set[ClassInfo] = set()
        known = True
        for t in base:
            self.reads += 1
            ok, ct = self.child_type(t, attr)
            if not ok and not has_default:
                self.rep.check(self.rule, f"{self.label}:{text(base_expr)}.{attr}@{t.name}", False,
                               f"reads .{attr} on a value that can be a {t.name}, which defines no '{attr}' (not a child, not a class attribute, not proxied from a sub-aggregate): AttributeError, or a silently missing result", self.where(node))
            elif ok:
                self.rep.check(self.rule, f"{self.label}:{text(base_expr)}.{attr}@{t.name}", True, "", self.where(node))
                if not has_default and is_property(self.fn):
                    self.swallowed_miss(t, attr, base_expr, node)
            if ct is None:
                known = False
            else:
                out |= ct
        return frozenset(out) if known and out else None

    def swallowed_miss(self, t: ClassInfo, attr: str, base_expr, node):
        """an AttributeError raised INSIDE a property getter is swallowed by Python, which then asks __getattr__ for
        the property's own name; when a sub-aggregate can answer that name, the caller silently gets that answer"""
        why = self.may_raise(t, attr)
        if why is None:
            return
        par = parent(node)
        while par is not None and par is not self.fn:
            if isinstance(par, ast.Try) and any(h.type is None or any(isinstance(x, ast.Name) and x.id in ("AttributeError", "Exception", "BaseException") for x in ast.walk(h.type)) for h in par.handlers) and any(node is x for b in par.body for x in ast.walk(b)):
                return
            if isinstance(par, (ast.If, ast.IfExp)) and text(base_expr) in text(par.test) and ("fi" in text(par.test) or attr in text(par.test)):
                return
            par = parent(par)
        answer = [c.name for c in self.s.spec(self.recv).values() if c.kind == "SubAggregate" and isinstance(c.target, ClassInfo) and self.s.attr_defined_on(c.target, self.fn.name)]
        if not answer:
            return
        self.rep.check("A-R10", f"{self.label}:{text(base_expr)}.{attr}@{t.name}:miss-not-swallowed", False,
                       f"the getter reads {text(base_expr)}.{attr}, which raises AttributeError on a valid instance ({why}); raised inside a property, that error makes Python fall back to {self.recv.name}.__getattr__('{self.fn.name}'), and the sub-aggregate <{answer[0].upper()}> answers '{self.fn.name}' itself - the caller silently gets that child's (partial) result instead of the full one", self.where(node))

    # -- statements ------------------------------------------------------------
    def narrow_test(self, test, env) -> Tuple[Dict[str, Types], Dict[str, Types]]:
        """(env if true, env if false)"""
        t_env, f_env = dict(env), dict(env)
        if isinstance(test, ast.Call) and isinstance(test.func, ast.Name) and test.func.id == "isinstance" and len(test.args) == 2 and isinstance(test.args[0], ast.Name):
            var = test.args[0].id
            classes = self.resolve_class(test.args[1])
            if classes is None:
                raise AnalysisError(f"{self.label}: isinstance target {ast.unparse(test.args[1])} does not resolve to a class")
            cur = env.get(var)
            if isinstance(cur, IterOf):
                cur = None
            if getattr(self, "_unroll_var", None) == var and cur is not None:
                self._unroll_tests += 1
                if any(c is t or c in t.mro or t in c.mro for c in classes for t in cur):
                    self._unroll_hits += 1
            for c in classes:
                self.tested.append(c)
                if cur is not None and getattr(self, "_unroll_var", None) != var:
                    possible = any(c is t or c in t.mro or t in c.mro for t in cur)
                    self.rep.check(self.rule, f"{self.label}:isinstance({var},{c.name})", possible,
                                   f"this arm can never match: {var} can only be one of {sorted(x.name for x in cur)} here (the class is not a list member type of {self.recv.name}, or an earlier arm already took it)" if not possible else "",
                                   self.where(test))
            t_env[var] = frozenset(classes)
            if cur is not None:
                f_env[var] = frozenset(t for t in cur if not any(t is c or c in t.mro for c in classes))
            return t_env, f_env
        if isinstance(test, ast.Compare) and len(test.ops) == 1 and isinstance(test.ops[0], (ast.Is, ast.IsNot)) and isinstance(test.left, ast.Constant) and test.left.value is None and isinstance(test.comparators[0], ast.Name):
            # `None is not v`: identity is symmetric
            return self.narrow_test(ast.Compare(left=test.comparators[0], ops=test.ops, comparators=[test.left]), env)
        if isinstance(test, ast.Compare) and len(test.ops) == 1 and isinstance(test.left, ast.Name) and isinstance(test.comparators[0], ast.Constant) and test.comparators[0].value is None and isinstance(test.ops[0], (ast.Is, ast.IsNot)):
            # `v is not None`: v was bound to a non-None value only at sites where the other variables had the recorded types
            snaps = env.get("$corr", {}).get(test.left.id, ())
            narrowed = dict(env)
            if snaps:
                for other in set().union(*[dict(sn) for sn in snaps]):
                    allowed = frozenset().union(*[dict(sn).get(other, frozenset()) for sn in snaps])
                    cur = env.get(other)
                    if isinstance(cur, IterOf):
                        continue
                    narrowed[other] = allowed if cur is None else (cur & allowed)
            return (narrowed, dict(env)) if isinstance(test.ops[0], ast.IsNot) else (dict(env), narrowed)
        if isinstance(test, ast.Name):
            # a flag: a local bound exactly once to a type test (`is_closing = not isinstance(x, C)`) stands for it
            from .dataflow import local_defs as _ld

            ds_ = _ld(self.fn).get(test.id, [])
            if len(ds_) == 1 and ds_[0].kind == "assign" and isinstance(ds_[0].value, ast.AST):
                v_ = ds_[0].value
                core_ = v_.operand if isinstance(v_, ast.UnaryOp) and isinstance(v_.op, ast.Not) else v_
                if isinstance(core_, ast.Call) and isinstance(core_.func, ast.Name) and core_.func.id == "isinstance":
                    return self.narrow_test(v_, env)
            # truthiness of a model-typed local: same correlation as `is not None` - but an Aggregate IS a list of its
            # repeated members, so one that cannot have any (no ListAggregate / ListElement child) is always falsy
            ty_ = env.get(test.id)
            if isinstance(ty_, frozenset):
                never = sorted(c.name for c in ty_ if isinstance(c, ClassInfo) and self.s.is_aggregate(c) and not any(ch.is_list for ch in self.s.spec(c).values()))
                if never:
                    self.rep.check(self.rule, f"{self.recv.name}.{self.fn.name}:truthiness-of({test.id})", False, f"`{test.id}` is tested for truth, but it can be a {never[0]}, which declares no repeated child: every instance is an empty list and therefore falsy, however many of its (non-repeated) children are set - the branch for 'present' is never taken (use `is not None`)", self.where(test))
            fake = ast.Compare(left=test, ops=[ast.IsNot()], comparators=[ast.Constant(value=None)])
            return self.narrow_test(fake, env)
        if isinstance(test, ast.UnaryOp) and isinstance(test.op, ast.Not):
            # a NEGATED type test that cannot match is a redundancy (always true), not a dead arm: `not is_a and is_b`
            prev_ = getattr(self, "_unroll_var", None)
            quiet_ = isinstance(test.operand, ast.Call) and text(test.operand.func) == "isinstance" and test.operand.args and isinstance(test.operand.args[0], ast.Name) and prev_ is None
            if quiet_:
                self._unroll_var, self._unroll_tests, self._unroll_hits = test.operand.args[0].id, getattr(self, "_unroll_tests", 0), getattr(self, "_unroll_hits", 0)
            try:
                a, b = self.narrow_test(test.operand, env)
            finally:
                if quiet_:
                    self._unroll_var = prev_
            return b, a
        if isinstance(test, ast.BoolOp) and isinstance(test.op, ast.And):
            cur = dict(env)
            false_env = None
            for v in test.values:
                nxt, f_ = self.narrow_test(v, cur)
                # false: some conjunct failed where the earlier ones held
                false_env = f_ if false_env is None else self.merge(false_env, f_)
                cur = nxt
            return cur, (false_env if false_env is not None else dict(env))
        if isinstance(test, ast.BoolOp) and isinstance(test.op, ast.Or):
            # true: one of the disjuncts held (each tried where the earlier ones failed); false: all of them failed
            cur = dict(env)
            true_env = None
            for v in test.values:
                t_, cur = self.narrow_test(v, cur)
                true_env = t_ if true_env is None else self.merge(true_env, t_)
            return (true_env if true_env is not None else dict(env)), cur
        ty_ = self.type_of(test, env)
        if isinstance(test, ast.Attribute) and isinstance(ty_, frozenset):
            never = sorted(c.name for c in ty_ if isinstance(c, ClassInfo) and self.s.is_aggregate(c) and not any(ch.is_list for ch in self.s.spec(c).values()))
            if never:
                self.rep.check(self.rule, f"{self.recv.name}.{self.fn.name}:truthiness-of({text(test)})", False, f"`{text(test)}` is tested for truth, but it can be a {never[0]}, which declares no repeated child: every instance is an empty list and therefore falsy, however many of its (non-repeated) children are set - the branch for 'present' is never taken (use `is not None`)", self.where(test))
        return t_env, f_env

    def merge(self, a: Dict[str, Types], b: Dict[str, Types]) -> Dict[str, Types]:
        out = {}
        for k in set(a) | set(b):
            if k == "$corr":
                ca, cb = a.get(k, {}), b.get(k, {})
                out[k] = {v: tuple(dict.fromkeys(ca.get(v, ()) + cb.get(v, ()))) for v in set(ca) | set(cb)}
                continue
            x, y = a.get(k, frozenset()), b.get(k, frozenset())
            if isinstance(x, IterOf) or isinstance(y, IterOf):
                out[k] = IterOf(x.types | y.types) if isinstance(x, IterOf) and isinstance(y, IterOf) else None
                continue
            out[k] = None if (x is None or y is None) else (x | y)
        return out

    def block(self, stmts, env) -> Dict[str, Types]:
        for st in stmts:
            env = self.stmt(st, env)
        return env

    def stmt(self, st, env):
        if isinstance(st, ast.If):
            t_env, f_env = self.narrow_test(st.test, env)
            a = self.block(st.body, t_env)
            b = self.block(st.orelse, f_env)
            ea, eb = _always_exits(st.body), _always_exits(st.orelse)
            if ea and not eb:
                return b
            if eb and not ea:
                return a
            return self.merge(a, b)
        if isinstance(st, (ast.For, ast.AsyncFor)):
            it = self.type_of(st.iter, env)
            if isinstance(st.iter, ast.Name) and st.iter.id == "self":
                it = frozenset([self.recv])
            inner = dict(env)
            if isinstance(st.target, ast.Name):
                inner[st.target.id] = self.elements(it)
            if isinstance(st.iter, (ast.Tuple, ast.List)) and isinstance(st.target, ast.Name) and st.iter.elts:
                # a loop over an explicit tuple of values: look at each element on its own - an element whose type fails
                # every isinstance test the body applies to it can never be selected
                etypes = [self.type_of(e, env) for e in st.iter.elts]
                if all(isinstance(t, frozenset) and t for t in etypes):
                    for e, t in zip(st.iter.elts, etypes):
                        self._unroll_var, self._unroll_tests, self._unroll_hits = st.target.id, 0, 0
                        one = dict(env)
                        one[st.target.id] = t
                        saved = (len(self.rep.obligations), list(self.returned), self.reads, self.unresolved)
                        try:
                            self.block(st.body, one)
                        finally:
                            tests, hits = self._unroll_tests, self._unroll_hits
                            self._unroll_var = None
                            del self.rep.obligations[saved[0]:]
                            self.returned, self.reads, self.unresolved = saved[1], saved[2], saved[3]
                        if tests and not hits:
                            self.rep.check(self.rule, f"{self.label}:{text(e)}:selectable", False,
                                           f"{text(e)} (a {'/'.join(sorted(x.name for x in t))}) fails every isinstance test the loop applies to it: this alternative can never be chosen, the shortcut ignores it", self.where(e))
                        else:
                            self.rep.check(self.rule, f"{self.label}:{text(e)}:selectable", True, "", self.where(e))
                    inner[st.target.id] = frozenset().union(*etypes)
            out = self.block(st.body, inner)
            out = self.merge(env, out)
            return self.block(st.orelse, out)
        if isinstance(st, ast.Assert):
            t_env, _ = self.narrow_test(st.test, env)
            return t_env
        if isinstance(st, ast.Assign):
            t = self.type_of(st.value, env)
            new = dict(env)
            for tg in st.targets:
                if isinstance(tg, ast.Name):
                    corr = dict(new.get("$corr", {}))
                    if isinstance(st.value, ast.Constant) and st.value.value is None:
                        corr[tg.id] = ()
                    else:
                        snap = tuple(sorted(((k, v) for k, v in env.items() if k not in ("$corr", "self", tg.id) and v and isinstance(v, frozenset)), key=lambda kv: kv[0]))
                        corr[tg.id] = (snap,)
                    new["$corr"] = corr
                    if isinstance(st.value, ast.Constant) and st.value.value is None:
                        new[tg.id] = frozenset()
                    elif isinstance(st.value, (ast.List, ast.Dict, ast.Tuple)):
                        new[tg.id] = None
                    else:
                        new[tg.id] = t
                elif isinstance(tg, ast.Attribute):
                    self.type_of(tg.value, env)
            return new
        if isinstance(st, ast.Return):
            t = self.type_of(st.value, env) if st.value is not None else None
            self.returned.append((st, t))
            return env
        if isinstance(st, ast.Expr):
            self.type_of(st.value, env)
            return env
        if isinstance(st, (ast.With, ast.Try, ast.While)):
            raise AnalysisError(f"{self.label}: statement kind {type(st).__name__} not modelled in shortcut properties")
        for ch in ast.iter_child_nodes(st):
            if isinstance(ch, ast.expr):
                self.type_of(ch, env)
        return env

    def run(self):
        env: Dict[str, Types] = {"self": frozenset([self.recv])}
        self.block(self.fn.body, env)
        return self


def is_property(fn: ast.FunctionDef) -> bool:
    return any(isinstance(d, ast.Name) and d.id == "property" for d in fn.decorator_list)


def _self_only_helper(fn: ast.FunctionDef) -> bool:
    """a plain method taking only self (the helpers shortcut properties are factored into)"""
    a = fn.args
    if fn.decorator_list or a.vararg or a.kwarg or a.kwonlyargs or len(a.args) != 1 or a.args[0].arg != "self":
        return False
    return not (fn.name.startswith("__") and fn.name.endswith("__"))


def properties_of(schema: Schema, ci: ClassInfo):
    """(definer, fn) for each @property visible on ci, defined by a repo class other than the two bases"""
    seen = set()
    out = []
    for c in ci.repo_mro:
        if c is schema.aggregate or c is schema.elementlist:
            continue
        for name, (kind, node) in c.attrs.items():
            if kind == "func" and name not in seen and (is_property(node) or _self_only_helper(node)):
                seen.add(name)
                out.append((c, node))
    return out


# --------------------------------------------------------------------------
def a_r1_getattr(schema: Schema, rep: Report):
    rep.rule("A-R1", "only AttributeError can escape Aggregate.__getattr__: every descriptor read in it sits in a try that handles both KeyError and AttributeError, and every raise is AttributeError; no model class overrides __getattr__/__getattribute__")
    p = schema.p
    rel = p.module(BASE).relpath
    fn = schema.aggregate.own_func("__getattr__")
    if fn is None:
        raise AnalysisError("Aggregate.__getattr__ not found")
    reads = [n for n in own_nodes(fn) if isinstance(n, ast.Call) and isinstance(n.func, ast.Name) and n.func.id == "getattr" and len(n.args) == 2]
    if not reads:
        raise AnalysisError("A-R1: __getattr__ performs no getattr() reads - mechanism not recognised")
    for i, r in enumerate(reads):
        covered = False
        node = r
        while node is not fn and node is not None:
            par = parent(node)
            if isinstance(par, ast.Try) and any(node is s or _contains(s, node) for s in par.body):
                names = set()
                for h in par.handlers:
                    if h.type is None:
                        names |= {"KeyError", "AttributeError"}
                    else:
                        htype = h.type
                        if isinstance(htype, ast.Name):
                            # a local holding the tuple of exception classes
                            hds = [s_ for s_ in own_statements(fn) if isinstance(s_, ast.Assign) and len(s_.targets) == 1 and isinstance(s_.targets[0], ast.Name) and s_.targets[0].id == htype.id]
                            if len(hds) == 1:
                                htype = hds[0].value
                        for x in ast.walk(htype):
                            if isinstance(x, ast.Name):
                                names.add(x.id)
                if {"KeyError", "AttributeError"} <= names or "Exception" in names or "LookupError" in names and "AttributeError" in names:
                    # the handler must not re-raise something else
                    covered = all(not any(isinstance(s, ast.Raise) and s.exc is not None and "AttributeError" not in ast.unparse(s.exc) for s in ast.walk(h)) for h in par.handlers)
            node = par
        rep.check("A-R1", f"__getattr__:read#{i}:{text(r)}", covered,
                  f"{text(r)} is evaluated outside a handler for (AttributeError, KeyError): Element.__get__ raises KeyError for a value that is not set (e.g. while copy/pickle rebuild the instance), which then escapes from __getattr__" if not covered else "", f"{rel}:{r.lineno}")
    # the descriptors __getattr__ reads must not answer an unset slot with AttributeError themselves: raised by a data
    # descriptor, it makes Python call __getattr__ for THAT name, whose first step reads a descriptor again - for an
    # instance whose first sub-aggregate is unset (every aggregate with repeated children; the blank instance that copy /
    # pickle build) the lookup never ends (RecursionError out of hasattr(), getattr(.., default), copy, pickle)
    try:
        from .dispatch import TYPES as _TYPES
        from .flat import flat as _flat0

        el_ = p.get_class(_TYPES, "Element")
        g_ = el_.own_func("__get__")
        if g_ is not None:
            gf_ = _flat0(p, _TYPES, g_, el_)
            bad_ = next((r_ for r_ in ast.walk(gf_) if isinstance(r_, ast.Raise) and r_.exc is not None and "AttributeError" in ast.unparse(r_.exc)), None)
            rep.check("A-R1", "Element.__get__:unset-slot-is-not-AttributeError", bad_ is None, "Element.__get__ raises AttributeError for an unset slot: Python then asks Aggregate.__getattr__ for that very name, which starts by reading the first sub-aggregate's descriptor - unset as well on every aggregate with repeated children and on the blank instance copy / pickle create - and recurses without end" if bad_ is not None else "", f"{p.module(_TYPES).relpath}:{(bad_ or g_).lineno}")
    except AnalysisError:
        pass
    # nothing in __getattr__ renders the instance: repr() / str() of an aggregate read every declared child through its
    # descriptor, which raises KeyError on the half-built instance copy / pickle probe (__setstate__, __reduce_ex__ ...)
    selfp = params_of(fn)[0]
    renders = []
    for n in own_nodes(fn):
        if isinstance(n, ast.FormattedValue) and isinstance(n.value, ast.Name) and n.value.id == selfp:
            renders.append(n)
        elif isinstance(n, ast.Call) and isinstance(n.func, ast.Name) and n.func.id in ("repr", "str", "format", "ascii") and n.args and isinstance(n.args[0], ast.Name) and n.args[0].id == selfp:
            renders.append(n)
        elif isinstance(n, ast.Call) and isinstance(n.func, ast.Attribute) and n.func.attr == "format" and any(isinstance(a_, ast.Name) and a_.id == selfp for a_ in list(n.args) + [k_.value for k_ in n.keywords]):
            renders.append(n)
        elif isinstance(n, ast.BinOp) and isinstance(n.op, ast.Mod) and any(isinstance(a_, ast.Name) and a_.id == selfp for a_ in ast.walk(n.right)):
            renders.append(n)
    for r_ in renders:
        safe = False
        node = r_
        while node is not fn and node is not None:
            par = parent(node)
            if isinstance(par, ast.Try) and any(node is s_ or _contains(s_, node) for s_ in par.body) and any(h_.type is None or any(isinstance(x_, ast.Name) and x_.id in ("Exception", "KeyError", "LookupError") for x_ in ast.walk(h_.type)) for h_ in par.handlers):
                safe = True
            node = par
        rep.check("A-R1", "__getattr__:instance-not-rendered", safe, f"`{('f-string field {' + selfp + '}') if isinstance(r_, ast.FormattedValue) else text(r_)[:40]}` renders the instance inside __getattr__: Aggregate.__repr__ reads every declared child through Element.__get__, which raises KeyError on the blank instance that copy / deepcopy / pickle create and probe for __setstate__ / __reduce_ex__ - KeyError instead of AttributeError escapes and the copy fails" if not safe else "", f"{rel}:{r_.lineno}")
    for n in own_nodes(fn):
        if isinstance(n, ast.Raise):
            ok = n.exc is not None and ast.unparse(n.exc).startswith("AttributeError")
            rep.check("A-R1", "__getattr__:raises-AttributeError", ok, f"raises {ast.unparse(n.exc) if n.exc else 're-raise'}" if not ok else "", f"{rel}:{n.lineno}")
    # a proxied read that succeeds is the answer, whatever its value (None included): no path passes a successful
    # getattr(<sub-aggregate>, attr) and then leaves without returning it
    from . import paths as _PT
    from .flat import flat as _flat
    from .match import Expander as _Ex

    ffn = _flat(p, BASE, fn, schema.aggregate)
    try:
        gp = _PT.enumerate_paths(ffn, None, _Ex(ffn), resolve=False)
    except AnalysisError as e:
        gp = None
        rep.note(f"A-R1 undecided: {e}")
    if gp is not None:
        gcfg = gp.cfg
        attrp = params_of(fn)[1]
        rnodes = [n for n in gcfg.nodes if n.stmt is not None and n.kind not in ("join", "handlers") and any(isinstance(c.func, ast.Name) and c.func.id == "getattr" and len(c.args) == 2 and text(c.args[1]) == attrp for c in n.calls())]
        lost = None
        for rn in rnodes:
            for q in gp:
                i = q.index_of(rn.id)
                if i is None:
                    continue
                # did the read raise on this path?
                raised = any(getattr(cw, "pos", -1) == i and cw[1] is True and any(a.startswith("raises(") for a in cw[0].atoms()) for cw in q.conds)
                if raised:
                    continue
                if q.outcome != "return":
                    lost = _PT.simple_conds([cw for cw in q.conds if not any(a.startswith("raises(") for a in cw[0].atoms())])
        if rnodes:
            rep.check("A-R1", "__getattr__:found-value-is-returned", lost is None, f"a path reads the attribute from a sub-aggregate successfully and still ends without returning it (taken when {lost}): a declared attribute whose value is None is reported as missing (AttributeError / hasattr False) when read through an ancestor" if lost is not None else "", f"{rel}:{fn.lineno}")
    # iteration domain: non-repeated sub-aggregates of the instance
    loops = [s for s in own_statements(fn) if isinstance(s, ast.For)]
    import re as _re_a1

    # the mapping itself, its keys, or a list / tuple / sorted copy of them: the same names in the same order
    it_ = text(loops[0].iter) if loops else ""
    if loops and isinstance(loops[0].iter, ast.Name):
        # a local bound once to the names: `names = tuple(self.subaggregates)`
        bs_ = [s_.value for s_ in own_statements(fn) if isinstance(s_, ast.Assign) and len(s_.targets) == 1 and isinstance(s_.targets[0], ast.Name) and s_.targets[0].id == loops[0].iter.id]
        if len(bs_) == 1:
            it_ = text(bs_[0])
    it_ = _re_a1.sub(r"^(list|tuple|iter)\((.*)\)$", r"\2", it_)
    it_ = _re_a1.sub(r"\.keys\(\)$", "", it_)
    ok = bool(loops) and it_ in ("self.subaggregates", "self.__class__.subaggregates", "type(self).subaggregates")
    rep.check("A-R1", "__getattr__:walks-subaggregates", ok, f"proxy walks {text(loops[0].iter) if loops else None}, expected self.subaggregates" if not ok else "", f"{rel}:{fn.lineno}")
    for ci in schema.all_aggregate_classes():
        if ci is schema.aggregate:
            continue
        for nm in ("__getattr__", "__getattribute__", "__reduce__", "__reduce_ex__", "__getstate__", "__setstate__", "__copy__", "__deepcopy__"):
            if nm in ci.attrs:
                rep.check("A-R1", f"{ci.name}.{nm}:not-overridden", False, f"{ci.name} overrides {nm}; the clean-miss / copy contract of the base no longer covers it", f"{ci.mod.relpath}:{ci.node.lineno}")


def _contains(tree, node):
    return any(x is node for x in ast.walk(tree))


ALIAS_TABLE = {
    # shortcut name -> (predicate on the target class name of the aliased child, reason: the property's own wording)
    "account": (lambda n: n.endswith("ACCTFROM"), "a statement's account is its *ACCTFROM"),
    "transactions": (lambda n: n.endswith("TRANLIST"), "a statement's transactions are its *TRANLIST"),
    "balance": (lambda n: n == "LEDGERBAL", "a bank/credit-card statement's balance is its LEDGERBAL"),
    "balances": (lambda n: n == "INVBAL", "an investment statement's balances are its INVBAL"),
    "positions": (lambda n: n == "INVPOSLIST", "an investment statement's positions are its INVPOSLIST"),
}


def a_r2_r3_properties(schema: Schema, rep: Report):
    rep.rule("A-R2", "typed narrowing in every shortcut property: each attribute read on a value of known model type is defined on that type (child, class attribute, or proxied from a non-repeated descendant); every isinstance arm can match (its class is a list member type of the receiver and no earlier arm took it); request-side and response-side `statements` of one message set cover corresponding wrapper types")
    rep.rule("A-R3", "plain aliases (`return self.<child>`): the child is declared; response wrappers' `statement`/`profile` return the wrapper's only own sub-aggregate; account/transactions/balance(s)/positions return the child of the kind the property's wording names; org/fid/cursym/currate return the like-named attribute")
    rep.rule("A-R10", "no shortcut getter can have a miss swallowed: an AttributeError raised inside a @property makes Python ask __getattr__ for the property's own name; where a sub-aggregate of the receiver can answer that name, the getter contains no unguarded read that raises on a valid instance (a property that goes through an optional child, or a name only reachable through the proxy) - otherwise the caller silently receives that child's answer")
    nprops = 0
    tested_by: Dict[str, Dict[str, List[ClassInfo]]] = {}
    for cname, ci in schema.exported().items():
        for definer, fn in properties_of(schema, ci):
            nprops += 1
            # document order: when the list a shortcut returns is filled inside nested loops and one of them walks the
            # members (`for x in self`), that loop is the outermost one - an outer loop over a table of wrapper classes
            # groups the result by class instead
            ret_names = {r_.value.id for r_ in own_nodes(fn) if isinstance(r_, ast.Return) and isinstance(r_.value, ast.Name)}
            for ap in [c_ for c_ in own_nodes(fn) if isinstance(c_, ast.Call) and isinstance(c_.func, ast.Attribute) and c_.func.attr in ("append", "extend") and isinstance(c_.func.value, ast.Name) and c_.func.value.id in ret_names]:
                chain = []
                par_ = parent(ap)
                while par_ is not None and par_ is not fn:
                    if isinstance(par_, ast.For):
                        chain.append(par_)
                    par_ = parent(par_)
                over_self = [lp for lp in chain if text(lp.iter) == "self"]
                if over_self and len(chain) > 1:
                    outer = chain[-1]
                    ok_ = text(outer.iter) == "self"
                    rep.check("A-R3", f"{cname}.{fn.name}:document-order", ok_, f"the members are walked inside an outer loop over {text(outer.iter)[:50]}: the result is grouped by that table instead of following the order of the members in the document" if not ok_ else "", f"{definer.mod.relpath}:{outer.lineno}")
            # a shortcut hands out the very objects the full path leads to - never copies of them (identity, and
            # writes through the shortcut, would be lost; every read would build new objects)
            bodies_ = [fn]
            for c_ in own_nodes(fn):
                if isinstance(c_, ast.Call) and isinstance(c_.func, ast.Name):
                    r_ = schema.p.resolve(definer.module, c_.func.id)
                    if getattr(r_, "node", None) is not None and isinstance(r_.node, ast.FunctionDef) and r_.node is not fn:
                        bodies_.append(r_.node)
            cp_ = next((c_ for b_ in bodies_ for c_ in ast.walk(b_) if isinstance(c_, ast.Call) and (text(c_.func) in ("copy", "deepcopy", "copy.copy", "copy.deepcopy")) and len(c_.args) == 1), None)
            if cp_ is not None:
                rep.check("A-R3", f"{cname}.{fn.name}:hands-out-the-objects-themselves", False, f"{text(cp_)[:40]}: the shortcut returns a copy, not the object that walking the full path yields - `ofx.statements[i] is ofx.<msgset>[i].<stmtrs>` fails, each read builds new objects, and a change made through the shortcut never reaches the tree", f"{definer.mod.relpath}:{cp_.lineno}")
            # what is collected is a statement: a local the function itself treats as possibly None (bound to None, or
            # tested against None somewhere) is appended only where `is not None` has been established
            if ret_names:
                from .loops import loop_views
                from .paths import canon_atom

                maybe_none = {t_.id for s_ in own_nodes(fn) if isinstance(s_, ast.Assign) and isinstance(s_.value, ast.Constant) and s_.value.value is None for t_ in s_.targets if isinstance(t_, ast.Name)}
                for c_ in own_nodes(fn):
                    if isinstance(c_, ast.Compare) and len(c_.ops) == 1 and isinstance(c_.ops[0], (ast.Is, ast.IsNot)) and isinstance(c_.left, ast.Name) and isinstance(c_.comparators[0], ast.Constant) and c_.comparators[0].value is None:
                        maybe_none.add(c_.left.id)
                for lv in loop_views(fn):
                    if lv.kind != "for":
                        continue
                    for it in lv.items:
                        nd = it.node
                        call = nd.value if isinstance(nd, ast.Expr) and isinstance(nd.value, ast.Call) else None
                        if call is None or not (isinstance(call.func, ast.Attribute) and call.func.attr == "append" and isinstance(call.func.value, ast.Name) and call.func.value.id in ret_names and len(call.args) == 1 and isinstance(call.args[0], ast.Name)):
                            continue
                        v_ = call.args[0].id
                        if v_ not in maybe_none or it.complex:
                            continue
                        a_none, pol = canon_atom(ast.parse(f"{v_} is None", mode="eval").body)
                        guarded = any(a == a_none and w != pol for a, w in it.filters) or any(a == v_ and w is True for a, w in it.filters)
                        rep.check("A-R3", f"{cname}.{fn.name}:collects-only-present({v_})", guarded, f"{text(call)} is reached without `{v_} is not None`: a wrapper that carries no statement (error response, {v_} absent) puts None into the list, and everything that walks .statements trips over it" if not guarded else "", f"{definer.mod.relpath}:{call.lineno}")
            try:
                fn_n = fn
                if any(isinstance(s_, (ast.Assign, ast.AnnAssign, ast.Return)) and isinstance(getattr(s_, "value", None), ast.IfExp) for s_ in ast.walk(fn)):
                    # `x = a if isinstance(...) else b` narrows like the if-statement it abbreviates
                    from . import canon as _canon
                    from .dataflow import clone as _clone

                    fn_n = _canon.ifexp_assignments_to_if(_clone(fn))
                if any(isinstance(s_, ast.Assign) and isinstance(s_.value, (ast.Call, ast.BoolOp, ast.UnaryOp)) and "isinstance(" in text(s_.value) for s_ in ast.walk(fn_n)):
                    # named type tests (`is_stmt = isinstance(t, STMTTRNRS)`) narrow like the tests they name
                    from . import canon as _canon2
                    from .dataflow import clone as _clone2

                    fn_n = _canon2.ifexp_assignments_to_if(_canon2.propagate_type_test_locals(_clone2(fn_n) if fn_n is fn else fn_n))
                nr = Narrower(schema, ci, definer, fn_n, rep).run()
            except AnalysisError as e:
                rep.undecided(f"A-R2 {cname}.{fn.name}", e)
                continue
            if nr.tested:
                tested_by.setdefault(fn.name, {})[cname] = nr.tested
            rep.unit("attribute_reads_typed", nr.reads)
            rep.unit("attribute_reads_unresolved", nr.unresolved)
            # A-R3 alias forms
            body = [s for s in fn.body if not (isinstance(s, ast.Expr) and isinstance(s.value, ast.Constant))]
            if len(body) == 1 and isinstance(body[0], ast.Return) and isinstance(body[0].value, ast.Attribute):
                v = body[0].value
                chain = []
                x = v
                while isinstance(x, ast.Attribute):
                    chain.append(x.attr)
                    x = x.value
                chain.reverse()
                if isinstance(x, ast.Name) and x.id == "self":
                    first = chain[0]
                    spec = schema.spec(ci)
                    lc = f"{definer.mod.relpath}:{fn.lineno}"
                    ch = spec.get(first)
                    rep.check("A-R3", f"{cname}.{fn.name}->self.{'.'.join(chain)}:declared", ch is not None, f"alias reads self.{first}, which {cname} does not declare" if ch is None else "", lc)
                    if ch is None:
                        continue
                    if fn.name in ALIAS_TABLE and len(chain) == 1:
                        pred, why = ALIAS_TABLE[fn.name]
                        tn = getattr(ch.target, "name", "")
                        rep.check("A-R3", f"{cname}.{fn.name}->self.{first}:kind", bool(ch.is_agg and pred(tn)), f"{cname}.{fn.name} returns self.{first} ({tn or ch.kind}); {why}", lc)
                    if fn.name in ("statement", "profile") and len(chain) == 1:
                        own = [c for c in schema.spec(ci).values() if c.owner is ci and c.kind == "SubAggregate"]
                        ok = len(own) == 1 and own[0].name == first
                        rep.check("A-R3", f"{cname}.{fn.name}->self.{first}:wrapped", ok, f"{cname}.{fn.name} returns self.{first}; the wrapper's own sub-aggregate is {[c.name for c in own]}" if not ok else "", lc)
                    if fn.name in ("org", "fid") and len(chain) == 2:
                        rep.check("A-R3", f"{cname}.{fn.name}->self.{'.'.join(chain)}:same-name", chain[-1] == fn.name, f"{fn.name} returns .{chain[-1]}", lc)
            # an alias is the child on EVERY path: `statement` / `profile` / `account` ... never answer None (or anything
            # else) while the child they stand for is there - e.g. depending on the wrapper's status
            if fn.name in ("statement", "profile") or fn.name in ALIAS_TABLE:
                rets_all = [x for x in own_nodes(fn) if isinstance(x, ast.Return)]
                alias_rets = [x for x in rets_all if isinstance(x.value, ast.Attribute) and isinstance(x.value.value, ast.Name) and x.value.value.id == "self"]
                other_rets = [x for x in rets_all if x not in alias_rets and (x.value is None or isinstance(x.value, ast.Constant))]
                if alias_rets and other_rets:
                    o_ = other_rets[0]
                    rep.check("A-R3", f"{cname}.{fn.name}:alias-on-every-path", False, f"{cname}.{fn.name} returns {text(o_.value) if o_.value is not None else 'None'} on a path although it is the alias of self.{alias_rets[0].value.attr}: when that child is present the shortcut no longer returns the object found on the full path", f"{definer.mod.relpath}:{o_.lineno}")
            # explicit raises in a shortcut are AttributeError: anything else escapes hasattr() / getattr(x, name, default)
            for r_ in [x for x in own_nodes(fn) if isinstance(x, ast.Raise) and x.exc is not None]:
                et = text(r_.exc.func) if isinstance(r_.exc, ast.Call) else text(r_.exc)
                if et.split(".")[-1] not in ("AttributeError",):
                    rep.check("A-R3", f"{cname}.{fn.name}:raises-only-AttributeError", False, f"{cname}.{fn.name} raises {et}: hasattr(obj, '{fn.name}') and getattr(obj, '{fn.name}', default) - also through an enclosing aggregate, whose __getattr__ only passes AttributeError on - raise instead of reporting a clean miss", f"{definer.mod.relpath}:{r_.lineno}")
            # a sub-aggregate is a list: without list members it is falsy even when it is there.  `return self.<child> or X`
            # therefore replaces a present (member-less) child by X - the shortcut is no longer the object on the full path
            for r_ in [x for x in own_nodes(fn) if isinstance(x, ast.Return) and isinstance(x.value, ast.BoolOp) and isinstance(x.value.op, ast.Or)]:
                first = r_.value.values[0]
                if isinstance(first, ast.Attribute) and isinstance(first.value, ast.Name) and first.value.id == "self":
                    ch = schema.spec(ci).get(first.attr)
                    if ch is not None and ch.kind == "SubAggregate":
                        rep.check("A-R3", f"{cname}.{fn.name}->self.{first.attr}:returned-as-it-is", False, f"returns `{text(r_.value)}`: a {getattr(ch.target, 'name', 'sub-aggregate')} that is present but holds no list members is falsy (Aggregate subclasses list), so the shortcut returns {text(r_.value.values[-1])} instead of the object on the full path (identity, type and its own fields are lost)", f"{definer.mod.relpath}:{r_.lineno}")
            # like-named final attribute for currency shortcuts
            if fn.name in ("cursym", "currate"):
                from .flat import flat
                from .match import Expander as _Ex
                from .paths import return_paths

                try:
                    ffn = flat(schema.p, definer.module, fn, definer)
                    rp, _pl = return_paths(ffn, None, _Ex(ffn))
                except AnalysisError as e:
                    rep.undecided(f"A-R3 {cname}.{fn.name}", e)
                    continue
                vals = [ast.parse(v, mode="eval").body for _q, v, _c in rp if v != "None"]
                wrong = [v for v in vals if isinstance(v, ast.Attribute) and v.attr != fn.name]
                right = [v for v in vals if isinstance(v, ast.Attribute) and v.attr == fn.name]
                if wrong or not vals:
                    rep.check("A-R3", f"{cname}.{fn.name}:same-name", False, f"{fn.name} returns {sorted({text(v) for v in wrong}) or None}, not .{fn.name} of the currency aggregate", f"{definer.mod.relpath}:{fn.lineno}")
                elif len(right) == len(vals):
                    rep.check("A-R3", f"{cname}.{fn.name}:same-name", True, "", f"{definer.mod.relpath}:{fn.lineno}")
                else:
                    rep.note(f"A-R3 undecided: {cname}.{fn.name} returns {sorted({text(v) for v in vals})}")
    rep.unit("shortcut_properties", nprops)
    rep.floor("A-R2", nprops, 40, "shortcut property instances")
    # request/response symmetry of `statements`
    st = tested_by.get("statements", {})
    npairs = 0
    for rq, tested in sorted(st.items()):
        if not rq.endswith("MSGSRQV1"):
            continue
        rs = rq.replace("MSGSRQV1", "MSGSRSV1")
        if rs not in st:
            continue
        npairs += 1
        rqc, rsc = schema.exported()[rq], schema.exported()[rs]
        rql = [c.target for c in schema.spec(rqc).values() if c.kind == "ListAggregate"]
        rsl = [c.target for c in schema.spec(rsc).values() if c.kind == "ListAggregate"]
        if len(rql) == len(rsl):
            pos_rq = sorted({rql.index(t) for t in tested if t in rql})
            pos_rs = sorted({rsl.index(t) for t in st[rs] if t in rsl})
            ok = pos_rq == pos_rs
            detail = f"{rq}.statements covers {[rql[i].name for i in pos_rq]} but {rs}.statements covers {[rsl[i].name for i in pos_rs]}"
        else:
            a = sorted({t.name[:-2] for t in tested})
            b = sorted({t.name[:-2] for t in st[rs]})
            ok = a == b
            detail = f"{rq}.statements covers {a}, {rs}.statements covers {b}"
        rep.check("A-R2", f"{rq}/{rs}:statements-coverage", ok, detail if not ok else "", f"{rqc.mod.relpath}:{rqc.node.lineno}")
    rep.floor("A-R2", npairs, 3, "request/response message-set pairs")


def a_r4_ofx(schema: Schema, rep: Report):
    rep.rule("A-R4", "OFX.statements names exactly the message-set children whose classes define `statements`, requests and responses each in spec (document) order, and extends the result in that order; OFX.securities reads the message set that defines `securities`")
    ofx = schema.exported().get("OFX")
    if ofx is None:
        raise AnalysisError("class OFX not exported")
    spec = schema.spec(ofx)
    rel = ofx.mod.relpath

    def defines(ci, name):
        return any(fn.name == name for _, fn in properties_of(schema, ci))

    fn = ofx.own_func("statements")
    if fn is None:
        raise AnalysisError("OFX.statements not found")
    loops = [s for s in own_statements(fn) if isinstance(s, ast.For) and isinstance(s.iter, (ast.Tuple, ast.List))]
    if not loops or not all(isinstance(e, ast.Constant) and isinstance(e.value, str) for e in loops[0].iter.elts):
        raise AnalysisError("A-R4: OFX.statements no longer iterates a constant tuple of child names")
    names = [e.value for e in loops[0].iter.elts]
    want = [k for k, ch in spec.items() if ch.kind == "SubAggregate" and isinstance(ch.target, ClassInfo) and defines(ch.target, "statements")]
    for nm in names:
        ch = spec.get(nm)
        ok = ch is not None and ch.kind == "SubAggregate" and isinstance(ch.target, ClassInfo) and defines(ch.target, "statements")
        rep.check("A-R4", f"OFX.statements:{nm}", ok, f"'{nm}' is not a child of OFX whose class defines `statements`" if not ok else "", f"{rel}:{loops[0].lineno}")
    missing = [w for w in want if w not in names]
    rep.check("A-R4", "OFX.statements:covers-all", not missing and len(set(names)) == len(names), f"message sets with statements not visited: {missing}; duplicates: {len(names) - len(set(names))}" if (missing or len(set(names)) != len(names)) else "", f"{rel}:{loops[0].lineno}")
    order = list(spec)
    for suffix in ("rqv1", "rsv1"):
        seq = [n for n in names if n.endswith(suffix) and n in order]
        ok = seq == sorted(seq, key=order.index)
        rep.check("A-R4", f"OFX.statements:order({suffix})", ok, f"visited {seq}; document order is {sorted(seq, key=order.index)}" if not ok else "", f"{rel}:{loops[0].lineno}")
    # body: msg = getattr(self, msgs, None); if msg: stmts.extend(msg.statements)
    var = loops[0].target.id if isinstance(loops[0].target, ast.Name) else None
    body_txt = [text(s) for s in loops[0].body]
    ext = [c for c in ast.walk(loops[0]) if isinstance(c, ast.Call) and isinstance(c.func, ast.Attribute) and c.func.attr in ("extend",) and c.args and isinstance(c.args[0], ast.Attribute) and c.args[0].attr == "statements"]
    ok = len(ext) == 1
    if ok:
        src = ext[0].args[0].value
        from .dataflow import local_defs

        ds = local_defs(fn).get(src.id, []) if isinstance(src, ast.Name) else []
        ok = any(d.kind == "assign" and text(d.value) in (f"getattr(self, {var}, None)", f"getattr(self, {var})") for d in ds)
    rep.check("A-R4", "OFX.statements:extends-in-order", ok, "each visited message set's statements must be appended whole, in order (stmts.extend(getattr(self, name).statements))" if not ok else "", f"{rel}:{loops[0].lineno}")
    rets = [r for r in own_nodes(fn) if isinstance(r, ast.Return)]
    recv = text(ext[0].func.value) if ext else None
    ok = bool(rets) and all(r.value is not None and text(r.value) == recv for r in rets)
    rep.check("A-R4", "OFX.statements:returns-accumulator", ok, "" if ok else "does not return the accumulated list", f"{rel}:{fn.lineno}")
    # securities
    fn = ofx.own_func("securities")
    if fn is None:
        raise AnalysisError("OFX.securities not found")
    gets = [c for c in own_nodes(fn) if isinstance(c, ast.Call) and isinstance(c.func, ast.Name) and c.func.id == "getattr" and len(c.args) >= 2 and isinstance(c.args[1], ast.Constant)]
    attrs = [c.args[1].value for c in gets] + [a.attr for a in own_nodes(fn) if isinstance(a, ast.Attribute) and text(a.value) == "self"]
    want = [k for k, ch in spec.items() if ch.kind == "SubAggregate" and isinstance(ch.target, ClassInfo) and defines(ch.target, "securities")]
    ok = bool(attrs) and sorted(set(attrs)) == sorted(want)
    rep.check("A-R4", "OFX.securities:source", ok, f"reads {attrs}; message sets defining `securities`: {want}" if not ok else "", f"{rel}:{fn.lineno}")


def a_r5_recomputed_and_picklable(schema: Schema, rep: Report):
    """shortcuts are recomputed on every read; every object that ends up inside a model can be pickled"""
    p = schema.p
    rep.rule("A-R5", "shortcuts follow the tree as it is NOW: no shortcut of a model class is cached (functools.cached_property / lru_cache / cache) - a cached list is frozen at the first read (or the first repr()) and no longer contains what walking the full path finds once the tree has changed")
    n = 0
    for cname, ci in schema.exported().items():
        for c in ci.repo_mro:
            if c is schema.aggregate or c is schema.elementlist:
                continue
            for name, (kind, node) in c.attrs.items():
                if kind != "func":
                    continue
                for dec in node.decorator_list:
                    dn = (ast.unparse(dec.func) if isinstance(dec, ast.Call) else ast.unparse(dec)).split(".")[-1]
                    if dn in ("cached_property", "lru_cache", "cache"):
                        n += 1
                        rep.check("A-R5", f"{c.name}.{name}:not-cached", False, f"{c.name}.{name} is decorated with {dn}: its first result is kept for the life of the instance, so after the tree changes the shortcut no longer returns the objects found by walking the full path", f"{c.mod.relpath}:{node.lineno}")
    if n == 0:
        rep.check("A-R5", "no-cached-shortcuts", True, "", "")
    rep.rule("A-R6", "every object a model can hold is picklable by reference to a module-level class: the tzinfo bound to utils.UTC (carried by every date/time value) is not an instance of a class defined inside a function - pickle cannot locate '<locals>' classes, so pickling any model that holds a date fails")
    UTILS_ = "ofxtools.utils"
    m = p.module(UTILS_)
    local_classes = {}
    for f in ast.walk(m.tree):
        if isinstance(f, (ast.FunctionDef, ast.AsyncFunctionDef)):
            for x in ast.walk(f):
                if isinstance(x, ast.ClassDef):
                    local_classes[x.name] = (f, x)
    bad = None
    for st in ast.walk(m.tree):
        if isinstance(st, ast.Assign) and any(isinstance(t, ast.Name) and t.id == "UTC" for t in st.targets) and isinstance(st.value, ast.Call):
            callee = st.value.func
            if isinstance(callee, ast.Name) and callee.id in local_classes:
                bad = (callee.id, st)
            elif isinstance(callee, ast.Name):
                # UTC = factory(): what does the factory return?
                for f in ast.walk(m.tree):
                    if isinstance(f, ast.FunctionDef) and f.name == callee.id:
                        for r in ast.walk(f):
                            if isinstance(r, ast.Return) and isinstance(r.value, ast.Call) and isinstance(r.value.func, ast.Name) and r.value.func.id in local_classes and local_classes[r.value.func.id][0] is f:
                                bad = (r.value.func.id, r)
    rep.check("A-R6", "utils.UTC:class-at-module-level", bad is None, f"utils.UTC can be an instance of {bad[0]}, a class defined inside a function: pickle raises \"Can't pickle local object\" for every model holding a date or time" if bad else "", f"{m.relpath}:{bad[1].lineno if bad else 1}")


def a_r6b_classes_defined_where_they_live(schema: Schema, rep: Report):
    """pickle finds a class by module and name"""
    from .source import Func as _Func

    rep.rule("A-R6b", "every model class is picklable by reference: a module-level name of a models module that is bound to a class built by a FACTORY (`X = make(\"X\", ..)` whose body returns type(name, bases, ns)) gets the `__module__` of the module type() was called in - the factory's, where the name is not bound - unless the namespace sets `__module__`: pickle.dumps of any model holding such an aggregate fails with `attribute lookup X on <factory module> failed` (copy / deepcopy still work)")
    p = schema.p
    n = 0
    for modname, m in sorted(p.modules.items()):
        if not modname.startswith("ofxtools.models"):
            continue
        for st in m.tree.body:
            if not (isinstance(st, ast.Assign) and len(st.targets) == 1 and isinstance(st.targets[0], ast.Name) and isinstance(st.value, ast.Call)):
                continue
            callee = st.value.func
            r = p.resolve(modname, callee.id) if isinstance(callee, ast.Name) else None
            if not isinstance(r, _Func) or r.module == modname:
                continue
            makes = [x for x in ast.walk(r.node) if isinstance(x, ast.Call) and isinstance(x.func, ast.Name) and x.func.id == "type" and len(x.args) == 3]
            if not makes:
                continue
            n += 1
            sets_module = any(isinstance(x, ast.Constant) and x.value == "__module__" for mk in makes for x in ast.walk(mk.args[2])) or any(isinstance(x, ast.Attribute) and x.attr == "__module__" and isinstance(getattr(x, "ctx", None), ast.Store) for x in ast.walk(r.node))
            rep.check("A-R6b", f"{modname}:{st.targets[0].id}:defined-where-it-lives", sets_module, f"{st.targets[0].id} is built by {r.module}.{callee.id}() through type(): its __module__ is {r.module}, where no `{st.targets[0].id}` exists - pickling a model that holds one fails" if not sets_module else "", f"{m.relpath}:{st.lineno}")
    rep.unit("factory_built_classes", n)
    rep.check("A-R6b", "models:classes-defined-where-they-live", True, "", f"{n} factory-built classes")


def a_r9_default_copy_protocol(schema: Schema, rep: Report):
    """copy / deepcopy / pickle reproduce the instance as it is"""
    rep.rule("A-R9", "copy, deepcopy and pickle reproduce an equal model through the default protocol (the instance dict and the list members, untouched): no model class - Aggregate included - defines __reduce__ / __reduce_ex__ / __copy__ / __deepcopy__ / __getnewargs(_ex)__ / __setstate__ that sends the stored values through the class constructor again (values would be converted a second time - `&amp;amp;` decoded twice - and whatever lives only in the instance dict, such as the stapled trnuid / cltcookie, would be lost)")
    HOOKS = ("__reduce__", "__reduce_ex__", "__copy__", "__deepcopy__", "__getnewargs__", "__getnewargs_ex__", "__setstate__", "__getstate__")
    p = schema.p
    n = 0
    seen = set()
    classes = [schema.aggregate, schema.elementlist] + list(schema.exported().values())
    for ci in classes:
        if ci is None or id(ci) in seen:
            continue
        seen.add(id(ci))
        for hook in HOOKS:
            fn = ci.own_func(hook)
            if fn is None:
                continue
            n += 1
            rebuilds = None
            for r in [x for x in own_nodes(fn) if isinstance(x, ast.Return) and x.value is not None]:
                v = r.value
                # (callable, args...) whose callable constructs the class, or a direct cls(...) / type(self)(...)
                cands = []
                if isinstance(v, ast.Tuple) and v.elts:
                    cands.append(v.elts[0])
                if isinstance(v, ast.Call):
                    cands.append(v.func)
                for c in cands:
                    t = text(c)
                    if t in ("self.__class__", "type(self)", "cls", ci.name):
                        rebuilds = t
                    elif isinstance(c, ast.Name):
                        tgt = p.resolve(ci.module, c.id)
                        node = getattr(tgt, "node", None)
                        if isinstance(node, ast.FunctionDef) and any(isinstance(x, ast.Call) and isinstance(x.func, ast.Name) and x.func.id in params_of(node)[:1] for x in ast.walk(node)):
                            rebuilds = f"{c.id}() -> {params_of(node)[0]}(...)"
            # a __getstate__ that leaves entries of the instance dict out (a filter on the values) is only half of a pair:
            # every slot __init__ fills (spec_no_listaggregates: elements AND sub-aggregates) has to be back after
            # __setstate__, or reading the slot on the copy raises KeyError where the original answers None
            if hook == "__getstate__" and rebuilds is None:
                filt = [x for x in ast.walk(fn) if isinstance(x, (ast.DictComp,)) and any(g.ifs for g in x.generators)] or [x for x in ast.walk(fn) if isinstance(x, ast.Call) and isinstance(x.func, ast.Attribute) and x.func.attr in ("pop", "popitem")] or [x for x in ast.walk(fn) if isinstance(x, ast.Delete)]
                if filt:
                    ss = ci.own_func("__setstate__")
                    restores_all = ss is not None and any(isinstance(x, ast.Attribute) and x.attr in ("spec_no_listaggregates",) for x in ast.walk(ss))
                    rep.check("A-R9", f"{ci.name}.__getstate__:dropped-slots-restored", restores_all, f"{ci.name}.__getstate__ leaves entries of the instance dict out ({text(filt[0])[:50]}) and " + ("no __setstate__ puts them back" if ss is None else "__setstate__ does not restore every slot __init__ fills (spec_no_listaggregates - sub-aggregates included)") + ": on a copy / unpickled instance an absent optional sub-aggregate (a statement without AVAILBAL) raises KeyError where the original returns None, and repr() / to_etree() of the copy fail" if not restores_all else "", f"{ci.mod.relpath}:{fn.lineno}")
                    continue
            if rebuilds is not None:
                rep.check("A-R9", f"{ci.name}.{hook}:keeps-stored-values", False, f"{ci.name}.{hook} rebuilds the copy through the class constructor ({rebuilds}): every stored value is converted a second time (text that still looks like an entity changes) and attributes that live only in the instance dict are dropped - the copy is not equal to the original", f"{ci.mod.relpath}:{fn.lineno}")
            else:
                rep.note(f"A-R9 undecided: {ci.name} defines {hook}; whether it reproduces the instance was not decided")
    if n == 0:
        rep.check("A-R9", "models:default-copy-protocol", True, "no model class customises copying / pickling", "")


def a_r3c_statement_shortcut_of_every_statement_wrapper(schema: Schema, rep: Report):
    """the wrapper of a statement answers .statement with the statement"""
    from .fold import fold
    from .source import UNK

    rep.rule("A-R3c", "every response wrapper whose own sub-aggregate is a statement (<X>STMT[END]TRNRS with the single child <x>stmt[end]rs) answers `.statement` with that child, wherever the property is defined: a direct `return self.<child>`, or a generic property of a base class whose selection test (name.endswith(..) / in / ==) - folded for the child's own name - picks it.  A generic `endswith('stmtrs')` picks stmtrs, ccstmtrs, invstmtrs but not ccstmtendrs: CCSTMTENDTRNRS.statement then raises AttributeError (hasattr False) although the closing statement is there")
    n = 0
    # the wrappers that HAVE the shortcut on the tree this checker was written against (confirmed by reading; STMTENDTRNRS
    # has none - its statement is read as .stmtendrs): the reference for later changes
    HAVE = ("STMTTRNRS", "CCSTMTTRNRS", "CCSTMTENDTRNRS", "INVSTMTTRNRS")
    for cname, ci in sorted(schema.exported().items()):
        if cname not in HAVE:
            continue
        own = [nm for nm, ch in schema.spec(ci).items() if ch.kind == "SubAggregate" and ch.owner is ci and "stmt" in nm and nm.endswith("rs")]
        if len(own) != 1:
            continue
        child = own[0]
        definer = ci.definer("statement")
        if definer is None:
            rep.check("A-R3c", f"{cname}.statement->{child}", False, f"{cname} has no `statement` shortcut although it wraps {child.upper()}", f"{ci.mod.relpath}:{ci.node.lineno}")
            continue
        fn = definer.own_func("statement")
        if fn is None:
            continue
        n += 1
        rets = [r for r in ast.walk(fn) if isinstance(r, ast.Return) and r.value is not None]
        direct = any(text(r.value) == f"self.{child}" for r in rets)
        if direct:
            rep.check("A-R3c", f"{cname}.statement->{child}", True, "", f"{definer.mod.relpath}:{fn.lineno}")
            continue
        # generic form: for <n> in self.subaggregates: if <test(n)>: return getattr(self, n)
        verdict = None
        for lp in [x for x in ast.walk(fn) if isinstance(x, ast.For) and isinstance(x.target, ast.Name) and "subaggregates" in text(x.iter)]:
            for iff in [x for x in ast.walk(lp) if isinstance(x, ast.If)]:
                if not any(isinstance(r, ast.Return) for r in ast.walk(iff)):
                    continue
                t = iff.test
                val = UNK
                if isinstance(t, ast.Call) and isinstance(t.func, ast.Attribute) and text(t.func.value) == lp.target.id and t.func.attr in ("endswith", "startswith") and t.args:
                    a0 = fold(t.args[0], {}, schema.p, definer.module)
                    if isinstance(a0, (str, tuple)):
                        val = getattr(child, t.func.attr)(a0)
                elif isinstance(t, ast.Compare) and len(t.ops) == 1 and text(t.left) == lp.target.id:
                    rhs = fold(t.comparators[0], {}, schema.p, definer.module)
                    if rhs is not UNK:
                        val = (child in rhs) if isinstance(t.ops[0], ast.In) and isinstance(rhs, (tuple, list, str)) else ((child == rhs) if isinstance(t.ops[0], ast.Eq) else UNK)
                if val is not UNK:
                    verdict = bool(val) if verdict is None else (verdict or bool(val))
        if verdict is None:
            rep.note(f"A-R3c undecided: how {definer.name}.statement selects the statement of {cname} was not recognised")
        else:
            rep.check("A-R3c", f"{cname}.statement->{child}", verdict, f"{definer.name}.statement selects the wrapped statement by a test on the child's name that `{child}` does not pass: {cname}.statement raises AttributeError (hasattr False, getattr default) although {child.upper()} is present" if not verdict else "", f"{definer.mod.relpath}:{fn.lineno}")
    rep.floor("A-R3c", n, 4, "statement wrappers")
