"""E3 - statement-level control-flow graph with may-raise edges inside `try`, and path queries."""
from __future__ import annotations

import ast
from collections import defaultdict, deque
from typing import Callable, Dict, Iterable, List, Optional, Set

from .source import AnalysisError


class Node:
    __slots__ = ("id", "kind", "stmt", "label")

    def __init__(self, id, kind, stmt=None, label=""):
        self.id, self.kind, self.stmt, self.label = id, kind, stmt, label

    def __repr__(self):
        ln = getattr(self.stmt, "lineno", "")
        return f"<{self.id}:{self.kind}:{ln}:{self.label}>"

    # The expressions evaluated *at* this node (not nested blocks)
    def exprs(self) -> List[ast.AST]:
        st = self.stmt
        if st is None:
            return []
        if self.kind == "test":
            return [st.test]
        if self.kind == "loop":
            return [st.iter] if hasattr(st, "iter") else [st.test]
        if self.kind == "looptarget":
            return [st.target]
        if self.kind == "with":
            out = []
            for i in st.items:
                out.append(i.context_expr)
                if i.optional_vars is not None:
                    out.append(i.optional_vars)
            return out
        if self.kind == "except":
            return [st.type] if st.type is not None else []
        if self.kind in ("join", "handlers", "entry", "exit", "raise"):
            return []
        if isinstance(st, (ast.FunctionDef, ast.AsyncFunctionDef, ast.ClassDef)):
            return list(st.decorator_list)
        return [st]

    def calls(self) -> List[ast.Call]:
        out = []
        for e in self.exprs():
            for x in ast.walk(e):
                if isinstance(x, ast.Call):
                    out.append(x)
        return out


class CFG:
    def __init__(self, fn: ast.AST):
        self.fn = fn
        self.nodes: List[Node] = []
        self.succ: Dict[int, Set[tuple]] = defaultdict(set)  # id -> {(id, edgelabel)}
        self.entry = self._new("entry")
        self.exit = self._new("exit")  # normal return
        self.raise_exit = self._new("raise")  # exceptional exit
        self._loop: List[tuple] = []
        self._handlers: List[Optional[int]] = []
        self.by_stmt: Dict[int, List[Node]] = defaultdict(list)
        ends = self._block(fn.body, [self.entry.id])
        for e in ends:
            self._edge(e, self.exit.id, "fallthrough")

    def _new(self, kind, stmt=None, label=""):
        n = Node(len(self.nodes), kind, stmt, label)
        self.nodes.append(n)
        if stmt is not None:
            self.by_stmt[id(stmt)].append(n)
        return n

    def _edge(self, a, b, label=""):
        self.succ[a].add((b, label))

    def _raise_target(self):
        for h in reversed(self._handlers):
            if h is not None:
                return h
        return self.raise_exit.id

    def _block(self, stmts, preds):
        for st in stmts:
            preds = self._stmt(st, preds)
        return preds

    def _stmt(self, st, preds):
        if isinstance(st, ast.If):
            t = self._new("test", st, _u(st.test))
            for p in preds:
                self._edge(p, t.id)
            self._maybe_raise(t.id)
            tb = self._new("join", st, "then")
            self._edge(t.id, tb.id, "true")
            then_ends = self._block(st.body, [tb.id])
            fb = self._new("join", st, "else")
            self._edge(t.id, fb.id, "false")
            else_ends = self._block(st.orelse, [fb.id])
            return then_ends + else_ends
        if isinstance(st, (ast.For, ast.AsyncFor, ast.While)):
            head = self._new("loop", st, _u(st.iter if hasattr(st, "iter") else st.test))
            for p in preds:
                self._edge(p, head.id)
            self._maybe_raise(head.id)
            after = self._new("join", st, "after-loop")
            self._loop.append((head.id, after.id))
            body_in = self._new("looptarget" if hasattr(st, "target") else "join", st, "body")
            self._edge(head.id, body_in.id, "iter" if hasattr(st, "iter") else "true")
            body_ends = self._block(st.body, [body_in.id])
            for e in body_ends:
                self._edge(e, head.id, "back")
            self._loop.pop()
            else_in = self._new("join", st, "loop-else")
            always = isinstance(st, ast.While) and isinstance(st.test, ast.Constant) and bool(st.test.value)
            if not always:
                self._edge(head.id, else_in.id, "exhausted" if hasattr(st, "iter") else "false")
            else_ends = self._block(st.orelse, [else_in.id])
            for e in else_ends:
                self._edge(e, after.id)
            return [after.id]
        if isinstance(st, ast.Try) or type(st).__name__ == "TryStar":
            hentry = self._new("handlers", st)
            self._handlers.append(hentry.id)
            body_ends = self._block(st.body, preds)
            self._handlers.pop()
            else_ends = self._block(st.orelse, body_ends)
            ends = list(else_ends)
            caught_all = False
            for h in st.handlers:
                hn = self._new("except", h, _u(h.type) if h.type else "*")
                self._edge(hentry.id, hn.id, "caught")
                ends += self._block(h.body, [hn.id])
                if h.type is None or _u(h.type) in ("Exception", "BaseException"):
                    caught_all = True
            if st.finalbody:
                fin = self._new("join", st, "finally")
                for e in ends:
                    self._edge(e, fin.id)
                if not caught_all:
                    # exceptional pass through the finally block, then onwards to the outer handler
                    self._edge(hentry.id, fin.id, "unhandled")
                ends = self._block(st.finalbody, [fin.id])
                if not caught_all:
                    for e in ends:
                        self._edge(e, self._raise_target(), "reraise")
            elif not caught_all:
                self._edge(hentry.id, self._raise_target(), "unhandled")
            return ends
        if isinstance(st, (ast.With, ast.AsyncWith)):
            w = self._new("with", st, ", ".join(_u(i.context_expr) for i in st.items))
            for p in preds:
                self._edge(p, w.id)
            self._maybe_raise(w.id)
            return self._block(st.body, [w.id])
        if type(st).__name__ == "Match":
            raise AnalysisError("match statements are not modelled by the CFG")
        n = self._new(type(st).__name__.lower(), st, _u(st)[:80])
        for p in preds:
            self._edge(p, n.id)
        if isinstance(st, ast.Return):
            self._maybe_raise(n.id)
            self._edge(n.id, self.exit.id, "return")
            return []
        if isinstance(st, ast.Raise):
            self._edge(n.id, self._raise_target(), "raise")
            return []
        if isinstance(st, ast.Break):
            self._edge(n.id, self._loop[-1][1], "break")
            return []
        if isinstance(st, ast.Continue):
            self._edge(n.id, self._loop[-1][0], "continue")
            return []
        if isinstance(st, ast.Assert):
            self._edge(n.id, self._raise_target(), "assert-fail")
        self._maybe_raise(n.id)
        return [n.id]

    def _maybe_raise(self, nid):
        if self._handlers and self._handlers[-1] is not None:
            self._edge(nid, self._handlers[-1], "may-raise")

    # ---- queries -------------------------------------------------------
    def reachable(self, start, blocked=(), edge_filter=None) -> Set[int]:
        seen, dq = {start}, deque([start])
        blocked = set(blocked)
        if start in blocked:
            return set()
        while dq:
            a = dq.popleft()
            for b, lab in self.succ[a]:
                if b in blocked or b in seen:
                    continue
                if edge_filter and not edge_filter(self.nodes[a], self.nodes[b], lab):
                    continue
                seen.add(b)
                dq.append(b)
        return seen

    def find(self, pred: Callable[[Node], bool]) -> List[Node]:
        return [n for n in self.nodes if n.stmt is not None and pred(n)]

    def nodes_calling(self, pred: Callable[[ast.Call], bool]) -> List[Node]:
        return [n for n in self.nodes if any(pred(c) for c in n.calls())]

    def node_of(self, stmt) -> Optional[Node]:
        ns = self.by_stmt.get(id(stmt))
        return ns[0] if ns else None

    def must_pass_through(self, target_ids: Iterable[int], via_ids: Iterable[int], edge_filter=None, start=None) -> bool:
        """every path start -> any target passes through some via node"""
        r = self.reachable(self.entry.id if start is None else start, blocked=via_ids, edge_filter=edge_filter)
        return not (r & set(target_ids))

    def dominated_by(self, target_id: int, via_ids: Iterable[int], edge_filter=None) -> bool:
        return self.must_pass_through([target_id], via_ids, edge_filter)

    def can_reach(self, src_ids: Iterable[int], dst_ids: Iterable[int], edge_filter=None, blocked=()) -> bool:
        dst = set(dst_ids)
        for s in src_ids:
            if self.reachable(s, blocked=blocked, edge_filter=edge_filter) & dst:
                return True
        return False

    def return_nodes(self) -> List[Node]:
        """nodes with an edge to the normal exit"""
        out = []
        for n in self.nodes:
            if any(b == self.exit.id for b, _ in self.succ[n.id]):
                out.append(n)
        return out

    def normal_only(self):
        """edge filter excluding exceptional edges (may-raise, raise, assert-fail, unhandled)"""

        def f(a, b, lab):
            return lab not in ("may-raise", "raise", "assert-fail", "unhandled", "reraise", "caught")

        return f


def _u(node):
    try:
        return ast.unparse(node)
    except Exception:  # pragma: no cover
        return "?"


def truth_under(test, flagvals) -> Optional[bool]:
    """three-valued truth of a test expression given assumed values of names / dotted names"""
    if isinstance(test, ast.Name) and test.id in flagvals:
        return bool(flagvals[test.id])
    if isinstance(test, (ast.Attribute, ast.Subscript, ast.Call)):
        d = _u(test)
        if d in flagvals:
            return bool(flagvals[d])
    if isinstance(test, ast.Constant):
        return bool(test.value)
    if isinstance(test, ast.UnaryOp) and isinstance(test.op, ast.Not):
        t = truth_under(test.operand, flagvals)
        return None if t is None else (not t)
    if isinstance(test, ast.BoolOp):
        vals = [truth_under(v, flagvals) for v in test.values]
        if isinstance(test.op, ast.And):
            if any(v is False for v in vals):
                return False
            if all(v is True for v in vals):
                return True
        else:
            if any(v is True for v in vals):
                return True
            if all(v is False for v in vals):
                return False
        return None
    if isinstance(test, ast.Compare) and len(test.ops) == 1:
        l, r = test.left, test.comparators[0]
        op = test.ops[0]
        lk = _u(l)
        if lk in flagvals and isinstance(r, ast.Constant):
            lv = flagvals[lk]
            if isinstance(op, (ast.Is, ast.Eq)):
                return lv is r.value if isinstance(op, ast.Is) else lv == r.value
            if isinstance(op, (ast.IsNot, ast.NotEq)):
                return lv is not r.value if isinstance(op, ast.IsNot) else lv != r.value
    return None


def assume(flagvals, combine=None):
    """edge filter pruning branches contradicted by assumed boolean names"""

    def f(a, b, lab):
        if combine is not None and not combine(a, b, lab):
            return False
        if a.kind == "test" and lab in ("true", "false"):
            t = truth_under(a.stmt.test, flagvals)
            if t is not None and ((lab == "true") != t):
                return False
        if a.kind == "assert" and lab == "assert-fail":
            t = truth_under(a.stmt.test, flagvals)
            if t is True:
                return False
        return True

    return f
