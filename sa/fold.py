"""Constant folding of the small expression language option tables are written in: string / tuple literals,
names bound in an environment or at module level, slicing and indexing, len(), the pure str methods, '+', f-strings.
Returns source.UNK for anything else.  Nothing of the analysed program is executed."""
from __future__ import annotations

import ast
from typing import Dict, Optional

from .source import UNK, Project

_STR_METHODS = {"upper", "lower", "strip", "lstrip", "rstrip", "title", "capitalize", "casefold", "removeprefix", "removesuffix", "replace", "zfill"}


def _ok(v) -> bool:
    return v is not UNK and isinstance(v, (str, int, bool, type(None), tuple, list, float))


def fold(e, env: Optional[Dict[str, object]] = None, p: Optional[Project] = None, modname: Optional[str] = None):
    env = env or {}
    if isinstance(e, ast.Constant):
        return e.value
    if isinstance(e, ast.Name):
        if e.id in env:
            return env[e.id]
        if p is not None and modname is not None and p.has_binding(modname, e.id):
            v = p.resolve(modname, e.id)
            if _ok(v):
                return v
            # a module-level name bound once to a foldable expression (concatenation / join of other constants)
            binds = [payload for bname, kind, payload in p.modules[modname].bindings if bname == e.id and kind == "assign"]
            depth = env.get("__depth__", 0) if isinstance(env, dict) else 0
            if len(binds) == 1 and isinstance(binds[0], ast.AST) and depth < 8:
                return fold(binds[0], {"__depth__": depth + 1}, p, modname)
            return UNK
        return UNK
    if isinstance(e, (ast.Tuple, ast.List)):
        out = []
        for x in e.elts:
            if isinstance(x, ast.Starred):
                v = fold(x.value, env, p, modname)
                if not isinstance(v, (tuple, list)):
                    return UNK
                out.extend(v)
            else:
                v = fold(x, env, p, modname)
                if v is UNK:
                    return UNK
                out.append(v)
        return tuple(out)
    if isinstance(e, (ast.GeneratorExp, ast.ListComp)) and len(e.generators) == 1 and not e.generators[0].ifs:
        g_ = e.generators[0]
        it_ = fold(g_.iter, env, p, modname)
        if not isinstance(it_, (tuple, list)) or len(it_) > 200:
            return UNK
        out_ = []
        for item in it_:
            env2 = dict(env)
            if isinstance(g_.target, ast.Name):
                env2[g_.target.id] = item
            elif isinstance(g_.target, ast.Tuple) and isinstance(item, (tuple, list)) and len(item) == len(g_.target.elts) and all(isinstance(t_, ast.Name) for t_ in g_.target.elts):
                for t_, v_ in zip(g_.target.elts, item):
                    env2[t_.id] = v_
            else:
                return UNK
            v = fold(e.elt, env2, p, modname)
            if v is UNK:
                return UNK
            out_.append(v)
        return tuple(out_)
    if isinstance(e, ast.JoinedStr):
        s = ""
        for part in e.values:
            if isinstance(part, ast.Constant):
                s += str(part.value)
            elif isinstance(part, ast.FormattedValue) and part.format_spec is None and part.conversion == -1:
                v = fold(part.value, env, p, modname)
                if not isinstance(v, (str, int)) or isinstance(v, bool):
                    return UNK
                s += str(v)
            else:
                return UNK
        return s
    if isinstance(e, ast.BinOp) and isinstance(e.op, ast.Add):
        l, r = fold(e.left, env, p, modname), fold(e.right, env, p, modname)
        if isinstance(l, str) and isinstance(r, str):
            return l + r
        if isinstance(l, (tuple, list)) and isinstance(r, (tuple, list)):
            return tuple(l) + tuple(r)
        if isinstance(l, int) and isinstance(r, int) and not isinstance(l, bool) and not isinstance(r, bool):
            return l + r
        return UNK
    if isinstance(e, ast.UnaryOp) and isinstance(e.op, ast.USub):
        v = fold(e.operand, env, p, modname)
        return -v if isinstance(v, int) and not isinstance(v, bool) else UNK
    if isinstance(e, ast.Subscript):
        base = fold(e.value, env, p, modname)
        if not isinstance(base, (str, tuple, list)):
            return UNK
        sl = e.slice
        if isinstance(sl, ast.Slice):
            parts = []
            for x in (sl.lower, sl.upper, sl.step):
                if x is None:
                    parts.append(None)
                else:
                    v = fold(x, env, p, modname)
                    if not isinstance(v, int) or isinstance(v, bool):
                        return UNK
                    parts.append(v)
            return base[slice(*parts)]
        i = fold(sl, env, p, modname)
        if isinstance(i, int) and not isinstance(i, bool) and -len(base) <= i < len(base):
            return base[i]
        return UNK
    if isinstance(e, ast.Call):
        if isinstance(e.func, ast.Name) and e.func.id == "len" and len(e.args) == 1 and not e.keywords:
            v = fold(e.args[0], env, p, modname)
            return len(v) if isinstance(v, (str, tuple, list)) else UNK
        if isinstance(e.func, ast.Name) and e.func.id in ("tuple", "list", "sorted", "reversed") and len(e.args) == 1 and not e.keywords:
            v = fold(e.args[0], env, p, modname)
            if isinstance(v, (tuple, list)):
                return tuple(sorted(v)) if e.func.id == "sorted" else (tuple(reversed(v)) if e.func.id == "reversed" else tuple(v))
            return UNK
        if isinstance(e.func, ast.Name) and e.func.id == "str" and len(e.args) == 1:
            v = fold(e.args[0], env, p, modname)
            return str(v) if isinstance(v, (str, int)) and not isinstance(v, bool) else UNK
        if isinstance(e.func, ast.Attribute) and e.func.attr == "join" and len(e.args) == 1 and not e.keywords:
            sep = fold(e.func.value, env, p, modname)
            parts = fold(e.args[0], env, p, modname)
            if isinstance(sep, str) and isinstance(parts, (tuple, list)) and all(isinstance(x, str) for x in parts):
                return sep.join(parts)
            return UNK
        # a module-level helper that is ONE expression of its parameters (`def frag(name, value): return rf"..{name}.."`):
        # the expression folded with the parameters bound to the folded arguments
        if isinstance(e.func, ast.Name) and p is not None and modname is not None and not e.keywords and (env.get("__calls__", 0) if isinstance(env, dict) else 0) < 4:
            try:
                fd_ = p.get_function(modname, e.func.id).node
            except Exception:
                fd_ = None
            if fd_ is not None and not fd_.args.vararg and not fd_.args.kwarg:
                body_ = [s_ for s_ in fd_.body if not (isinstance(s_, ast.Expr) and isinstance(s_.value, ast.Constant))]
                ps_ = [a_.arg for a_ in fd_.args.args]
                if len(body_) == 1 and isinstance(body_[0], ast.Return) and body_[0].value is not None and len(ps_) == len(e.args):
                    vals_ = [fold(a_, env, p, modname) for a_ in e.args]
                    if all(_ok(v_) for v_ in vals_):
                        env2 = dict(zip(ps_, vals_))
                        env2["__calls__"] = (env.get("__calls__", 0) if isinstance(env, dict) else 0) + 1
                        return fold(body_[0].value, env2, p, modname)
        if isinstance(e.func, ast.Attribute) and e.func.attr in _STR_METHODS and not e.keywords:
            base = fold(e.func.value, env, p, modname)
            args = [fold(a, env, p, modname) for a in e.args]
            if isinstance(base, str) and all(isinstance(a, (str, int)) for a in args):
                try:
                    return getattr(base, e.func.attr)(*args)
                except Exception:
                    return UNK
        return UNK
    return UNK
