"""Tokenizer rules X-R1..6 (C02) and builder typestate rules P-R1..4 (C08) for ofxtools/Parser.py."""
from __future__ import annotations

import ast
import re
from typing import List, Optional, Set, Tuple

from . import rx
from .cfg import CFG
from .dataflow import Reaching, local_defs, own_nodes, own_statements, params_of, resolve_values
from .match import Expander, is_super_call, norm, text
from .report import Report
from .source import AnalysisError, ClassInfo, Project, dotted, parent

PARSER = "ofxtools.Parser"


def ploc(p: Project, node):
    return f"{p.module(PARSER).relpath}:{getattr(node, 'lineno', '?')}"


def builder(p: Project) -> ClassInfo:
    return p.get_class(PARSER, "TreeBuilder")


def _raises_parse_error(stmts) -> bool:
    return any(isinstance(s, ast.Raise) and s.exc is not None and "ParseError" in text(s.exc) for st in stmts for s in ast.walk(st))


def _fm(ci: ClassInfo, name: str):
    """the method with the class's private helpers inlined (the bookkeeping may live in a helper)"""
    from .flat import flat

    f = ci.own_func(name)
    if f is None:
        return None
    cache = ci.project.__dict__.setdefault("_flat_parser_methods", {})
    key = (ci.name, name)
    if key not in cache:
        cache[key] = flat(ci.project, ci.module, f, ci)
    return cache[key]


def open_container(ci: ClassInfo) -> Optional[str]:
    """name of the instance container that start() pushes to and end() pops from (aliases expanded)"""
    st, en = _fm(ci, "start"), _fm(ci, "end")
    if st is None or en is None:
        return None
    sx, exn = Expander(st), Expander(en)
    pushes = {sx.t(c.func.value) for c in own_nodes(st) if isinstance(c, ast.Call) and isinstance(c.func, ast.Attribute) and c.func.attr == "append" and sx.t(c.func.value).startswith("self.")}
    pops = {exn.t(c.func.value) for c in own_nodes(en) if isinstance(c, ast.Call) and isinstance(c.func, ast.Attribute) and c.func.attr == "pop" and exn.t(c.func.value).startswith("self.")}
    for d in own_nodes(en):
        if isinstance(d, ast.Delete):
            for t in d.targets:
                if isinstance(t, ast.Subscript) and exn.t(t.value).startswith("self."):
                    pops.add(exn.t(t.value))
    both = pushes & pops
    return sorted(both)[0] if both else None


def p_rules(p: Project, rep: Report):
    ci = builder(p)
    rep.rule("P-R1", "every path in TreeBuilder.end to the underlying ET.TreeBuilder.end is dominated by a raise (ParseError) guarded by `no element open or innermost open tag != closing tag`; the open tags are kept in an instance container pushed in start() (with the very tag started) and popped in end(); every end the class issues goes through this override")
    st, en, cl = _fm(ci, "start"), _fm(ci, "end"), _fm(ci, "close")
    if en is None:
        rep.check("P-R1", "TreeBuilder.end:overridden", False, "TreeBuilder does not override end(): closing tags are forwarded to ET.TreeBuilder.end() unchecked, so mis-nested or stray end tags are silently accepted", ploc(p, ci.node))
    cont = open_container(ci)
    if cont is not None and cont.startswith("self.") and cont.count(".") == 1:
        from .rules_purity import class_level_container

        shared_at, owned = class_level_container(ci, cont[5:])
        bad = shared_at is not None and not owned
        rep.check("P-R1", "TreeBuilder:open-tags-per-instance", not bad, f"{cont} is a container created once in the class body and never re-bound per instance: every TreeBuilder in the process pushes to and pops from one list, so what a parse accepts or rejects depends on what earlier (failed) and concurrent parses left open" if bad else "", ploc(p, shared_at[1]) if bad else ploc(p, ci.node))
    if en is not None:
        tagp = params_of(en)[1]
        cfg = CFG(en)
        supers = cfg.nodes_calling(lambda c: is_super_call(c, "end") or text(c.func) in ("ET.TreeBuilder.end",))
        if not supers:
            rep.check("P-R1", "TreeBuilder.end:delegates", False, "end() never reaches the underlying builder", ploc(p, en))
        if cont is None:
            # other bookkeeping idioms
            guards = []
            bad = None
            for n in cfg.nodes:
                if n.kind == "test" and _raises_parse_error(n.stmt.body):
                    t = text(norm(n.stmt.test))
                    if f".endswith({tagp})" in t:
                        bad = (n, "the open path is compared with endswith(tag): an end tag that is only a SUFFIX of the open element's name (</STMTTRNRS> for <CCSTMTTRNRS>) is accepted")
                    elif f".endswith('/' + {tagp})" in t or f"rsplit('/', 1)[-1] != {tagp}" in t:
                        guards.append(n.id)
            if bad is not None:
                rep.check("P-R1", "TreeBuilder.end:compares-innermost-open-tag", False, bad[1], ploc(p, bad[0].stmt))
            elif guards and supers and all(cfg.dominated_by(s.id, guards) for s in supers):
                rep.check("P-R1", "TreeBuilder.end:compares-innermost-open-tag", True, "path-string idiom", ploc(p, en))
            else:
                rep.check("P-R1", "TreeBuilder.end:compares-innermost-open-tag", False, "no open-tag bookkeeping recognised (no instance container pushed in start() and popped in end()): the closing tag cannot be compared with the innermost open element", ploc(p, en))
        else:
            from . import paths as PT

            enx = Expander(en)
            epaths = PT.enumerate_paths(en, expander=enx)
            ecfg = epaths.cfg
            esupers = ecfg.nodes_calling(lambda c: is_super_call(c, "end") or text(c.func) in ("ET.TreeBuilder.end",))
            a, b = sorted([f"{cont}[-1]", tagp])
            goal = PT.atom(f"{a} == {b}")
            ok = bool(esupers)
            for sn in esupers:
                for pth in epaths:
                    cb = pth.conds_before(sn.id)
                    if cb is not None and PT.implies(cb, goal) is False:
                        ok = False
            rep.check("P-R1", "TreeBuilder.end:compares-innermost-open-tag", ok, f"a path reaches the delegated end() without having established `{cont}[-1] == {tagp}`: a missing, misspelled, transposed or stray end tag is silently accepted" if not ok else "", ploc(p, en))
            pops = [n for n in ecfg.nodes if any(isinstance(c.func, ast.Attribute) and c.func.attr == "pop" and enx.t(c.func.value) == cont and (not c.args or text(c.args[0]) == "-1") for c in n.calls())]
            # `del <container>[-1]` / `del <container>[len(<container>) - 1]` removes the innermost entry as well
            for n in ecfg.nodes:
                if isinstance(n.stmt, ast.Delete) and n.kind not in ("join", "handlers"):
                    for t_ in n.stmt.targets:
                        if isinstance(t_, ast.Subscript) and enx.t(t_.value) == cont and enx.t(t_.slice).replace(" ", "") in ("-1", f"len({cont})-1"):
                            pops.append(n)
            ok = bool(pops) and all(ecfg.dominated_by(sn.id, [x.id for x in pops]) for sn in esupers)
            # an end tag is either refused or closes an element: no path leaves end() normally without the delegated end()
            ok_r = bool(esupers) and ecfg.must_pass_through([ecfg.exit.id], [sn.id for sn in esupers])
            rep.check("P-R1", "TreeBuilder.end:no-silent-return", ok_r, "a path returns from end() without raising and without closing an element: that end tag (a stray one ahead of the root, say) is silently disregarded, so improperly nested markup still yields a tree" if not ok_r else "", ploc(p, en))
            rep.check("P-R1", "TreeBuilder.end:pops-innermost", ok, "the innermost open tag is not popped exactly when an element is closed" if not ok else "", ploc(p, en))
        for s in supers:
            c = [x for x in s.calls() if is_super_call(x, "end") or text(x.func) == "ET.TreeBuilder.end"][0]
            ok = c.args and text(c.args[-1]) == tagp
            rep.check("P-R1", "TreeBuilder.end:delegates-same-tag", bool(ok), "" if ok else "a different tag is forwarded to the underlying builder", ploc(p, c))
    if st is not None and cont is not None:
        tagp = params_of(st)[1]
        cfg = CFG(st)
        supers = cfg.nodes_calling(lambda c: is_super_call(c, "start"))
        stx = Expander(st)
        pushes = cfg.nodes_calling(lambda c: isinstance(c.func, ast.Attribute) and c.func.attr == "append" and stx.t(c.func.value) == cont and c.args and stx.t(c.args[0]) == tagp)
        ok = bool(pushes) and bool(supers) and cfg.must_pass_through([cfg.exit.id], [x.id for x in pushes])
        rep.check("P-R1", "TreeBuilder.start:pushes-started-tag", ok, "start() does not record the tag it opens on every path" if not ok else "", ploc(p, st))
    # no bypass: calls to the underlying end() outside the override
    for nm, a in ci.attrs.items():
        if a[0] != "func" or nm == "end":
            continue
        for c in own_nodes(a[1]):
            if isinstance(c, ast.Call) and (is_super_call(c, "end") or text(c.func) in ("ET.TreeBuilder.end", "super().end")):
                rep.check("P-R1", f"TreeBuilder.{nm}:bypasses-end", False, "the underlying end() is called directly, bypassing the nesting check", ploc(p, c))
    rep.check("P-R1", "TreeBuilder:no-bypass", True, "")

    rep.rule("P-R2", "close() raises ParseError while any element is open, before delegating")
    if cl is None:
        rep.check("P-R2", "TreeBuilder.close:overridden", False, "close() is not overridden: a document cut off before its final end tag (even in the middle of a token, which finditer() skips silently) returns a partial tree", ploc(p, ci.node))
    else:
        from . import paths as PT

        cpaths = PT.enumerate_paths(cl, expander=Expander(cl))
        ccfg = cpaths.cfg
        supers = ccfg.nodes_calling(lambda c: is_super_call(c, "close"))
        ok = bool(supers) and cont is not None
        if ok:
            goal = PT.atom(f"bool({cont})", False)
            for sn in supers:
                for pth in cpaths:
                    cb = pth.conds_before(sn.id)
                    if cb is not None and PT.implies(cb, goal) is False:
                        ok = False
        rep.check("P-R2", "TreeBuilder.close:refuses-open-elements", ok, "close() hands back the tree although elements are still open" if not ok else "", ploc(p, cl))
    # OFXTree.parse returns only parser.close()
    from . import paths as PT2
    from .flat import flat as _flat

    tree_ci = p.get_class(PARSER, "OFXTree")
    parse0 = p.get_function(PARSER, "OFXTree.parse").node
    parse = _flat(p, PARSER, parse0, tree_ci, keep=("_read",))
    rps, ppaths = PT2.return_paths(parse, expander=Expander(parse))
    pcfg = ppaths.cfg
    pparam = params_of(parse0)[2] if len(params_of(parse0)) > 2 else "parser"
    ok = bool(rps)
    # statements inside a try that has NO except clause: when one of them raises, the finally block runs and the exception
    # goes on - such a path never reaches a return (the path engine lets it fall through the finally block)
    unhandled = set()
    for t_ in ast.walk(parse):
        if isinstance(t_, ast.Try) and not t_.handlers:
            for st_ in t_.body:
                for x_ in ast.walk(st_):
                    if isinstance(x_, ast.stmt):
                        unhandled.add(f"raises({text(x_)})")
    for pth, rtxt, sc in rps:
        if any(w_ is True and a_ in unhandled for a_, w_ in sc.items()):
            continue
        # `self._root = X.close(); return self._root`
        if rtxt == "self._root":
            sets = [pcfg.nodes[i].stmt for i in pth.nodes if isinstance(pcfg.nodes[i].stmt, ast.Assign) and text(pcfg.nodes[i].stmt.targets[0]) == "self._root"]
            rtxt = text(PT2.value_on_path(pth, pcfg, sets[-1].value, upto=len(pth.nodes) - 1)) if sets else rtxt
        # a temporary between close() and the attribute (`root = builder.close(); self._root = root`)
        hops = 0
        while not rtxt.endswith(".close()") and rtxt.isidentifier() and hops < 4:
            hops += 1
            binds = [pcfg.nodes[i].stmt for i in pth.nodes if isinstance(pcfg.nodes[i].stmt, ast.Assign) and len(pcfg.nodes[i].stmt.targets) == 1 and text(pcfg.nodes[i].stmt.targets[0]) == rtxt]
            if not binds:
                break
            rtxt = text(binds[-1].value)
        if not rtxt.endswith(".close()"):
            ok = False
    rep.check("P-R2", "OFXTree.parse:returns-parser.close()", ok, "parse() can return a root that did not come from the builder's close()" if not ok else "", ploc(p, parse0))
    feeds = pcfg.nodes_calling(lambda c: isinstance(c.func, ast.Attribute) and c.func.attr == "feed")
    closes = pcfg.nodes_calling(lambda c: isinstance(c.func, ast.Attribute) and c.func.attr == "close" and not c.args)
    ok = bool(feeds) and bool(closes) and all(pcfg.dominated_by(c.id, [f.id for f in feeds]) for c in closes)
    rep.check("P-R2", "OFXTree.parse:feed-then-close", ok, "" if ok else "close() is not preceded by feed() on every path", ploc(p, parse0))

    rep.rule("P-R3", "a start tag after the root element was closed raises: end() records that the outermost element closed, start() raises ParseError when it did")
    from . import paths as PT3

    flag = None
    flag_set_ok = None
    if en is not None and cont is not None and st is not None:
        enx2 = Expander(en)
        # candidate: an attribute of self assigned in end() and tested in start()
        tested = {a_[5:-1] for a_ in PT3.atoms_of(PT3.enumerate_paths(st, expander=Expander(st))) if a_.startswith("bool(self.") and a_.endswith(")")}
        for s_ in ast.walk(en):
            if isinstance(s_, ast.Assign) and len(s_.targets) == 1 and text(s_.targets[0]) in tested:
                flag = text(s_.targets[0])
                v = s_.value
                if isinstance(v, ast.Constant) and v.value is True:
                    par = parent(s_)
                    if isinstance(par, ast.If) and s_ in par.body:
                        a_, pol = PT3.canon_atom(enx2.x(par.test))
                        flag_set_ok = (a_, pol) == (f"bool({cont})", False)
                    else:
                        flag_set_ok = None
                else:
                    a_, pol = PT3.canon_atom(enx2.x(v))
                    if (a_, pol) in ((f"bool({cont})", False), (f"1 == len({cont})", True)):
                        flag_set_ok = True
    ok = False
    if st is not None and flag is not None:
        spaths = PT3.enumerate_paths(st, expander=Expander(st))
        scfg = spaths.cfg
        ssupers = scfg.nodes_calling(lambda c: is_super_call(c, "start"))
        ok = bool(ssupers)
        for sn in ssupers:
            for q in spaths:
                cb = q.conds_before(sn.id)
                if cb is not None and PT3.implies(cb, PT3.atom(f"bool({flag})", False)) is False:
                    ok = False
        raises = [q for q in spaths if q.outcome == "raise" and PT3.simple_conds(q.conds).get(f"bool({flag})") is True]
        ok = ok and bool(raises)
    rep.check("P-R3", "TreeBuilder.start:refuses-second-root", ok, "a second top-level element after the root was closed is accepted" if not ok else "", ploc(p, st or ci.node))
    if st is not None and flag is not None:
        # ... and refuses nothing else: a start tag is an error only after the root has been closed.  Any other raise in
        # start() (a depth limit, a tag blacklist) rejects a well-formed body
        other = None
        for q in spaths:
            if q.outcome == "raise" and PT3.simple_conds(q.conds).get(f"bool({flag})") is not True:
                other = PT3.simple_conds(q.conds)
        rep.check("P-R3", "TreeBuilder.start:refuses-only-a-second-root", other is None, f"start() also raises when {dict(list(other.items())[:3]) if other else ''} although the root element is still open: a well-formed body that meets this condition (e.g. nesting beyond a fixed depth) is rejected in every rendering" if other is not None else "", ploc(p, st))
    if flag is not None:
        if flag_set_ok is None:
            rep.note(f"P-R3 undecided: how end() sets {flag} is not recognised")
        else:
            rep.check("P-R3", "TreeBuilder.end:records-root-closed", flag_set_ok, f"{flag} is not set exactly when the outermost element has been closed" if not flag_set_ok else "", ploc(p, en))
    init = ci.own_func("__init__")
    if init is not None and flag is not None and cont is not None:
        inits = {text(s.targets[0]): text(s.value) for s in own_statements(init) if isinstance(s, (ast.Assign, ast.AnnAssign)) and (s.value is not None) for _ in [0] if True} if False else {}
        for s in own_statements(init):
            if isinstance(s, ast.Assign):
                inits[text(s.targets[0])] = text(s.value)
            elif isinstance(s, ast.AnnAssign) and s.value is not None:
                inits[text(s.target)] = text(s.value)
        ok = inits.get(cont) == "[]" and inits.get(flag) == "False"
        rep.check("P-R3", "TreeBuilder.__init__:fresh-state", ok, f"builder state starts as {inits}" if not ok else "", ploc(p, init))

    rep.rule("P-R4", "text after an end tag and non-blank tail text raise ParseError: every path of feed() (helpers inlined) that reaches _feedmatch implies that the groomed tail of the match is empty; handlers in feed() re-raise; _feedmatch raises for an end tag that carries data and routes end tags to end(<name without '/'>)")
    import re as _re
    from . import paths as PT
    from .flat import flat

    feed0 = ci.own_func("feed")
    fm = ci.own_func("_feedmatch")
    if feed0 is None or fm is None:
        raise AnalysisError("TreeBuilder.feed/_feedmatch not found")
    feed = flat(p, PARSER, feed0, ci, keep=("_feedmatch", "_groomstring", "_start"))
    fx = Expander(feed)
    fpaths = PT.enumerate_paths(feed, expander=fx)
    fcfg = fpaths.cfg
    calls_fm = fcfg.nodes_calling(lambda c: text(c.func) == "self._feedmatch")
    tail_atoms = [a for a in PT.atoms_of(fpaths) if _re.fullmatch(r"bool\(self\._groomstring\(.*(\['tail'\]|group\('tail'\))\)\)", a)]
    if not calls_fm:
        raise AnalysisError("P-R4: feed() never calls _feedmatch")
    # `<groomed tail> is None` says the same as `not <groomed tail>`: _groomstring returns the stripped text or None,
    # never an empty string (X-R4 _groomstring:strip-or-None)
    none_atoms = [a for a in PT.atoms_of(fpaths) if _re.fullmatch(r"self\._groomstring\(.*(\['tail'\]|group\('tail'\))\) is None", a)]
    if not tail_atoms and none_atoms:
        goal = PT.atom(none_atoms[0], True)
        ok = True
        for cn in calls_fm:
            for pth in fpaths:
                cb = pth.conds_before(cn.id)
                if cb is not None and PT.implies(cb, goal) is False:
                    ok = False
        rep.check("P-R4", "feed:non-blank-tail-raises", ok, "a path hands the match to _feedmatch although its tail text is not blank: text after an element's end tag is silently dropped" if not ok else "", ploc(p, feed0))
    elif not tail_atoms:
        rep.check("P-R4", "feed:non-blank-tail-raises", False, "the tail group of a match is never tested: text after an element's end tag is silently dropped", ploc(p, feed0))
    else:
        goal = PT.atom(tail_atoms[0], False)
        ok = True
        for cn in calls_fm:
            for pth in fpaths:
                cb = pth.conds_before(cn.id)
                if cb is not None and PT.implies(cb, goal) is False:
                    ok = False
        rep.check("P-R4", "feed:non-blank-tail-raises", ok, "a path hands the match to _feedmatch although its tail text is not blank: text after an element's end tag is silently dropped" if not ok else "", ploc(p, feed0))
    for t in [s_ for s_ in own_statements(feed) if isinstance(s_, ast.Try)]:
        for h in t.handlers:
            ok = any(isinstance(x, ast.Raise) for x in ast.walk(h))
            rep.check("P-R4", "feed:handler-reraises", ok, "feed() swallows the ParseError" if not ok else "", ploc(p, h))
    tagp, textp = params_of(fm)[1], params_of(fm)[2]
    fmf = flat(p, PARSER, fm, ci, keep=("_start", "_groomstring"))
    mpaths = PT.enumerate_paths(fmf, expander=Expander(fmf))
    mcfg = mpaths.cfg
    is_end = f"bool({tagp}.startswith('/'))"
    has_text = f"bool({textp})"
    ends = mcfg.nodes_calling(lambda c: text(c.func) == "self.end")
    starts_ = mcfg.nodes_calling(lambda c: text(c.func) == "self._start")
    ok = bool(ends) and bool(starts_)
    why = "end tags are not routed to end() / start tags to _start()"
    if ok and is_end not in set(PT.atoms_of(mpaths)):
        # the end-tag test is spelled in a form that does not reduce to `tag.startswith('/')` (partition, regex ...):
        # nothing can be concluded from the paths
        rep.note("P-R4 undecided: how _feedmatch tells an end tag from a start tag is not recognised")
        ok = None
    if ok:
        for en_ in ends:
            mx = Expander(fmf)
            for c in en_.calls():
                if text(c.func) == "self.end" and not (c.args and mx.t(c.args[0]) in (f"{tagp}[1:]", f"{tagp}.lstrip('/')", f"{tagp}.removeprefix('/')")):
                    ok, why = False, f"an end tag is closed as {mx.t(c.args[0]) if c.args else None}, not as the tag name without its '/'"
            for pth in mpaths:
                cb = pth.conds_before(en_.id)
                if cb is None:
                    continue
                if PT.implies(cb, PT.atom(is_end)) is False:
                    ok, why = False, "end() is reached for a tag that is not an end tag"
                if PT.implies(cb, PT.atom(has_text, False)) is False:
                    ok, why = False, "an end tag that carries data is closed instead of being rejected: text after an end tag is silently dropped"
        for sn in starts_:
            for pth in mpaths:
                cb = pth.conds_before(sn.id)
                if cb is not None and PT.implies(cb, PT.atom(is_end, False)) is False:
                    ok, why = False, "_start() is reached for an end tag"
    if ok is not None:
        rep.check("P-R4", "_feedmatch:end-tag-with-text-raises", ok, why if not ok else "", ploc(p, fm))


# --------------------------------------------------------------------------
def x_rules(p: Project, rep: Report):
    ci = builder(p)
    r = rx.class_regex(p, PARSER, "TreeBuilder")
    need = {"tag", "cdata", "text", "closetag", "tail"}
    if not need <= set(r.groups):
        raise AnalysisError(f"TreeBuilder.regex lacks groups {sorted(need - set(r.groups))}")
    c = rx.sre_c
    rep.rule("X-R1", "the tag group admits the OFX tag alphabet A-Z 0-9 . _ and '/' (end tags are matched by the same group) and is delimited by literal '<' and '>'")
    items, _ = r.find_group("tag")
    it = list(items)
    cs = None
    if len(it) == 1 and it[0][0] in (c.MAX_REPEAT, c.MIN_REPEAT):
        inner = list(it[0][1][2])
        if len(inner) == 1 and inner[0][0] is c.IN:
            cs = rx.charset(inner[0][1])
    want = set("ABCDEFGHIJKLMNOPQRSTUVWXYZ0123456789._/")
    miss = sorted(want - cs) if cs is not None else sorted(want)
    rep.check("X-R1", "regex:tag-alphabet", cs is not None and not miss, f"the tag class lacks {miss}: elements with such tags (and everything after them) are silently skipped by finditer()" if miss else "", r.where)
    unbounded_tag = len(it) == 1 and it[0][0] in (c.MAX_REPEAT, c.MIN_REPEAT) and it[0][1][1] is c.MAXREPEAT
    rep.check("X-R1", "regex:tag-any-length", unbounded_tag, "the tag group is a repetition with a finite upper bound: a (vendor / unknown) tag whose name - or whose end tag, which carries the '/' in the same group - is longer is not matched and finditer() silently skips it, so an aggregate opens without closing or its children leak into the enclosing aggregate" if not unbounded_tag else "", r.where)
    rep.check("X-R1", "regex:tag-excludes-delimiters", cs is not None and not ({"<", ">"} & cs), "the tag class admits '<' or '>'" if cs is None or ({"<", ">"} & cs) else "", r.where)
    top = list(r.tree)
    ok = top and top[0][0] is c.LITERAL and top[0][1] == ord("<")
    rep.check("X-R1", "regex:starts-with-<", bool(ok), "" if ok else "the token pattern does not start with a literal '<'", r.where)

    rep.rule("X-R2", "closetag is a back-reference to the tag group, inside an optional '</' ... '>'")
    items, path = r.find_group("closetag")
    it = list(items)
    ok = len(it) == 1 and it[0][0] is c.GROUPREF and it[0][1] == r.groups["tag"]
    rep.check("X-R2", "regex:closetag-backreference", ok, "the end tag of a data element is not required to repeat the start tag: <A>1</B> is read as a closed <A>" if not ok else "", r.where)
    ok = path is not None and any(x[0] == "repeat" and x[1] == 0 and x[2] == 1 for x in path)
    rep.check("X-R2", "regex:closetag-optional", ok, "end tags of data elements are no longer optional" if not ok else "", r.where)

    rep.rule("X-R7", "text that follows a token is always captured so that it can be refused: the tail group is optional on its own, not inside the optional end-tag group (else text after a CDATA section or after data without an end tag is skipped by finditer() unseen)")
    _ti, tpath = r.find_group("tail")
    _ci, cpath = r.find_group("closetag")
    t_reps = {x[3] for x in (tpath or []) if x[0] == "repeat"}
    c_reps = {x[3] for x in (cpath or []) if x[0] == "repeat"}
    shared = t_reps & c_reps
    rep.check("X-R7", "regex:tail-independent-of-closetag", not shared and not any(x[0] == "branch" for x in (tpath or [])), "the tail group is nested in the optional end-tag group: tail text is only seen after an explicit end tag" if shared else "", r.where)

    rep.rule("X-R3", "the CDATA content cannot extend across its ']]>' terminator (non-greedy) yet admits every character including a single ']' (not a class excluding ']')")
    items, _ = r.find_group("cdata")
    it = list(items)
    ok, why = False, "CDATA content pattern not recognised"
    if len(it) == 1 and it[0][0] in (c.MAX_REPEAT, c.MIN_REPEAT):
        lo, hi, inner = it[0][1]
        inner = list(inner)
        if len(inner) == 1 and inner[0][0] is c.ANY:
            if it[0][0] is c.MIN_REPEAT:
                ok, why = True, ""
            else:
                why = "greedy '.+': two CDATA sections on one line are merged into one element (everything up to the LAST ']]>')"
        elif len(inner) == 1 and inner[0][0] is c.IN:
            cs2 = rx.charset(inner[0][1])
            if cs2 is not None and "]" not in cs2:
                why = "the CDATA content class excludes ']': legal data containing a single ']' is not matched and is silently dropped"
            elif cs2 is not None and it[0][0] is c.MIN_REPEAT:
                ok, why = True, ""
    rep.check("X-R3", "regex:cdata-content", ok, why, r.where)
    # ... every character INCLUDING a line break: the other spelling of the same data, the text group, is a class that
    # excludes only '<' and therefore runs across lines.  `.` matches a newline only under re.DOTALL; a CDATA section
    # whose content spans lines would otherwise match nothing, finditer() would skip it, and the element come out empty
    import re as _re0

    def _admits_newline(items_):
        items_ = list(items_)
        if len(items_) != 1:
            return None
        op_, av_ = items_[0]
        if op_ is c.ANY:
            st_ = getattr(getattr(r.tree, "state", None), "flags", 0) or 0
            return bool((r.flags | st_) & _re0.DOTALL)
        if op_ is c.IN:
            cs_ = rx.charset(av_)
            return None if cs_ is None else ("\n" in cs_)
        if op_ is c.LITERAL:
            return av_ == 10
        if op_ is c.SUBPATTERN:
            return _admits_newline(av_[-1])
        if op_ is c.BRANCH:
            rs_ = [_admits_newline(alt_) for alt_ in av_[1]]
            return None if any(x_ is None for x_ in rs_) else any(rs_)
        return None

    if len(it) == 1 and it[0][0] in (c.MAX_REPEAT, c.MIN_REPEAT):
        nl_ = _admits_newline(it[0][1][2])
        if nl_ is None:
            rep.note("X-R3 undecided: whether the CDATA content pattern matches a line break")
        else:
            rep.check("X-R3", "regex:cdata-content-spans-lines", nl_, "the CDATA content is matched by '.' without re.DOTALL (or by a class without '\\n'): a CDATA section whose data contains a line break - a multi-line memo or mail body, the very thing CDATA is used for - is not matched at all; finditer() skips it silently and the element is read as empty, while the same data written as plain text is kept" if not nl_ else "", r.where)
    # ... and the section may be set off from its tags by whitespace: the sequence that holds the CDATA group begins
    # and ends with an optional whitespace run.  Without it `<B> <![CDATA[x]]></B>` matches the blank as text, the
    # section matches nothing, finditer() skips it, and the element is read as empty
    def _seq_with_group(seq, gid):
        seq = list(seq)
        for op_, av_ in seq:
            if op_ is c.SUBPATTERN and av_[0] == gid:
                return seq
        for op_, av_ in seq:
            subs = []
            if op_ is c.SUBPATTERN:
                subs = [av_[-1]]
            elif op_ is c.BRANCH:
                subs = list(av_[1])
            elif op_ in (c.MAX_REPEAT, c.MIN_REPEAT):
                subs = [av_[2]]
            for sub_ in subs:
                got = _seq_with_group(sub_, gid)
                if got is not None:
                    return got
        return None

    def _opt_space(item):
        op_, av_ = item
        if op_ not in (c.MAX_REPEAT, c.MIN_REPEAT) or av_[0] != 0:
            return False
        inner_ = list(av_[2])
        if len(inner_) != 1 or inner_[0][0] is not c.IN:
            return False
        cs_ = rx.charset(inner_[0][1])
        return cs_ is not None and {" ", "\n", "\t", "\r"} <= cs_ and "<" not in cs_

    # the CDATA alternative is tried BEFORE the plain-text alternative: `[^<]+` matches the blanks that may precede
    # `<![CDATA[`, so with the text alternative first the match ends at the section's `<` and the section is skipped
    def _branch_with(node, ga, gb):
        for op_, av_ in node:
            if op_ is c.BRANCH:
                alts = list(av_[1])
                ia = [i_ for i_, a_ in enumerate(alts) if _seq_with_group(a_, ga) is not None or _has_group(a_, ga)]
                ib = [i_ for i_, a_ in enumerate(alts) if _seq_with_group(a_, gb) is not None or _has_group(a_, gb)]
                if ia and ib and ia[0] != ib[0]:
                    return ia[0], ib[0]
            subs = []
            if op_ is c.SUBPATTERN:
                subs = [av_[3]]
            elif op_ is c.BRANCH:
                subs = list(av_[1])
            elif op_ in (c.MAX_REPEAT, c.MIN_REPEAT):
                subs = [av_[2]]
            for sub_ in subs:
                got = _branch_with(sub_, ga, gb)
                if got is not None:
                    return got
        return None

    def _has_group(node, gid):
        for op_, av_ in node:
            if op_ is c.SUBPATTERN and av_[0] == gid:
                return True
            subs = []
            if op_ is c.SUBPATTERN:
                subs = [av_[3]]
            elif op_ is c.BRANCH:
                subs = list(av_[1])
            elif op_ in (c.MAX_REPEAT, c.MIN_REPEAT):
                subs = [av_[2]]
            if any(_has_group(sub_, gid) for sub_ in subs):
                return True
        return False

    if "text" in r.groups:
        order = _branch_with(r.tree, r.groups["cdata"], r.groups["text"])
        if order is not None:
            rep.check("X-R3", "regex:cdata-alternative-tried-first", order[0] < order[1], "the plain-text alternative precedes the CDATA alternative: `[^<]+` takes the whitespace in front of `<![CDATA[` as the element's text, the section itself is matched by nothing and finditer() skips it - data set off from its start tag by a line break is dropped (or the element stays open and its siblings are re-parented)" if order[0] > order[1] else "", r.where)
    seq_ = _seq_with_group(r.tree, r.groups["cdata"])
    if seq_ is None:
        rep.note("X-R3 undecided: the sequence holding the CDATA group was not found")
    else:
        lead, trail = _opt_space(seq_[0]), _opt_space(seq_[-1])
        rep.check("X-R3", "regex:cdata-set-off-by-whitespace", lead and trail, f"the CDATA section must {'directly follow its start tag' if not lead else 'be directly followed by the end tag'}: with whitespace in between, the blank is taken for the element's text and the section is matched by nothing - finditer() skips it silently and the element is read as empty (or its end tag is refused)" if not (lead and trail) else "", r.where)
    # literal terminator follows
    prev = _following_literals(r.tree, r.groups["cdata"])
    rep.check("X-R3", "regex:cdata-terminator", prev == "]]>", f"CDATA content is followed by {prev!r}, not ']]>'" if prev != "]]>" else "", r.where)

    rep.rule("X-R4", "text excludes '<' and is whitespace-trimmed by _groomstring (None when blank); CDATA is passed verbatim; data reaches the tree unmodified (no unescaping in the parser)")
    items, _ = r.find_group("text")
    it = list(items)
    cs = None
    if len(it) == 1 and it[0][0] in (c.MAX_REPEAT, c.MIN_REPEAT):
        first = list(it[0][1][2])[0]
        if first[0] is c.IN:
            cs = rx.charset(first[1])
        elif first[0] is c.NOT_LITERAL:
            cs = {chr(i) for i in range(128)} - {chr(first[1])}
    ok = cs is not None and "<" not in cs and {"&", ">", "a", " ", "]"} <= cs
    rep.check("X-R4", "regex:text-class", ok, "the data class is not 'everything but <'" if not ok else "", r.where)
    # the tail group: whatever follows an end tag up to the next '<' - ALL of it, from its first character, so that
    # feed() can refuse it; a class that leaves characters out lets finditer() skip the run silently
    titems, _ = r.find_group("tail")
    if titems is not None:
        tit = list(titems)
        full = {chr(i) for i in range(128)} - {"<"}
        tok, twhy = None, ""
        if len(tit) == 1 and tit[0][0] in (c.MAX_REPEAT, c.MIN_REPEAT):
            inner_ = list(tit[0][1][2])
            first = inner_[0] if len(inner_) == 1 else None
            tcs = None
            if first is not None and first[0] is c.IN:
                tcs = rx.charset(first[1])
            elif first is not None and first[0] is c.NOT_LITERAL:
                tcs = {chr(i) for i in range(128)} - {chr(first[1])}
            if tcs is not None:
                tok = tcs == full and tit[0][1][1] is c.MAXREPEAT
                twhy = f"the tail class leaves out {sorted(full - tcs)[:6]}" if tcs != full else "the tail run is bounded"
        elif tit:
            # a sequence: the FIRST item decides which runs are seen at all
            f0 = tit[0]
            tcs = rx.charset(f0[1]) if f0[0] is c.IN else ({chr(i) for i in range(128)} - {chr(f0[1])} if f0[0] is c.NOT_LITERAL else None)
            if tcs is not None and tcs != full:
                tok, twhy = False, f"a tail must begin with one of a class that leaves out {[repr(x) for x in sorted(full - tcs)[:6]]}"
        if tok is None:
            rep.note("X-R4 undecided: shape of the tail group not recognised")
        else:
            rep.check("X-R4", "regex:tail-class", tok, f"{twhy}: text that follows an end tag after such characters (e.g. on the next line) is not matched by any group, finditer() skips it, and the document is accepted with the stray text dropped" if not tok else "", r.where)
    import re as _re
    from . import paths as PT
    from .flat import flat

    feed0 = ci.own_func("feed")
    feed = flat(p, PARSER, feed0, ci, keep=("_feedmatch", "_groomstring", "_start"))
    fx = Expander(feed)
    fpaths = PT.enumerate_paths(feed, expander=fx)
    fcfg = fpaths.cfg
    G = r"(match\.groupdict\(\)|\w+)"
    seen_call = False
    for cn in fcfg.nodes:
        for c in cn.calls():
            if text(c.func) != "self._feedmatch" or len(c.args) != 3:
                continue
            for pth in fpaths:
                if cn.id not in pth.marks:
                    continue
                idx = pth.nodes.index(cn.id)
                vasts = [PT.value_on_path(pth, fcfg, a, upto=idx) for a in c.args]
                vals = [text(v_) for v_ in vasts]
                seen_call = True

                def group_ref(e_):
                    """name of the match group an expression reads: <groupdict or a local holding it>['n'] / <match>.group('n')"""
                    if isinstance(e_, ast.Subscript) and isinstance(e_.slice, ast.Constant) and isinstance(e_.slice.value, str) and (isinstance(e_.value, ast.Name) or text(e_.value).endswith(".groupdict()")):
                        return e_.slice.value
                    if isinstance(e_, ast.Call) and isinstance(e_.func, ast.Attribute) and e_.func.attr == "group" and len(e_.args) == 1 and isinstance(e_.args[0], ast.Constant) and isinstance(e_.func.value, ast.Name):
                        return e_.args[0].value
                    return None

                ok_tag = group_ref(vasts[0]) == "tag"
                ok_close = group_ref(vasts[2]) == "closetag"
                tv_ = vasts[1]
                ok_text = isinstance(tv_, ast.BoolOp) and isinstance(tv_.op, ast.Or) and len(tv_.values) == 2 and group_ref(tv_.values[0]) == "cdata" and isinstance(tv_.values[1], ast.Call) and text(tv_.values[1].func) == "self._groomstring" and len(tv_.values[1].args) == 1 and group_ref(tv_.values[1].args[0]) == "text"
                if not ok_text:
                    # the decision written as a branch: on this path the data is the cdata group where that group was
                    # tested true, the trimmed text group where it was tested false
                    facts_ = PT.simple_conds(pth.conds_before(cn.id) or [])
                    def _cdata_truth(a_, w_):
                        """truth of the cdata group that the fact (atom a_ has value w_) states, or None"""
                        try:
                            e_ = ast.parse(a_, mode="eval").body
                        except SyntaxError:
                            return None
                        if isinstance(e_, ast.Call) and isinstance(e_.func, ast.Name) and e_.func.id == "bool" and len(e_.args) == 1 and group_ref(e_.args[0]) == "cdata":
                            return w_
                        if isinstance(e_, ast.Compare) and len(e_.ops) == 1 and isinstance(e_.ops[0], ast.Is) and group_ref(e_.left) == "cdata" and isinstance(e_.comparators[0], ast.Constant) and e_.comparators[0].value is None and w_ is True:
                            return False
                        return None

                    truths_ = {_cdata_truth(a_, w_) for a_, w_ in facts_.items()}
                    cd_true, cd_false = True in truths_, False in truths_
                    if group_ref(tv_) == "cdata" and cd_true:
                        ok_text = True
                    elif isinstance(tv_, ast.Call) and text(tv_.func) == "self._groomstring" and len(tv_.args) == 1 and group_ref(tv_.args[0]) == "text" and cd_false:
                        ok_text = True
                rep.check("X-R4", "feed:passes-own-groups", bool(ok_tag and ok_close), f"feed() hands tag={vals[0][:40]}, closetag={vals[2][:40]} to _feedmatch; expected the match's own 'tag' and 'closetag' groups" if not (ok_tag and ok_close) else "", ploc(p, feed0))
                rep.check("X-R4", "feed:text-trimmed-cdata-verbatim", bool(ok_text), f"the data handed on is {vals[1][:80]}; expected <cdata group, verbatim> or _groomstring(<text group>)" if not ok_text else "", ploc(p, feed0))
    if not seen_call:
        raise AnalysisError("X-R4: feed() does not call self._feedmatch(tag, text, closetag)")
    gs0 = ci.own_func("_groomstring")
    gs = flat(p, PARSER, gs0, ci)
    gp = params_of(gs0)[0]
    rps, _gp = PT.return_paths(gs, expander=Expander(gs))
    ok, why = bool(rps), "never returns"
    some_value = False
    for pth, rtxt, sc in rps:
        if rtxt == "None":
            continue
        or_none = rtxt.endswith(" or None")
        core = rtxt[: -len(" or None")] if or_none else rtxt
        base_ok = core in (f"({gp} or '').strip()", f"{gp}.strip()")
        if not base_ok:
            ok, why = False, f"a path returns {rtxt[:50]}: data is not whitespace-trimmed (or is altered)"
            continue
        some_value = True
        if not or_none and sc.get(f"bool({rtxt})") is not True:
            ok, why = False, "a blank string is returned instead of None"
    if ok and not some_value:
        ok, why = False, "_groomstring never returns the stripped string"
    rep.check("X-R4", "_groomstring:strip-or-None", ok, why if not ok else "", ploc(p, gs0))
    stf = ci.own_func("_start")
    sx_ = Expander(stf)
    datas = [cc for cc in own_nodes(stf) if isinstance(cc, ast.Call) and text(cc.func) == "self.data"]
    ok = bool(datas) and all(sx_.t(cc.args[0]) == params_of(stf)[2] for cc in datas)
    rep.check("X-R4", "_start:data-unmodified", ok, "" if ok else "element data is altered before it is handed to the tree", ploc(p, stf))
    loops = [s_ for s_ in own_statements(feed) if isinstance(s_, ast.For)]
    ok = bool(loops) and fx.t(loops[0].iter) == f"self.regex.finditer({params_of(feed0)[1]})"
    rep.check("X-R4", "feed:iterates-all-matches", ok, "" if ok else "feed() does not iterate self.regex.finditer(data)", ploc(p, feed0))

    rep.rule("X-R6", "leaf vs aggregate is decided by presence of data only; every element is started once; a leaf is closed exactly once whether or not its end tag was matched, after its data was written; an empty aggregate with its end tag in the same match is closed; nothing else is closed in _start (decided path by path on the flattened method)")
    from . import paths as PT6
    from .flat import flat as _flat6

    stff = _flat6(p, PARSER, stf, ci)
    tagp, textp, closep = params_of(stf)[1:4]
    spl = PT6.enumerate_paths(stff, None, Expander(stff))
    scfg = spl.cfg

    def calls_on(q, name):
        out = []
        for j, nid in enumerate(q.nodes):
            n_ = scfg.nodes[nid]
            if n_.stmt is None or n_.kind in ("join", "handlers"):
                continue
            for cc in n_.calls():
                if text(cc.func) == name:
                    out.append((j, cc))
        return out

    verdicts = {"starts-element": True, "leaf": True, "empty-aggregate-with-end-tag": True, "open-aggregate": True, "data-before-close": True}
    undec6 = False
    for q in spl:
        if q.outcome not in ("return", "fall"):
            continue
        if PT6.implies(q.conds, PT6.atom("$never")) is True:
            continue  # contradictory conditions: not a feasible path

        def decide(a_):
            if PT6.implies(q.conds, PT6.atom(a_, True)) is True:
                return True
            if PT6.implies(q.conds, PT6.atom(a_, False)) is True:
                return False
            return None

        t_, c_ = decide(f"bool({textp})"), decide(f"bool({closep})")
        starts = [x for x in calls_on(q, "self.start") if x[1].args and text(PT6.value_on_path(q, scfg, x[1].args[0], upto=x[0])) == tagp]
        ends = calls_on(q, "self.end")
        datas_ = calls_on(q, "self.data")
        if len(starts) != 1:
            verdicts["starts-element"] = False
        if t_ is None:
            undec6 = True
            continue
        if t_ is True:
            if len(ends) != 1:
                verdicts["leaf"] = False
            if ends and not any(j < ends[0][0] for j, _c in datas_):
                verdicts["data-before-close"] = False
        else:
            if c_ is None:
                undec6 = True
                continue
            if c_ is True and len(ends) != 1:
                verdicts["empty-aggregate-with-end-tag"] = False
            if c_ is False and ends:
                verdicts["open-aggregate"] = False
        for j, cc in ends:
            if not (cc.args and text(PT6.value_on_path(q, scfg, cc.args[0], upto=j)) in (tagp, closep)):
                verdicts["leaf" if t_ else "empty-aggregate-with-end-tag"] = False
    why6 = {"starts-element": "an element is not started exactly once on every path", "leaf": "a data element is not closed exactly once (with its own tag)", "empty-aggregate-with-end-tag": "an empty aggregate whose end tag was matched is not closed exactly once", "open-aggregate": "an aggregate without data and without matched end tag is closed by _start", "data-before-close": "a leaf is closed before its data is written"}
    for k, ok in verdicts.items():
        if ok and undec6 and k != "starts-element":
            continue
        rep.check("X-R6", f"_start:{k}", ok, why6[k] if not ok else "", ploc(p, stf))
    if undec6:
        rep.note("X-R6 undecided: some path of _start does not decide on the presence of data / of the matched end tag")


def _following_literals(sub, idx) -> Optional[str]:
    """the run of literal characters that immediately follows the named group in its sequence"""
    items = list(sub)
    for i, (op, av) in enumerate(items):
        if op is rx.sre_c.SUBPATTERN:
            if av[0] == idx:
                out = ""
                for op2, av2 in items[i + 1:]:
                    if op2 is rx.sre_c.LITERAL:
                        out += chr(av2)
                    else:
                        break
                return out
            r = _following_literals(av[3], idx)
            if r is not None:
                return r
        elif op in (rx.sre_c.MAX_REPEAT, rx.sre_c.MIN_REPEAT):
            r = _following_literals(av[2], idx)
            if r is not None:
                return r
        elif op is rx.sre_c.BRANCH:
            for alt in av[1]:
                r = _following_literals(alt, idx)
                if r is not None:
                    return r
    return None


def p_r6_every_match_dispatched(p: Project, rep: Report):
    """every tag the tokenizer matched reaches the tree builder"""
    from . import paths as PT
    from .flat import flat
    from .match import Expander

    rep.rule("P-R6", "every tag the tokenizer matches reaches the tree builder: on every normally returning path of _feedmatch (private helpers inlined) the element is started (start tag) or ended (end tag) through the builder's start()/end() - a path that returns without doing either drops a tag silently (a skipped start/end pair re-parents the children; a skipped stray end tag is no longer refused)")
    ci = builder(p)
    fm0 = ci.own_func("_feedmatch")
    if fm0 is None:
        rep.note("P-R6 undecided: TreeBuilder has no _feedmatch")
        return
    fm = flat(p, PARSER, fm0, ci)
    pths = PT.enumerate_paths(fm, None, Expander(fm))
    cfg = pths.cfg
    disp = {n.id for n in cfg.nodes if n.stmt is not None and n.kind not in ("join", "handlers") and any(text(c.func) in ("self.start", "self.end", "super().start", "super().end") for c in n.calls())}
    if not disp:
        rep.note("P-R6 undecided: _feedmatch never calls start()/end()")
        return
    bad = None
    n = 0
    for q in pths:
        if q.outcome not in ("return", "fall"):
            continue
        n += 1
        if not any(i in disp for i in q.nodes):
            bad = PT.simple_conds(q.conds)
    rep.unit("feedmatch_paths", n)
    rep.check("P-R6", "_feedmatch:every-match-starts-or-ends-an-element", bad is None, f"a path of _feedmatch returns without calling start() or end() (taken when {bad}): the matched tag is dropped" if bad is not None else "", ploc(p, fm0))


def p_r7_every_match_fed(p: Project, rep: Report):
    """feed() hands every match of the token iterator to the dispatcher"""
    from .flat import flat

    rep.rule("P-R7", "feed() processes every token of the input: the loop over the pattern's matches has no early exit (no break / return inside it) - what follows the root's end tag must still reach start()/end(), which refuse it")
    ci = builder(p)
    fd0 = ci.own_func("feed")
    if fd0 is None:
        rep.note("P-R7 undecided: TreeBuilder has no feed()")
        return
    fd = flat(p, PARSER, fd0, ci, keep=("_feedmatch",))
    loops = [x for x in ast.walk(fd) if isinstance(x, ast.For) and any(isinstance(c, ast.Call) and isinstance(c.func, ast.Attribute) and c.func.attr in ("finditer", "findall", "scanner") for c in ast.walk(x.iter))]
    if not loops:
        ex = Expander(fd)
        loops = [x for x in ast.walk(fd) if isinstance(x, ast.For) and "finditer" in ex.t(x.iter)]
    if not loops:
        rep.note("P-R7 undecided: feed() has no loop over the pattern's matches")
        return
    # what is tokenized is the text feed() was given: the iterated scan runs over the parameter itself, not over a
    # rewritten copy (a clean-up pass over the raw text cannot tell mark-up from element data)
    dparam = params_of(fd0)[1] if len(params_of(fd0)) > 1 else None
    if dparam is not None:
        rew = None
        for st_ in ast.walk(fd):
            tg_ = st_.targets if isinstance(st_, ast.Assign) else ([st_.target] if isinstance(st_, (ast.AugAssign, ast.AnnAssign)) else [])
            if any(isinstance(t_, ast.Name) and t_.id == dparam for t_ in tg_):
                rew = st_
        for lp_ in loops:
            for c_ in ast.walk(lp_.iter):
                if isinstance(c_, ast.Call) and isinstance(c_.func, ast.Attribute) and c_.func.attr in ("finditer", "findall", "scanner") and c_.args and not (isinstance(c_.args[0], ast.Name) and c_.args[0].id == dparam):
                    v_ = Expander(fd).x(c_.args[0])
                    if not (isinstance(v_, ast.Name) and v_.id == dparam):
                        rew = rew or c_
        rep.check("P-R7", "feed:tokenizes-the-text-it-was-given", rew is None, f"`{text(rew)[:60] if rew is not None else ''}`: the text is rewritten before it is tokenized - a pass over the raw text cannot tell what is mark-up and what is element data, so values (or the boundaries between elements) change" if rew is not None else "", ploc(p, rew if rew is not None else fd0))
    for lp in loops:
        exits = []

        def scan(stmts, depth=0):
            for st in stmts:
                if isinstance(st, (ast.Break, ast.Return)):
                    exits.append(st)
                elif isinstance(st, (ast.For, ast.While)):
                    # a nested loop's break leaves only that loop; a return still leaves feed()
                    for x in ast.walk(st):
                        if isinstance(x, ast.Return):
                            exits.append(x)
                elif isinstance(st, (ast.FunctionDef, ast.ClassDef)):
                    continue
                else:
                    for fld in ("body", "orelse", "finalbody"):
                        sub = getattr(st, fld, None)
                        if isinstance(sub, list):
                            scan(sub)
                    for h in getattr(st, "handlers", []) or []:
                        scan(h.body)

        scan(lp.body)
        rep.check("P-R7", "feed:no-early-exit-from-token-loop", not exits, f"the token loop is left early ({text(exits[0])[:40]} at line {exits[0].lineno}): the rest of the input is never looked at, so a second top-level element or a stray tag after the root is accepted" if exits else "", ploc(p, exits[0] if exits else lp))


FOREIGN_TOKENIZERS = ("XMLParser", "XMLPullParser", "fromstring", "XML", "XMLID", "iterparse", "parseString", "ParserCreate", "make_parser", "HTMLParser", "fromstringlist", "expatreader")


def p_r8_single_tokenizer(p: Project, rep: Report):
    """who may tokenize: the pattern's matches are the only source of tags"""
    rep.rule("P-R8", "the message body has ONE tokenizer: ofxtools.Parser constructs no other markup parser (xml.etree XMLParser / XMLPullParser / fromstring / iterparse, expat, sax, minidom, html.parser) - the pattern whose grammar the tokenizer rules decide (X-R*) and the checked dispatcher (_feedmatch -> start()/end()) then see every tag; a second tokenizer resolves entities, comments, CDATA, attributes and whitespace by rules of its own, so the same document yields a different tree (or is refused differently) depending on which one took it")
    m = p.module(PARSER)
    sites = []
    for qn, cls, fn in m.functions():
        for c in ast.walk(fn):
            if isinstance(c, ast.Call):
                d = dotted(c.func) or ""
                last = d.split(".")[-1]
                if last in FOREIGN_TOKENIZERS:
                    r = p.resolve(PARSER, d.split(".")[0]) if d else None
                    # a repo function of that name is not a foreign parser
                    from .source import Func, ClassInfo as _CI
                    if isinstance(r, (Func, _CI)) and "." not in d:
                        continue
                    sites.append((qn, d, c))
    for qn, d, c in sites:
        rep.check("P-R8", f"{qn}:constructs:{d.split('.')[-1]}", False, f"{qn} constructs {d}(...): body text routed through it by-passes the pattern and its dispatcher - entity references, comments, CDATA sections, attributes and inter-tag whitespace are then resolved by that parser's rules, not by the tokenizer the other clauses decide", ploc(p, c))
    nfn = len(m.functions())
    rep.check("P-R8", "Parser:single-tokenizer", not sites, "", f"{nfn} functions of {PARSER} searched")
    # the positive side: feed() draws its tags from the pattern
    ci = builder(p)
    fd0 = ci.own_func("feed")
    if fd0 is not None:
        from .flat import flat

        fd = flat(p, PARSER, fd0, ci, keep=("_feedmatch",))
        uses = any(isinstance(c, ast.Call) and isinstance(c.func, ast.Attribute) and c.func.attr in ("finditer", "findall", "scanner", "match", "search") for c in ast.walk(fd))
        rep.check("P-R8", "feed:draws-tags-from-the-pattern", uses, "feed() no longer iterates the pattern's matches" if not uses else "", ploc(p, fd0))


def p_r9_convert_built_on_every_call(p: Project, rep: Report):
    """OFXTree.convert() converts the tree as it is now"""
    from .flat import flat
    from .fresh import kept_from_earlier_call

    rep.rule("P-R9", "OFXTree.convert() returns a model built in that call from the tree as it is then: no returning path hands back something the parser object (or the module) kept from an earlier call - the tree is a public, mutable ElementTree (callers prune / patch it between conversions), so a memo keyed by the root's identity returns values the document no longer holds")
    m = p.module(PARSER)
    cd = m.classdef("OFXTree")
    if cd is None:
        raise AnalysisError("OFXTree not found")
    ci = p.classinfo(PARSER, cd)
    fn0 = ci.own_func("convert")
    if fn0 is None:
        raise AnalysisError("OFXTree.convert not found")
    fn = flat(p, PARSER, fn0, ci)
    try:
        kept = kept_from_earlier_call(p, PARSER, fn)
    except AnalysisError as e:
        rep.note(f"P-R9 undecided: {e}")
        return
    rep.check("P-R9", "OFXTree.convert:built-on-every-call", kept is None, f"a path returns {kept[:70] if kept else ''}: a model kept from an earlier call - changes made to the tree since then are not in it" if kept else "", ploc(p, fn0))


def p_r10_no_invented_end(p: Project, rep: Report):
    """typestate: an element is ended only because the input said so"""
    from . import paths as PT
    from .flat import flat

    rep.rule("P-R10", "end tags are never invented: the builder ends an element (self.end(..)) only inside the match dispatcher _feedmatch (private helpers inlined) and there only on paths that tested the match - an end tag, data text, or a captured close tag; no override of start()/data()/close()/feed() issues an end() of its own (an implied end turns a truncated or mis-nested document into a well-formed one)")
    ci = builder(p)
    fm0 = ci.own_func("_feedmatch")
    if fm0 is None:
        rep.note("P-R10 undecided: TreeBuilder has no _feedmatch")
        return
    # private helpers reachable from _feedmatch are part of the dispatcher
    own = {f.name: f for f in ci.node.body if isinstance(f, ast.FunctionDef)}
    disp, todo = set(), ["_feedmatch"]
    while todo:
        nm = todo.pop()
        if nm in disp or nm not in own:
            continue
        disp.add(nm)
        for c in ast.walk(own[nm]):
            if isinstance(c, ast.Call) and isinstance(c.func, ast.Attribute) and isinstance(c.func.value, ast.Name) and c.func.value.id in ("self", "cls") and c.func.attr.startswith("_") and not c.func.attr.startswith("__"):
                todo.append(c.func.attr)
    n = 0
    for nm, f in own.items():
        if nm in disp:
            continue
        for c in ast.walk(f):
            if isinstance(c, ast.Call) and text(c.func) == "self.end":
                n += 1
                rep.check("P-R10", f"TreeBuilder.{nm}:issues-end", False, f"{nm}() calls self.end({', '.join(text(a) for a in c.args)}): an element is ended although no end tag (and no data element) in the input called for it - mark-up with a missing end tag is then accepted as if it were complete", ploc(p, c))
    fm = flat(p, PARSER, fm0, ci)
    params = params_of(fm0)[1:]
    try:
        pths = PT.enumerate_paths(fm, None, Expander(fm))
    except AnalysisError as e:
        rep.note(f"P-R10 undecided: {e}")
        return
    cfg = pths.cfg
    enders = {nd.id for nd in cfg.nodes if nd.stmt is not None and nd.kind not in ("join", "handlers") and any(text(c.func) == "self.end" for c in nd.calls())}
    bad = bad2 = None
    all_atoms = set(PT.atoms_of(pths))
    if not any("'/'" in a or '"/"' in a for a in all_atoms):
        rep.note("P-R10 undecided: how _feedmatch tells an end tag from a start tag is not recognised")
        return
    for q in pths:
        if q.outcome not in ("return", "fall"):
            continue
        hit = [i for i in q.nodes if i in enders]
        if not hit:
            continue
        n += 1
        cb = q.conds_before(hit[0]) or []
        tested = False
        slash_atoms = set()
        for c, _w in cb:
            for a in c.atoms():
                if "'/'" in a or '"/"' in a:
                    slash_atoms.add(a)
                    tested = True
                if any(re.search(rf"\b{re.escape(x)}\b", a) for x in params[1:]):
                    tested = True
        if not tested:
            bad = PT.simple_conds(q.conds)
            continue
        # ... and the test has to ESTABLISH it: the conditions on the way imply `end tag, or data, or captured close
        # tag` - `closetag or <something the builder remembers>` lets an element be ended that the input left open
        goal = PT.any_of(*([PT.atom(f"bool({x})") for x in params[1:3]] + [PT.atom(a) for a in sorted(slash_atoms)]))
        known = {a for c, _w in cb for a in c.atoms()}
        if goal.atoms() & known and PT.implies(cb, goal) is False:
            extra = sorted(a for a in known if a not in goal.atoms() and not a.startswith("raises("))
            bad2 = (PT.simple_conds(q.conds), extra)
    if bad is None and bad2 is not None:
        rep.check("P-R10", "_feedmatch:end-only-for-end-tag-or-data", False, f"a path of _feedmatch ends an element although the match is neither an end tag nor carries data or a close tag; it depends on {bad2[1][:3]} instead (taken when {bad2[0]}): an element the input left open is closed because of something else the builder remembers", ploc(p, fm0))
        rep.floor("P-R10", n, 2, "end() sites")
        return
    rep.check("P-R10", "_feedmatch:end-only-for-end-tag-or-data", bad is None, f"a path of _feedmatch ends an element without having tested the match for an end tag, data or a close tag (taken when {bad})" if bad is not None else "", ploc(p, fm0))
    rep.floor("P-R10", n, 2, "end() sites")


_ELEMENT_MAKERS = ("close", "find", "getroot", "Element", "SubElement", "makeelement")


def _truth_tested(fn):
    """expressions used for their truth value: tests of if / while / ifexp / assert, operands of not / and / or, bool(x)"""
    for x in ast.walk(fn):
        if isinstance(x, (ast.If, ast.While, ast.IfExp, ast.Assert)):
            yield x.test
        elif isinstance(x, ast.BoolOp):
            yield from x.values
        elif isinstance(x, ast.UnaryOp) and isinstance(x.op, ast.Not):
            yield x.operand
        elif isinstance(x, ast.Call) and text(x.func) == "bool" and len(x.args) == 1:
            yield x.args[0]


def p_r11_no_element_truthiness(p: Project, rep: Report, modules=(PARSER,)):
    """an Element is false when it has no children"""
    rep.rule("P-R11", "no ElementTree element is judged by its truth value: bool(Element) is len(Element) - False for every element without children, whatever its tag and text - so `if not root:` / `elem or default` takes a well-formed one-node tree (<OFX></OFX>, a lone data element) or an empty aggregate for `nothing there`; presence is tested with `is None` / `is not None`")
    n_src = n_fn = 0
    for modname in modules:
        m = p.module(modname)
        for qn, cls, fn in m.functions():
            n_fn += 1
            elems = {}
            for st in ast.walk(fn):
                tg = st.targets[0] if isinstance(st, ast.Assign) and len(st.targets) == 1 else (st.target if isinstance(st, (ast.AnnAssign, ast.NamedExpr)) else None)
                v = getattr(st, "value", None)
                if tg is None or not isinstance(v, ast.Call):
                    continue
                last = (dotted(v.func) or text(v.func)).split(".")[-1]
                if last in _ELEMENT_MAKERS and isinstance(tg, (ast.Name, ast.Attribute)):
                    elems[text(tg)] = st
            a = fn.args
            for arg in a.posonlyargs + a.args + a.kwonlyargs:
                if arg.annotation is not None and text(arg.annotation).split(".")[-1] == "Element":
                    elems[arg.arg] = arg
            n_src += len(elems)
            if not elems:
                continue
            for t in _truth_tested(fn):
                tt = text(t)
                if tt in elems or (isinstance(t, ast.Call) and (dotted(t.func) or text(t.func)).split(".")[-1] in _ELEMENT_MAKERS and not text(t.func).startswith("re.") and text(t.func).split(".")[-1] != "find"):
                    rep.check("P-R11", f"{qn}:truth-of:{tt[:30]}", False, f"{qn} takes the truth value of `{tt}`, an ElementTree element: it is False for every element without child elements (<OFX></OFX>, <A1>0), so a well-formed childless tree / aggregate is handled as absent", ploc(p, t) if modname == PARSER else f"{m.relpath}:{t.lineno}")
    rep.unit("element_bindings_tracked", n_src)
    rep.check("P-R11", "elements:never-truth-tested", True, "", f"{n_fn} functions of {', '.join(modules)}; {n_src} element-valued locals / parameters tracked")
    if n_src == 0:
        rep.note("P-R11 undecided: no element-valued binding recognised")


def p_r12_feed_refuses_only_what_it_tokenized(p: Project, rep: Report):
    """what finditer steps over is not judged"""
    rep.rule("P-R12", "feed() refuses a document only for what the pattern matched (tail text, the groups handed to the dispatcher): every `raise` of its own is conditioned on values derived from the match's groups alone.  A refusal conditioned on the text BETWEEN matches (a second pattern searched over the gaps, positions compared) rejects documents the tokenizer passes over today - elements whose tag names lie outside its alphabet (<X-BANKREF>, <intu.bid>) are skipped with their data and the rest converts as if they were not there")
    ci = builder(p)
    fd0 = ci.own_func("feed")
    if fd0 is None:
        raise AnalysisError("TreeBuilder.feed not found")
    fd = fd0
    ex = Expander(fd)
    loops = [x for x in ast.walk(fd) if isinstance(x, ast.For) and isinstance(x.iter, ast.Call) and isinstance(x.iter.func, ast.Attribute) and x.iter.func.attr == "finditer"]
    if not loops:
        rep.note("P-R12 undecided: feed() has no finditer loop")
        return
    lp = loops[0]
    mvar = text(lp.target)
    datap = params_of(fd)[1] if len(params_of(fd)) > 1 else None
    n = 0

    def conds_of(node, body, acc):
        for st in body:
            if st is node or any(z is node for z in ast.walk(st)):
                if isinstance(st, ast.If):
                    arm = st.body if any(z is node for b in st.body for z in ast.walk(b)) else st.orelse
                    return conds_of(node, arm, acc + [st.test])
                if isinstance(st, ast.Try):
                    for part in (st.body, st.orelse, st.finalbody):
                        if any(z is node for b in part for z in ast.walk(b)):
                            return conds_of(node, part, acc)
                    return None  # inside an except handler: re-raise of the dispatcher's refusal
                if isinstance(st, (ast.For, ast.While, ast.With)):
                    return conds_of(node, st.body, acc)
                return acc
        return acc

    for r in ast.walk(lp):
        if not isinstance(r, ast.Raise):
            continue
        cs = conds_of(r, lp.body, [])
        if cs is None:
            continue
        n += 1
        for c in cs:
            xc = ex.x(c)
            bad = []
            for nm in ast.walk(xc):
                if isinstance(nm, ast.Name) and nm.id not in (mvar, "self", "len", "bool", "str", "isinstance", "any", "all") and nm.id != "None":
                    bad.append(nm.id)
                if isinstance(nm, ast.Call) and isinstance(nm.func, ast.Attribute) and nm.func.attr in ("search", "match", "fullmatch", "finditer", "findall", "find", "index", "count") and text(nm.func.value) != mvar:
                    bad.append(text(nm.func))
                if isinstance(nm, ast.Call) and isinstance(nm.func, ast.Attribute) and text(nm.func.value) == mvar and nm.func.attr in ("start", "end", "span", "pos", "endpos"):
                    bad.append(text(nm.func))
            ok = not bad
            rep.check("P-R12", f"feed:raise:{text(norm(c))[:40]}", ok, f"feed() refuses the document under `{text(c)[:60]}`, which depends on {sorted(set(bad))} - not on the groups of the current match: text the tokenizer steps over (tags outside its alphabet, with their data) now makes the whole document fail instead of being passed over" if not ok else "", ploc(p, r))
    rep.unit("feed_refusals", n)
    if n == 0:
        rep.note("P-R12: feed() raises nothing of its own")


def p_r13_no_exit_from_finally(p: Project, rep: Report, modules=(PARSER,)):
    """a return / break / continue inside `finally:` discards the exception in flight"""
    rep.rule("P-R13", "no `finally:` block of the parser leaves by return / break / continue: such a statement DISCARDS the exception being propagated - a ParseError raised by feed() for a second top-level element or a stray end tag is swallowed by `finally: ...; return self._root` and the tree built so far is handed back as if the document were well-formed")
    n = 0
    for modname in modules:
        m = p.module(modname)
        for qn, cls, fn in m.functions():
            for t in ast.walk(fn):
                if not isinstance(t, ast.Try) or not t.finalbody:
                    continue
                n += 1

                def exits(stmts, in_loop=False):
                    for st in stmts:
                        if isinstance(st, ast.Return):
                            return st
                        if isinstance(st, (ast.Break, ast.Continue)) and not in_loop:
                            return st
                        if isinstance(st, (ast.FunctionDef, ast.ClassDef, ast.Lambda)):
                            continue
                        for fld in ("body", "orelse", "finalbody"):
                            sub = getattr(st, fld, None)
                            if isinstance(sub, list) and sub and isinstance(sub[0], ast.stmt):
                                r = exits(sub, in_loop or isinstance(st, (ast.For, ast.While)))
                                if r is not None:
                                    return r
                        for h in getattr(st, "handlers", []) or []:
                            r = exits(h.body, in_loop)
                            if r is not None:
                                return r
                    return None

                bad = exits(t.finalbody)
                rep.check("P-R13", f"{qn}:finally-does-not-exit", bad is None, f"{qn} leaves its `finally:` block by `{type(bad).__name__.lower()}` (line {bad.lineno}): an exception raised in the try body - the ParseError for improperly nested or trailing markup - is discarded and the caller receives a tree" if bad is not None else "", f"{m.relpath}:{(bad or t).lineno}")
    rep.unit("try_finally_blocks", n)
    rep.check("P-R13", "parser:no-exit-from-finally", True, "", f"{n} try/finally blocks in {', '.join(modules)}")


def p_r14_feed_dispatches_the_current_match(p: Project, rep: Report):
    """what is dispatched for a match is computed from that match"""
    from .fresh import _is_store

    rep.rule("P-R14", "what feed() hands to the dispatcher for a match is computed from THAT match: no argument of _feedmatch (locals expanded, `*token` unpacked to its definition) is read out of a container that outlives the iteration - an attribute of the builder or a module-level table filled while feeding.  A memo of groomed tokens keyed by some of the groups answers a later match with an earlier one's data whenever the key leaves a group out (two CDATA leaves of one tag share (tag, None, None): the second gets the first's value)")
    ci = builder(p)
    fd0 = ci.own_func("feed")
    if fd0 is None:
        raise AnalysisError("TreeBuilder.feed not found")
    from .flat import flat

    fd = flat(p, PARSER, fd0, ci, keep=("_feedmatch", "_groomstring", "_start"))
    ex = Expander(fd)
    defs = local_defs(fd)
    calls = [c_ for c_ in ast.walk(fd) if isinstance(c_, ast.Call) and text(c_.func) == "self._feedmatch"]
    if not calls:
        rep.note("P-R14 undecided: feed() does not call self._feedmatch")
        return

    def stored_source(e, depth=6):
        """the first sub-expression that reads a store outliving the iteration, following locals (all definitions)"""
        if depth <= 0:
            return None
        for x in ast.walk(e):
            if isinstance(x, (ast.Subscript, ast.Call)) and _is_store(p, PARSER, x) and not (isinstance(x, ast.Call) and text(x.func).startswith("self._groomstring")) and not text(x).startswith("self.regex"):
                return text(x)
            if isinstance(x, ast.Name) and x.id in defs:
                for d in defs[x.id]:
                    v = d.value if isinstance(getattr(d, "value", None), ast.AST) else None
                    if v is None or v is e:
                        continue
                    # an alias of a stored container: tokens = self._tokens ; token = tokens.get(key)
                    if isinstance(v, ast.Attribute) and isinstance(v.value, ast.Name) and v.value.id in ("self", "cls") and v.attr not in ("regex",):
                        uses = [y for y in ast.walk(e) if isinstance(y, (ast.Subscript, ast.Call)) and any(isinstance(z, ast.Name) and z.id == x.id for z in ast.walk(y))]
                        if uses:
                            return f"{x.id} (= {text(v)})"
                    r = stored_source(v, depth - 1)
                    if r is not None:
                        return r
        return None

    for c_ in calls:
        bad = None
        for a in list(c_.args) + [k.value for k in c_.keywords]:
            a = a.value if isinstance(a, ast.Starred) else a
            bad = bad or stored_source(a)
        rep.check("P-R14", "feed:dispatches-what-this-match-holds", bad is None, f"an argument of _feedmatch is read from {bad}: a value kept from an earlier match - a token memo whose key omits one of the groups (the CDATA data, say) hands a later element the earlier element's data" if bad else "", ploc(p, c_))


def p_r15_match_patterns_do_not_rebind(p: Project, rep: Report, modules=(PARSER,)):
    """a bare name in a match pattern CAPTURES; it never compares"""
    rep.rule("P-R15", "no `case` pattern of the parser binds a name that is a parameter or an existing local of the function: a bare name in a pattern (`case [*_, tag]:`) is a CAPTURE - it matches anything and re-binds the name - not a comparison with the variable's value (that takes a dotted name, a literal, or a guard).  An end-tag check rewritten as `match self._open: case [*_, tag]` accepts every end tag whatever element is open")
    n = 0
    for modname in modules:
        m = p.module(modname)
        for qn, cls, fn in m.functions():
            names = set(params_of(fn))
            for st in ast.walk(fn):
                if isinstance(st, (ast.Assign, ast.AnnAssign, ast.AugAssign, ast.For)):
                    for t in ast.walk(st.targets[0] if isinstance(st, ast.Assign) else st.target):
                        if isinstance(t, ast.Name):
                            names.add(t.id)
            for mt in ast.walk(fn):
                if not isinstance(mt, ast.Match):
                    continue
                for case in mt.cases:
                    for pat in ast.walk(case.pattern):
                        nm = None
                        if isinstance(pat, ast.MatchAs) and pat.name is not None:
                            nm = pat.name
                        elif isinstance(pat, ast.MatchStar) and pat.name is not None and pat.name != "_":
                            nm = pat.name
                        if nm is None:
                            continue
                        n += 1
                        clash = nm in names
                        rep.check("P-R15", f"{qn}:case-binds:{nm}", not clash, f"{qn}: the pattern `{ast.unparse(case.pattern)[:40]}` binds `{nm}`, which is already a parameter / local of the function: the pattern does not compare with its value, it matches anything and overwrites it - the check this `case` was meant to make is not made" if clash else "", f"{m.relpath}:{case.pattern.lineno}")
    rep.unit("match_captures", n)
    rep.check("P-R15", "parser:no-rebinding-captures", True, "", f"{n} capture patterns in {', '.join(modules)}")
