"""Cache rules K-R1..5 (C15): write discipline of OFXClient.request_profile."""
from __future__ import annotations

import ast
from typing import List, Optional, Set

from .cfg import CFG, Node, assume
from .dataflow import Reaching, local_defs, own_nodes, own_statements, params_of, resolve_values
from .match import norm, text
from .report import Report
from .rules_client import _bind, _sources, client_class, loc
from .source import AnalysisError, Project, dotted

WRITE_MODES = ("w", "a", "x", "+")


def _open_for_write(c: ast.Call) -> Optional[ast.AST]:
    """path expression if the call opens a file for writing"""
    d = dotted(c.func) or ""
    if d.split(".")[-1] == "open":
        if isinstance(c.func, ast.Attribute) and d != "io.open" and d != "os.open" and d.split(".")[0] not in ("io", "os", "builtins"):
            # path.open("wb")
            mode = c.args[0] if c.args else next((k.value for k in c.keywords if k.arg == "mode"), None)
            if isinstance(mode, ast.Constant) and any(m in str(mode.value) for m in WRITE_MODES):
                return c.func.value
            return None
        mode = c.args[1] if len(c.args) > 1 else next((k.value for k in c.keywords if k.arg == "mode"), None)
        if isinstance(mode, ast.Constant) and any(m in str(mode.value) for m in WRITE_MODES):
            return c.args[0] if c.args else None
    if isinstance(c.func, ast.Attribute) and c.func.attr in ("write_bytes", "write_text"):
        return c.func.value
    return None


def _replace_call(c: ast.Call):
    """(src, dst) for os.replace/os.rename/shutil.move(src, dst) or src.replace(dst)/src.rename(dst) on paths"""
    d = dotted(c.func) or ""
    if d in ("os.replace", "os.rename", "shutil.move") and len(c.args) == 2:
        return c.args[0], c.args[1]
    if isinstance(c.func, ast.Attribute) and c.func.attr in ("replace", "rename") and len(c.args) == 1 and not isinstance(c.func.value, ast.Constant) and "path" in text(c.func.value).lower():
        return c.func.value, c.args[0]
    return None


def k_rules(p: Project, rep: Report):
    ci = client_class(p)
    fn = ci.own_func("request_profile")
    if fn is None:
        raise AnalysisError("OFXClient.request_profile not found")
    cfg = CFG(fn)
    reach = Reaching(cfg)
    defs = local_defs(fn)

    # -- locate the cache path: the path tested with .exists() and read
    exists = [n for n in cfg.nodes if n.kind == "test" and text(n.stmt.test).endswith(".exists()")]
    if not exists:
        raise AnalysisError("K: request_profile no longer tests whether a cached profile exists")
    cache = text(exists[0].stmt.test)[: -len(".exists()")]

    writes = []  # (node, call, path expr)
    for n in cfg.nodes:
        for c in n.calls():
            pth = _open_for_write(c)
            if pth is not None:
                writes.append((n, c, pth))
    replaces = []
    for n in cfg.nodes:
        for c in n.calls():
            r = _replace_call(c)
            if r is not None:
                replaces.append((n, c, r[0], r[1]))
    if not writes:
        raise AnalysisError("K: request_profile no longer writes the cache")

    rep.rule("K-R1", "validate before you overwrite: every cache write is dominated by parsing and converting the server's response, by the status-code check and by the check that the server's profile is not older than the cached one; it is unreachable on a dry run; what is written is the response just validated")
    resp_def = [d for d in defs.get("response", []) if d.kind == "assign" and isinstance(d.value, ast.Call) and text(d.value.func) == "self._request_profile"]
    if not resp_def:
        raise AnalysisError("K-R1: response = self._request_profile(...) not found")
    resp_node = cfg.node_of(resp_def[0].stmt)
    parses = [n for n in cfg.nodes_calling(lambda c: isinstance(c.func, ast.Attribute) and c.func.attr == "parse" and c.args and text(c.args[0]) == "response") if resp_node.id in _before(cfg, n)]
    converts = [n for n in cfg.nodes_calling(lambda c: isinstance(c.func, ast.Attribute) and c.func.attr == "convert") if parses and any(cfg.dominated_by(n.id, [q.id]) for q in parses)]
    # "status is success": an assert, or the true branch of a test, of `<...>.status.code == 0`
    status = [n for n in cfg.nodes if n.kind == "assert" and text(norm(n.stmt.test)).endswith("status.code == 0")]
    for n in cfg.nodes:
        if n.kind == "test" and text(norm(n.stmt.test)).endswith("status.code == 0"):
            then = [x for x in cfg.nodes if x.kind == "join" and x.stmt is n.stmt and x.label == "then"]
            status += then
    dates = [n for n in cfg.nodes if n.kind in ("assert", "test") and text(norm(n.stmt.test)) in ("dtprofup is None or dtprofup <= dtprofup_server", "dtprofup is None or dtprofup < dtprofup_server")]
    targets = [(n, c) for n, c, _ in writes] + [(n, c) for n, c, _, _ in replaces]
    for n, c in targets:
        lab = text(c.func)
        for name, doms in (("parsed", parses), ("converted", converts), ("status-checked", status), ("not-older-than-cache", dates)):
            ok = bool(doms) and cfg.dominated_by(n.id, [d.id for d in doms])
            why = {"parsed": "the response is stored before it has been parsed: malformed data replaces a good cache and every later request fails while reading it",
                   "converted": "the response is stored before it has been converted/validated",
                   "status-checked": "the response is stored whatever its status code (an error reply replaces the cached profile)",
                   "not-older-than-cache": "the response is stored without checking that the server's DTPROFUP is not older than the cached one: a newer profile can be replaced by an older one"}[name]
            rep.check("K-R1", f"request_profile:{lab}:{name}", ok, why if not ok else "", loc(p, c))
        r = cfg.reachable(cfg.entry.id, edge_filter=assume({"dryrun": True}))
        rep.check("K-R1", f"request_profile:{lab}:not-on-dryrun", n.id not in r, "the cache is written on a dry run" if n.id in r else "", loc(p, c))
    # status guard semantics: the write branch is the `== 0` side
    for sn in status:
        pass
    wr = [c for c in own_nodes(fn) if isinstance(c, ast.Call) and isinstance(c.func, ast.Attribute) and c.func.attr in ("write", "write_bytes")]
    for c in wr:
        node = [n for n in cfg.nodes if any(x is c for x in n.calls())][0]
        src = _sources(c.args[0], node, reach) if c.args else set()
        ok = src == {"call:self._request_profile"}
        rep.check("K-R1", "request_profile:writes-validated-response", ok, f"the bytes written derive from {sorted(src)}, not from the response that was validated" if not ok else "", loc(p, c))
    # up-to-date branch returns the cached copy
    ok = any(isinstance(s, ast.Assign) and text(s.targets[0]) == "response" and text(s.value) == "profrs" for s in own_statements(fn))
    rep.check("K-R1", "request_profile:up-to-date-returns-cached", ok, "" if ok else "when the server says the profile is up to date the cached copy is not what is returned", loc(p, fn))

    rep.rule("K-R2", "the cache is replaced atomically: nothing is opened for writing at the cache path itself; the bytes go to a different, per-writer-unique name in the same directory, and every such write is followed on all normal paths by an atomic rename onto the cache path")
    for n, c, pth in writes:
        vals = [text(v) for v in resolve_values(pth, n, reach)]
        inplace = any(v == cache or v == f"str({cache})" for v in vals) or text(pth) == cache
        rep.check("K-R2", f"request_profile:{text(c.func)}:not-in-place", not inplace, f"the cache file {cache} is opened for writing in place: a crash mid-write, or a second writer, leaves a truncated or interleaved file and every later request fails while parsing it" if inplace else "", loc(p, c))
        if inplace:
            continue
        src = _sources(pth, n, reach)
        unique = any(s in ("self.uuid", "call:self.uuid") or "uuid" in s or "mkstemp" in s or "NamedTemporaryFile" in s or "getpid" in s or "token_hex" in s for s in src)
        rep.check("K-R2", f"request_profile:{text(c.func)}:temp-name-unique-per-writer", unique, f"the temporary name derives from {sorted(src)} only: two concurrent writers open the same temporary file and interleave their output" if not unique else "", loc(p, c))
        samedir = any(cache in v or "persistdir" in v for v in vals) or any(cache.split(".")[0] in s for s in src) or any("persist" in v for v in vals)
        rep.check("K-R2", f"request_profile:{text(c.func)}:temp-in-cache-directory", samedir, "the temporary file is not created next to the cache file (rename is only atomic within one file system)" if not samedir else "", loc(p, c))
        followers = [rn for rn, rc, s_, d_ in replaces if text(s_) == text(pth) and text(d_) == cache]
        ok = bool(followers) and cfg.must_pass_through([cfg.exit.id], [f.id for f in followers], edge_filter=cfg.normal_only(), start=n.id)
        rep.check("K-R2", f"request_profile:{text(c.func)}:renamed-onto-cache", ok, f"the temporary file is not renamed onto {cache} (os.replace) on every normal path after it was written" if not ok else "", loc(p, c))
    for n, c, s_, d_ in replaces:
        atomic = (dotted(c.func) or "") in ("os.replace", "os.rename") or (isinstance(c.func, ast.Attribute) and c.func.attr in ("replace", "rename"))
        rep.check("K-R2", f"request_profile:{text(c.func)}:atomic", atomic, "the move onto the cache path is not an atomic rename" if not atomic else "", loc(p, c))

    rep.rule("K-R3", "the cache path identifies the server: ORG, FID and URL are three separate obligations, each must contribute to the file name unconditionally (not only as a fallback for another component)")
    fname_defs = defs.get("filename", []) or defs.get(cache, [])
    name_expr = None
    for d in defs.get(cache, []):
        if d.kind == "assign":
            name_expr = d.value
    comps = _unconditional_components(name_expr, defs)
    for comp, attr in (("org", "self.org"), ("fid", "self.fid"), ("url", "self.url")):
        ok = attr in comps
        rep.check("K-R3", f"request_profile:cache-key({comp})", ok, f"the cache file name does not always depend on {attr} (components used unconditionally: {sorted(comps)}): two servers that differ only in {comp.upper()} share one cache entry, and a profile cached from one is used for the other" if not ok else "", loc(p, name_expr if name_expr is not None else fn))

    rep.rule("K-R4", "ask with the date you hold: the DTPROFUP passed to _request_profile is the one parsed from the cached profile when a cache file was read and None otherwise; _request_profile sends that date (1990-01-01 only when None)")
    calls = cfg.nodes_calling(lambda c: text(c.func) == "self._request_profile")
    for n in calls:
        c = [x for x in n.calls() if text(x.func) == "self._request_profile"][0]
        kw = [k for k in c.keywords if k.arg == "dtprofup"]
        if not kw:
            rep.check("K-R4", "request_profile:passes-dtprofup", False, "the cached profile's date is not passed on: the server is always asked as if nothing were cached", loc(p, c))
            continue
        for flag, want in ((True, {"proftrnrs.profrs.dtprofup"}), (False, {"None"})):
            rr = Reaching(cfg, edge_filter=_assume_exists(cache, flag))
            vals = {text(v) for v in resolve_values(kw[0].value, n, rr)}
            ok = vals == want
            rep.check("K-R4", f"request_profile:dtprofup-when-cache-{'present' if flag else 'absent'}", ok, f"with the cache {'present' if flag else 'absent'} the date sent is {sorted(vals)}; expected {sorted(want)}" if not ok else "", loc(p, c))
    # the cached date comes from the cached file's content
    cached_parse = [n for n in cfg.nodes_calling(lambda c: isinstance(c.func, ast.Attribute) and c.func.attr == "parse" and c.args and text(c.args[0]) == "profrs")]
    ok = bool(cached_parse)
    rep.check("K-R4", "request_profile:cached-date-from-cached-file", ok, "" if ok else "the held date is not read from the cached profile", loc(p, fn))
    rfn = ci.own_func("_request_profile")
    rcfg = CFG(rfn)
    rreach = Reaching(rcfg)
    for n in rcfg.nodes_calling(lambda c: isinstance(c.func, ast.Name) and c.func.id == "PROFRQ"):
        c = [x for x in n.calls() if isinstance(x.func, ast.Name) and x.func.id == "PROFRQ"][0]
        b = _bind(c, [])
        src = _sources(b.get("dtprofup"), n, rreach) if "dtprofup" in b else set()
        ok = "param:dtprofup" in src and all(s == "param:dtprofup" or s.startswith("const:") or s in ("global:UTC", "fn:datetime") or "datetime" in s for s in src)
        rep.check("K-R4", "_request_profile:PROFRQ(dtprofup)", ok, f"PROFRQ.dtprofup derives from {sorted(src)}" if not ok else "", loc(p, c))
        fallback = [s for s in own_statements(rfn) if isinstance(s, ast.If) and text(norm(s.test)) == "dtprofup is None"]
        ok = bool(fallback)
        rep.check("K-R4", "_request_profile:default-only-when-None", ok, "" if ok else "the 1990 default is not limited to the case where no date is held", loc(p, rfn))


def _before(cfg: CFG, n: Node) -> Set[int]:
    """ids of nodes from which n is reachable"""
    out = set()
    for m in cfg.nodes:
        if n.id in cfg.reachable(m.id):
            out.add(m.id)
    return out


def _assume_exists(cache: str, flag: bool):
    def f(a, b, lab):
        if a.kind == "test" and lab in ("true", "false") and text(a.stmt.test) == f"{cache}.exists()":
            return (lab == "true") == flag
        return True

    return f


def _unconditional_components(expr, defs, depth=6) -> Set[str]:
    """self.<attr> reads that contribute to the value on every evaluation: top-level interpolations of
    f-strings / format() / '+' / path '/', through local names; operands of `or`, `and`, conditional
    expressions only count for their first (always evaluated and, for `or`, not always used) part - so
    they do not count at all."""
    out: Set[str] = set()
    if expr is None or depth <= 0:
        return out
    if isinstance(expr, ast.Attribute) and text(expr.value) == "self":
        return {text(expr)}
    if isinstance(expr, ast.JoinedStr):
        for v in expr.values:
            if isinstance(v, ast.FormattedValue):
                out |= _unconditional_components(v.value, defs, depth - 1)
        return out
    if isinstance(expr, ast.BinOp) and isinstance(expr.op, (ast.Add, ast.Div, ast.Mod)):
        return _unconditional_components(expr.left, defs, depth - 1) | _unconditional_components(expr.right, defs, depth - 1)
    if isinstance(expr, ast.Tuple):
        for e in expr.elts:
            out |= _unconditional_components(e, defs, depth - 1)
        return out
    if isinstance(expr, (ast.BoolOp, ast.IfExp)):
        return set()
    if isinstance(expr, ast.Call):
        for a in expr.args:
            out |= _unconditional_components(a, defs, depth - 1)
        for k in expr.keywords:
            out |= _unconditional_components(k.value, defs, depth - 1)
        if isinstance(expr.func, ast.Attribute):
            out |= _unconditional_components(expr.func.value, defs, depth - 1)
        return out
    if isinstance(expr, ast.Name):
        ds = [d for d in defs.get(expr.id, []) if d.kind == "assign"]
        if len(ds) == 1:
            return _unconditional_components(ds[0].value, defs, depth - 1)
        return set()
    if isinstance(expr, ast.Attribute):
        return _unconditional_components(expr.value, defs, depth - 1)
    return out
