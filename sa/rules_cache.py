"""Cache rules K-R1..4 (C15): write discipline of OFXClient.request_profile.

The rules work on the FLATTENED method (private helpers inlined) and on its enumerated paths; the objects
they talk about are identified by ROLE, never by name:
  net response  = the value returned by self._request_profile(...)
  cache path    = the path that is opened for reading (its resolved expression)
  cached copy   = whatever derives from that read
  a cache write = an open-for-writing / write_bytes, and a rename (os.replace...) onto some path
`origins()` follows a value back along ONE path (through locals, with-bindings, tuple unpacking and the
arguments fed to an object's methods), so `parser.parse(x); ofx = parser.convert(); t = ofx.a[0]` derives from x."""
from __future__ import annotations

import ast
from typing import List, Optional, Set

from .cfg import CFG
from .dataflow import own_nodes, params_of
from .match import Expander, text
from .paths import Cond, PathList, any_of, atom, enumerate_paths, feasible, implies, origins, simple_conds, value_on_path
from .report import Report
from .rules_client import _bind, client_class, loc, need
from .source import AnalysisError, Project, dotted

WRITE_MODES = ("w", "a", "x", "+")
NET = "call:self._request_profile"
UNIQUE_MARKS = ("uuid", "mkstemp", "NamedTemporaryFile", "getpid", "token_hex", "token_urlsafe", "get_ident")


def _open_for_write(c: ast.Call) -> Optional[ast.AST]:
    """path expression if the call opens a file for writing"""
    d = dotted(c.func) or ""
    if d.split(".")[-1] == "open":
        if isinstance(c.func, ast.Attribute) and d.split(".")[0] not in ("io", "os", "builtins"):
            # path.open("wb")
            mode = c.args[0] if c.args else next((k.value for k in c.keywords if k.arg == "mode"), None)
            if isinstance(mode, ast.Constant) and any(m in str(mode.value) for m in WRITE_MODES):
                return c.func.value
            return None
        mode = c.args[1] if len(c.args) > 1 else next((k.value for k in c.keywords if k.arg == "mode"), None)
        if isinstance(mode, ast.Constant) and any(m in str(mode.value) for m in WRITE_MODES):
            return c.args[0] if c.args else None
    if isinstance(c.func, ast.Attribute) and c.func.attr in ("write_bytes", "write_text"):
        return c.func.value
    if d.split(".")[-1] in ("NamedTemporaryFile", "mkstemp", "TemporaryFile", "SpooledTemporaryFile"):
        # a temporary file created for writing: the call itself stands for its (generated, unique) path
        return c
    return None


def _open_for_read(c: ast.Call) -> Optional[ast.AST]:
    d = dotted(c.func) or ""
    if d.split(".")[-1] == "open":
        if isinstance(c.func, ast.Attribute) and d.split(".")[0] not in ("io", "os", "builtins"):
            mode = c.args[0] if c.args else next((k.value for k in c.keywords if k.arg == "mode"), None)
            if mode is None or (isinstance(mode, ast.Constant) and not any(m in str(mode.value) for m in WRITE_MODES)):
                return c.func.value
            return None
        mode = c.args[1] if len(c.args) > 1 else next((k.value for k in c.keywords if k.arg == "mode"), None)
        if c.args and (mode is None or (isinstance(mode, ast.Constant) and not any(m in str(mode.value) for m in WRITE_MODES))):
            return c.args[0]
        return None
    if isinstance(c.func, ast.Attribute) and c.func.attr in ("read_bytes", "read_text") and not c.args:
        return c.func.value
    return None


def _replace_call(c: ast.Call):
    """(src, dst) for os.replace/os.rename/shutil.move(src, dst) or src.replace(dst)/src.rename(dst) on paths"""
    d = dotted(c.func) or ""
    if d in ("os.replace", "os.rename", "shutil.move", "shutil.copy", "shutil.copyfile", "shutil.copy2") and len(c.args) == 2:
        return c.args[0], c.args[1]
    if isinstance(c.func, ast.Attribute) and c.func.attr in ("replace", "rename") and len(c.args) == 1 and not isinstance(c.func.value, ast.Constant) and "path" in text(c.func.value).lower():
        return c.func.value, c.args[0]
    return None


def _rtext(q, cfg, e, upto) -> str:
    return text(value_on_path(q, cfg, e, upto=upto))


def _facts(q, upto_mark):
    """conditions established on q before the node (list of CW)"""
    return q.conds[:upto_mark]


def _atom_exprs(c: Cond):
    """(atom text, parsed expression) for the atoms of a condition"""
    for a in sorted(c.atoms()):
        try:
            yield a, ast.parse(a, mode="eval").body
        except SyntaxError:
            continue


def k_rules(p: Project, rep: Report):
    ci = client_class(p)
    fn = need(p, ci, "request_profile")
    params = params_of(fn)
    all_paths = enumerate_paths(fn, None, Expander(fn), resolve=False)
    cfg = all_paths.cfg
    paths = PathList(q for q in all_paths if feasible(q, cfg))
    paths.cfg = cfg

    def nodes_with(pred):
        out = []
        for n in cfg.nodes:
            if n.stmt is None or n.kind in ("join", "handlers"):
                continue
            for c in n.calls():
                r = pred(c)
                if r is not None:
                    out.append((n, c, r))
        return out

    reads = nodes_with(_open_for_read)
    writes = nodes_with(_open_for_write)
    replaces = nodes_with(_replace_call)
    nets = nodes_with(lambda c: True if text(c.func) == "self._request_profile" else None)
    if not nets:
        raise AnalysisError("K: request_profile no longer calls self._request_profile")
    if not reads:
        raise AnalysisError("K: request_profile no longer reads a cached profile")
    if not writes:
        raise AnalysisError("K: request_profile no longer writes the cache")
    rep.unit("request_profile_paths", len(paths))

    # the cache path: resolved expression(s) of what is opened for reading
    cache_texts: Set[str] = set()
    cache_exprs = {}
    for q in paths:
        for n, c, pth in reads:
            i = q.index_of(n.id)
            if i is not None:
                v = value_on_path(q, cfg, pth, upto=i)
                cache_texts.add(text(v))
                cache_exprs[text(v)] = v
    if not cache_texts:
        raise AnalysisError("K: no path of request_profile reaches the cache read")

    def is_cache(t: str) -> bool:
        return t in cache_texts or any(t == f"str({c})" for c in cache_texts)

    def from_cache(src: Set[str]) -> bool:
        return any(s.startswith("open[") and not any(m in s.split("]")[0] for m in WRITE_MODES) and is_cache(s.split("]:", 1)[1]) for s in src)

    def net_atoms(q, facts, suffix_pred):
        """[(atom text, expr)] of atoms in facts that mention a value derived from the net response and satisfy pred"""
        out = []
        for cw in facts:
            for a, e in _atom_exprs(cw[0]):
                if suffix_pred(a, e):
                    out.append((a, e, cw.pos))
        return out

    # ------------------------------------------------------------------ K-R1
    rep.rule("K-R1", "validate before you overwrite: on every path, a cache write / rename comes after the server's response has been parsed and converted, after a check that its status code is 0, and after a check that the server's DTPROFUP is not older than the one held; it is unreachable on a dry run; what is written derives from the response just validated, and an 'up to date' answer (status 1) returns the cached copy")
    targets = [(n, c) for n, c, _ in writes] + [(n, c) for n, c, _ in replaces]
    held_exprs = []
    for n, c, _ in nets:
        rfn0 = ci.own_func("_request_profile")
        b = _bind(c, [a.arg for a in rfn0.args.args[1:]]) if rfn0 is not None else {k.arg: k.value for k in c.keywords}
        if "dtprofup" in b:
            held_exprs.append((n, b["dtprofup"]))
    other_dates: Set[str] = set()
    odd_dates: Set[str] = set()

    def fresher_than_held(q, facts):
        """do the facts establish `nothing is held, or the server's date is not older than the held one`?
        True / False / None (too many conditions)"""
        held_none = False
        held_names: Set[str] = set()
        for hn, he in held_exprs:
            hi = q.index_of(hn.id)
            if hi is None:
                continue
            hv = value_on_path(q, cfg, he, upto=hi)
            if isinstance(hv, ast.Constant) and hv.value is None:
                held_none = True
            held_names.add(text(he))
        if held_none:
            return True
        items = []
        for cw in facts:
            for a, e in _atom_exprs(cw[0]):
                if isinstance(e, ast.Compare) and isinstance(e.ops[0], ast.Lt):
                    l, r_ = e.left, e.comparators[0]
                    lo, ro = origins(q, cfg, l, cw.pos, params), origins(q, cfg, r_, cw.pos, params)
                    l_net, r_net = NET in lo, NET in ro
                    l_held = from_cache(lo) or text(l) in held_names
                    r_held = from_cache(ro) or text(r_) in held_names
                    # the date that says how new the profile about to be stored is, is that profile's own DTPROFUP
                    net_side = l if (l_net and not r_net) else (r_ if (r_net and not l_net) else None)
                    if net_side is not None:
                        nv = value_on_path(q, cfg, net_side, upto=cw.pos)
                        nt = text(nv)
                        if isinstance(nv, (ast.BoolOp, ast.IfExp)) or "sonrs" in nt.lower():
                            other_dates.add(nt[:80])
                        elif not (nt.endswith(".dtprofup") and "profrs" in nt.lower()):
                            odd_dates.add(nt[:80])
                    if l_net and r_held and not r_net:
                        items.append(atom(a, False))  # not (server < held)
                        items.append(atom(f"{text(r_)} is None", True))
                    elif r_net and l_held and not l_net:
                        items.append(atom(a, True))  # held < server
                        items.append(atom(f"{text(l)} is None", True))
        for h in sorted(held_names):
            if h.isidentifier():
                items.append(atom(f"{h} is None", True))
        if not items:
            return False
        return implies(facts, any_of(*items))

    for n, c in targets:
        lab = text(c.func)
        verdict = {"parsed": True, "converted": True, "status-checked": True, "not-older-than-cache": True, "not-on-dryrun": True}
        undec = set()
        through = 0
        for q in paths:
            i = q.index_of(n.id)
            if i is None:
                continue
            through += 1
            facts = q.conds[: q.marks[n.id]]
            # parse / convert of the net response before the write
            parsed_at = None
            parser_obj = None
            for j in range(i):
                m = cfg.nodes[q.nodes[j]]
                if m.stmt is None or m.kind in ("join", "handlers"):
                    continue
                for cc in m.calls():
                    if isinstance(cc.func, ast.Attribute) and cc.func.attr in ("parse", "feed", "fromstring") and cc.args and NET in origins(q, cfg, cc.args[0], j, params):
                        parsed_at, parser_obj = j, text(cc.func.value)
            if parsed_at is None:
                verdict["parsed"] = False
                verdict["converted"] = False
            else:
                conv = False
                for j in range(parsed_at, i):
                    m = cfg.nodes[q.nodes[j]]
                    if m.stmt is None or m.kind in ("join", "handlers"):
                        continue
                    for cc in m.calls():
                        if isinstance(cc.func, ast.Attribute) and cc.func.attr == "convert" and text(cc.func.value) == parser_obj:
                            conv = True
                if not conv:
                    verdict["converted"] = False
            # status code of the net response is 0
            goal_items = []
            mention = False
            for cw in facts:
                for a, e0 in _atom_exprs(cw[0]):
                    # the condition may test a local that holds the status code: look through locals on this path
                    e = value_on_path(q, cfg, e0, upto=cw.pos, depth=1) if "status.code" not in a else e0
                    if "status.code" not in text(e):
                        continue
                    # which side carries the status code
                    operand = None
                    form = None
                    if isinstance(e, ast.Compare) and isinstance(e.ops[0], ast.Eq):
                        sides = [e.left, e.comparators[0]]
                        code = [s_ for s_ in sides if text(s_).endswith("status.code")]
                        const = [s_ for s_ in sides if isinstance(s_, ast.Constant)]
                        if code and const:
                            operand, form = code[0], ("eq", const[0].value)
                    elif isinstance(e, ast.Call) and text(e.func) == "bool" and text(e.args[0]).endswith("status.code"):
                        operand, form = e.args[0], ("truthy", None)
                    if operand is None:
                        undec.add(f"status test `{a}` not understood")
                        mention = True
                        continue
                    if NET not in origins(q, cfg, operand, cw.pos, params):
                        continue
                    mention = True
                    if form == ("eq", 0):
                        goal_items.append(atom(a, True))
                    elif form[0] == "truthy":
                        goal_items.append(atom(a, False))
            if not goal_items:
                if not mention or not undec:
                    verdict["status-checked"] = False
            else:
                r = implies(facts, any_of(*goal_items))
                if r is False:
                    verdict["status-checked"] = False
                elif r is None:
                    undec.add("status check: too many conditions")
            # not older than what is held
            fr = fresher_than_held(q, facts)
            if fr is False:
                verdict["not-older-than-cache"] = False
            elif fr is None:
                undec.add("date check: too many conditions")
            # dry run
            if "dryrun" in params:
                r = implies(facts, atom("bool(dryrun)", False))
                if r is False:
                    verdict["not-on-dryrun"] = False
        if through == 0:
            continue
        why = {"parsed": "the response is stored before it has been parsed: malformed data replaces a good cache and every later request fails while reading it",
               "converted": "the response is stored before it has been converted/validated",
               "status-checked": "the response is stored whatever its status code (an error reply replaces the cached profile)",
               "not-older-than-cache": "the response is stored without checking that the server's DTPROFUP is not older than the cached one: a newer profile can be replaced by an older one",
               "not-on-dryrun": "the cache is written on a dry run"}
        for name, ok in verdict.items():
            if not ok or not undec or name in ("parsed", "converted", "not-on-dryrun"):
                rep.check("K-R1", f"request_profile:{lab}:{name}", ok, why[name] if not ok else "", loc(p, c))
        for u in sorted(undec):
            rep.note(f"K-R1 undecided for {lab}: {u}")
        if through:
            rep.check("K-R1", f"request_profile:{lab}:date-compared-is-the-stored-profile's", not other_dates, f"the date compared with the held one is {sorted(other_dates)[0]}: not (only) the DTPROFUP of the PROFRS that is about to be stored - a reply whose sign-on carries a later date than its profile lets an OLDER profile replace the cached one, and the next request asks with the older date" if other_dates else "", loc(p, c))
            for o_ in sorted(odd_dates):
                rep.note(f"K-R1 undecided for {lab}: the server-side date compared is {o_}")

    # what is written is the validated response
    for n, c, _ in nodes_with(lambda c: True if isinstance(c.func, ast.Attribute) and c.func.attr in ("write", "write_bytes", "write_text", "writelines") and c.args else None) + nodes_with(lambda c: True if (dotted(c.func) or "") in ("shutil.copyfileobj",) and c.args else None):
        srcs: Set[str] = set()
        for q in paths:
            i = q.index_of(n.id)
            if i is not None:
                srcs |= origins(q, cfg, c.args[0], i, params)
        if not srcs:
            continue
        ok = NET in srcs and not from_cache(srcs)
        rep.check("K-R1", "request_profile:writes-validated-response", ok, f"the bytes written derive from {sorted(s for s in srcs if not s.startswith(('const:', 'fn:')))}, not only from the response that was validated" if not ok else "", loc(p, c))
    # 'up to date' returns the cached copy; a fresh profile returns the server's
    ret_ok, ret_seen = True, 0
    bad = ""
    for q in paths:
        if q.outcome != "return" or q.value is None:
            continue
        facts = simple_conds(q.conds)
        for cw in q.conds:
            for a, e0 in _atom_exprs(cw[0]):
                e = value_on_path(q, cfg, e0, upto=cw.pos, depth=1) if "status.code" not in a else e0
                if isinstance(e, ast.Compare) and isinstance(e.ops[0], ast.Eq) and "status.code" in text(e):
                    sides = [e.left, e.comparators[0]]
                    const = [s_ for s_ in sides if isinstance(s_, ast.Constant)]
                    code = [s_ for s_ in sides if text(s_).endswith("status.code")]
                    if const and code and const[0].value == 1 and facts.get(a) is True and NET in origins(q, cfg, code[0], cw.pos, params):
                        ret_seen += 1
                        src = origins(q, cfg, q.value, len(q.nodes) - 1, params)
                        if not from_cache(src) or NET in src:
                            ret_ok = False
                            bad = f"returns a value derived from {sorted(s for s in src if not s.startswith(('const:', 'fn:')))}"
    # ... and a fresh profile (status 0) returns what the server just sent, not the copy read from the cache before
    fresh_ok, fresh_seen, fresh_bad = True, 0, ""
    for q in paths:
        if q.outcome != "return" or q.value is None:
            continue
        facts = simple_conds(q.conds)
        for cw in q.conds:
            for a, e0 in _atom_exprs(cw[0]):
                e = value_on_path(q, cfg, e0, upto=cw.pos, depth=1) if "status.code" not in a else e0
                if isinstance(e, ast.Compare) and isinstance(e.ops[0], ast.Eq) and "status.code" in text(e):
                    sides = [e.left, e.comparators[0]]
                    const = [s_ for s_ in sides if isinstance(s_, ast.Constant)]
                    code = [s_ for s_ in sides if text(s_).endswith("status.code")]
                    if const and code and const[0].value == 0 and facts.get(a) is True and NET in origins(q, cfg, code[0], cw.pos, params):
                        fresh_seen += 1
                        src = origins(q, cfg, q.value, len(q.nodes) - 1, params)
                        if from_cache(src) or NET not in src:
                            fresh_ok = False
                            fresh_bad = f"returns a value derived from {sorted(s_ for s_ in src if not s_.startswith(('const:', 'fn:')))}"
    # ... and what the server sent is handed back only if it is not older than what is held
    older = None
    nret = 0
    for q in paths:
        if q.outcome != "return" or q.value is None:
            continue
        src = origins(q, cfg, q.value, len(q.nodes) - 1, params)
        if NET not in src or from_cache(src):
            continue
        if "dryrun" in params and implies(q.conds, atom("bool(dryrun)", False)) is False:
            continue  # a dry run hands back the request it would have sent; nothing came from the server
        nret += 1
        if fresher_than_held(q, q.conds) is False:
            older = simple_conds(q.conds)
    if nret and held_exprs:
        rep.check("K-R1", "request_profile:older-profile-not-returned", older is None, f"a path hands the server's response back although nothing on it establishes that the server's DTPROFUP is not older than the held one (taken when {dict(list(older.items())[:4]) if older else ''}): a server that answers with a superseded profile gets it passed on as the current one" if older is not None else "", loc(p, fn))
    if fresh_seen:
        rep.check("K-R1", "request_profile:fresh-profile-returned", fresh_ok, "" if fresh_ok else f"when the server sends a new profile (status 0) the call still hands back the copy it had read from the cache ({fresh_bad}): the caller routes its next request by the superseded profile", loc(p, fn))
    if ret_seen:
        rep.check("K-R1", "request_profile:up-to-date-returns-cached", ret_ok, "" if ret_ok else f"when the server says the profile is up to date the cached copy is not what is returned ({bad})", loc(p, fn))
    else:
        rep.note("K-R1 undecided: no `status.code == 1` branch recognised")

    # what is returned can be read: the stream handed back is rewound after the last time this call consumed it
    left_at_eof = None
    checked = 0
    for q in paths:
        if q.outcome != "return" or q.value is None:
            continue
        oid = _rtext(q, cfg, q.value, len(q.nodes) - 1)
        dirty = False
        for j, nid in enumerate(q.nodes[:-1]):
            n_ = cfg.nodes[nid]
            if n_.stmt is None or n_.kind in ("join", "handlers"):
                continue
            for c_ in n_.calls():
                f_ = c_.func
                if not isinstance(f_, ast.Attribute):
                    continue
                if f_.attr in ("parse", "feed", "fromstring") and c_.args and _rtext(q, cfg, c_.args[0], j) == oid:
                    dirty = True
                elif f_.attr in ("read", "readline", "readlines", "getvalue") and f_.attr != "getvalue" and _rtext(q, cfg, f_.value, j) == oid:
                    dirty = True
                elif f_.attr == "seek" and c_.args and text(c_.args[0]) == "0" and _rtext(q, cfg, f_.value, j) == oid:
                    dirty = False
        checked += 1
        if dirty:
            left_at_eof = (oid, simple_conds(q.conds))
    if checked:
        rep.check("K-R1", "request_profile:returned-stream-rewound", left_at_eof is None, f"on a path (taken when {left_at_eof[1] if left_at_eof else ''}) the stream that is returned ({left_at_eof[0][:50] if left_at_eof else ''}) was parsed by this call and is not rewound afterwards: the caller reads nothing from it" if left_at_eof else "", loc(p, fn))

    # ------------------------------------------------------------------ K-R2
    rep.rule("K-R2", "the cache is replaced atomically: nothing is opened for writing at the cache path itself; the bytes go to a different, per-writer-unique name in the same directory, and every such write is followed on all normal paths by an atomic rename onto the cache path")
    for n, c, pth in writes:
        lab = text(c.func)
        inplace = False
        unique = True
        samedir: Optional[bool] = True
        renamed = True
        srcs_all: Set[str] = set()
        through = 0
        for q in paths:
            i = q.index_of(n.id)
            if i is None:
                continue
            through += 1
            wt = _rtext(q, cfg, pth, i)
            if is_cache(wt) or wt in (f"str({c_})" for c_ in cache_texts):
                inplace = True
                continue
            src = origins(q, cfg, pth, i, params)
            srcs_all |= src
            if not any(any(mk in s for mk in UNIQUE_MARKS) for s in src) and not ("NamedTemporaryFile(" in wt or "mkstemp(" in wt):
                unique = False
            # next to the cache: built from the cache path or from its directory
            sd = None
            for ct, ce in cache_exprs.items():
                dirs = {f"{ct}.parent", f"os.path.dirname({ct})"}
                if isinstance(ce, ast.BinOp) and isinstance(ce.op, ast.Div):
                    dirs.add(text(ce.left))
                if isinstance(ce, ast.Call) and (dotted(ce.func) or "").endswith("path.join") and len(ce.args) > 1:
                    dirs.add(text(ce.args[0]))
                cts = (ct, f"({ct})")
                if any(wt.startswith(pref) for c_ in cts for pref in (f"{c_}.with_name(", f"{c_}.with_suffix(", f"{c_}.with_stem(", f"{c_}.parent /", f"str({c_}) +", f"str({ct}) +", f"f'{{{ct}}}")) or any(wt.startswith(f"{d} /") or wt.startswith(f"({d}) /") or wt.startswith(f"os.path.join({d},") for d in dirs) or any(f"dir={d}" in wt for d in dirs):
                    sd = True
            if sd is None:
                if "gettempdir" in wt or wt.startswith(("'/tmp", "Path('/tmp", "tempfile.mkstemp()", "tempfile.NamedTemporaryFile()")) or (("mkstemp(" in wt or "NamedTemporaryFile(" in wt) and "dir=" not in wt):
                    sd = False
            if sd is False:
                samedir = False
            elif sd is None and samedir:
                samedir = None
            # renamed onto the cache on every normal continuation
            if q.outcome in ("return", "fall"):
                ok = False
                for rn, rc, (s_, d_) in replaces:
                    k = q.index_of(rn.id)
                    st_ = _rtext(q, cfg, s_, k) if k is not None else None
                    if st_ is not None and st_.endswith(".name"):
                        # <temporary file object>.name is the path of that file; the object is usually the `as` name
                        # of the with-statement that created it
                        base_ = st_[: -len(".name")]
                        if base_ == wt:
                            st_ = wt
                        else:
                            for w_ in [x for x in ast.walk(fn) if isinstance(x, ast.With)]:
                                for it_ in w_.items:
                                    if isinstance(it_.optional_vars, ast.Name) and it_.optional_vars.id == base_ and _rtext(q, cfg, it_.context_expr, k) == wt:
                                        st_ = wt
                    if k is not None and k > i and st_ == wt and is_cache(_rtext(q, cfg, d_, k)):
                        ok = True
                if not ok:
                    renamed = False
        if not through:
            continue
        cache_l = sorted(cache_texts)[0]
        rep.check("K-R2", f"request_profile:{lab}:not-in-place", not inplace, f"the cache file ({cache_l}) is opened for writing in place: a crash mid-write, or a second writer, leaves a truncated or interleaved file and every later request fails while parsing it" if inplace else "", loc(p, c))
        if inplace:
            continue
        shown = sorted(s for s in srcs_all if not s.startswith(("const:", "fn:")))
        rep.check("K-R2", f"request_profile:{lab}:temp-name-unique-per-writer", unique, f"the temporary name derives from {shown} only: two concurrent writers open the same temporary file and interleave their output" if not unique else "", loc(p, c))
        if samedir is None:
            rep.note(f"K-R2 undecided: cannot tell whether the temporary file of {lab} lives next to the cache")
        else:
            rep.check("K-R2", f"request_profile:{lab}:temp-in-cache-directory", samedir, "the temporary file is not created next to the cache file (rename is only atomic within one file system)" if not samedir else "", loc(p, c))
        rep.check("K-R2", f"request_profile:{lab}:renamed-onto-cache", renamed, f"the temporary file is not renamed onto the cache path (os.replace) on every normal path after it was written" if not renamed else "", loc(p, c))
    # the temporary file is complete (flushed and closed) before it takes the cache's name
    from .source import parent as _parent

    for n, c, (s_, d_) in replaces:
        inside = None
        par = _parent(c)
        while par is not None and par is not fn:
            if isinstance(par, ast.With):
                for it in par.items:
                    ce = it.context_expr
                    if isinstance(ce, ast.Call) and _open_for_write(ce) is not None and text(_open_for_write(ce)) == text(s_):
                        inside = par
            par = _parent(par)
        rep.check("K-R2", f"request_profile:{text(c.func)}:after-temp-file-closed", inside is None, "the rename onto the cache path happens inside the `with` block that still holds the temporary file open: its buffered content is not yet written, so a crash (or a concurrent reader) right after the rename sees an empty or truncated cache" if inside is not None else "", loc(p, c))
    for n, c, (s_, d_) in replaces:
        atomic = (dotted(c.func) or "") in ("os.replace", "os.rename") or (isinstance(c.func, ast.Attribute) and c.func.attr in ("replace", "rename") and not (dotted(c.func) or "").startswith("shutil"))
        rep.check("K-R2", f"request_profile:{text(c.func)}:atomic", atomic, "the move onto the cache path is not an atomic rename" if not atomic else "", loc(p, c))

    # ------------------------------------------------------------------ K-R3
    rep.rule("K-R3", "the cache path identifies the server: ORG, FID and URL are three separate obligations, each must contribute to the file name unconditionally (not only as a fallback for another component)")
    comps: Optional[Set[str]] = None
    for ct, ce in cache_exprs.items():
        cs = _unconditional_components(ce)
        comps = cs if comps is None else (comps & cs)
    comps = comps or set()
    where = reads[0][1]
    for comp, attr in (("org", "self.org"), ("fid", "self.fid"), ("url", "self.url")):
        ok = attr in comps
        rep.check("K-R3", f"request_profile:cache-key({comp})", ok, f"the cache file name does not always depend on {attr} (components used unconditionally: {sorted(comps)}): two servers that differ only in {comp.upper()} share one cache entry, and a profile cached from one is used for the other" if not ok else "", loc(p, where))

    # the identifying components reach the file name whole: no operation that cuts a name at its last dot
    cutters = []
    for ct, ce in cache_exprs.items():
        for x in ast.walk(ce):
            if isinstance(x, ast.Call) and isinstance(x.func, ast.Attribute) and x.func.attr in ("with_suffix", "with_stem") and any(a_ in text(x.func.value) for a_ in ("self.org", "self.fid", "self.url")):
                cutters.append(text(x)[:70])
            if isinstance(x, ast.Attribute) and x.attr in ("stem",) and any(a_ in text(x.value) for a_ in ("self.org", "self.fid", "self.url")):
                cutters.append(text(x)[:70])
            if isinstance(x, ast.Call) and text(x.func).endswith("splitext") and x.args and any(a_ in text(x.args[0]) for a_ in ("self.org", "self.fid", "self.url")):
                cutters.append(text(x)[:70])
    rep.check("K-R3", "request_profile:cache-key-components-whole", not cutters, f"{cutters[0] if cutters else ''} replaces everything after the LAST DOT of the name it is applied to: an ORG/FID containing a dot (firstbank.com-101) is cut short, so different servers share one cache entry" if cutters else "", loc(p, where))

    # ... and un-merged: no many-to-one rewriting of a component (character substitution, case folding, clipping) -
    # two different ORG/FID values must not arrive at one file name
    lossy = []
    keyparts = ("self.org", "self.fid", "self.url")
    for ct, ce in cache_exprs.items():
        for x in ast.walk(ce):
            if isinstance(x, ast.Call):
                fnm = (dotted(x.func) or text(x.func)).split(".")[-1]
                operands = list(x.args) + [k_.value for k_ in x.keywords] + ([x.func.value] if isinstance(x.func, ast.Attribute) else [])
                touches = any(any(a_ in text(o_) for a_ in keyparts) for o_ in operands)
                if touches and fnm in ("sub", "subn", "replace", "translate", "lower", "upper", "casefold", "title", "capitalize", "strip", "lstrip", "rstrip", "expandtabs", "normalize", "slugify", "basename", "split", "rsplit", "partition", "rpartition"):
                    lossy.append(text(x)[:80])
            if isinstance(x, ast.Subscript) and isinstance(x.slice, ast.Slice) and any(a_ in text(x.value) for a_ in keyparts):
                lossy.append(text(x)[:80])
    # ... and stable: the name is the same in the next process (builtin hash() of a str is salted per interpreter run)
    salted = [text(x)[:60] for ct, ce in cache_exprs.items() for x in ast.walk(ce) if isinstance(x, ast.Call) and isinstance(x.func, ast.Name) and x.func.id in ("hash", "id")]
    rep.check("K-R3", "request_profile:cache-key-stable-across-processes", not salted, f"{salted[0] if salted else ''} goes into the cache file name: hash() of a str is salted per interpreter process (id() is an address), so a restarted client never finds the profile it cached - it asks with no date, skips the not-older test and leaves one file per run" if salted else "", loc(p, where))
    rep.check("K-R3", "request_profile:cache-key-components-unmerged", not lossy, f"{lossy[0] if lossy else ''} maps different ORG/FID values to one name (e.g. 'A/B' and 'A_B', 'Bank' and 'bank'): the two servers share one cache entry, and a profile cached from one is used for the other" if lossy else "", loc(p, where))

    # ------------------------------------------------------------------ K-R4
    rep.rule("K-R4", "ask with the date you hold: the DTPROFUP passed to _request_profile is the one parsed from the cached profile when a cache file was read and None otherwise; _request_profile sends that date (1990-01-01 only when None)")
    for n, c, _ in nets:
        held = [he for hn, he in held_exprs if hn is n]
        if not held:
            rep.check("K-R4", "request_profile:passes-dtprofup", False, "the cached profile's date is not passed on: the server is always asked as if nothing were cached", loc(p, c))
            continue
        present_ok, absent_ok = True, True
        seen_p = seen_a = 0
        got_p, got_a = set(), set()
        for q in paths:
            i = q.index_of(n.id)
            if i is None:
                continue
            read_before = any((k := q.index_of(rn.id)) is not None and k < i for rn, _, _ in reads)
            # did the read raise on this path (try/except spelling of 'no cache')?
            raised = any(cw[1] is True and any(a.startswith("raises(") and ("open(" in a or "read_" in a) for a in cw[0].atoms()) for cw in q.conds[: q.marks[n.id]])
            v = value_on_path(q, cfg, held[0], upto=i)
            src = origins(q, cfg, held[0], i, params)
            if read_before and not raised:
                seen_p += 1
                ok = from_cache(src) and text(v).endswith("dtprofup") and NET not in src
                got_p.add(text(v))
                present_ok &= ok
            else:
                seen_a += 1
                ok = isinstance(v, ast.Constant) and v.value is None
                got_a.add(text(v))
                absent_ok &= ok
        if seen_p:
            rep.check("K-R4", "request_profile:dtprofup-when-cache-present", present_ok, f"with the cache present the date sent is {sorted(got_p)}; expected the DTPROFUP parsed from the cached profile" if not present_ok else "", loc(p, c))
        if seen_a:
            rep.check("K-R4", "request_profile:dtprofup-when-cache-absent", absent_ok, f"with the cache absent the date sent is {sorted(got_a)}; expected None" if not absent_ok else "", loc(p, c))
    rfn = need(p, ci, "_request_profile")
    rparams = params_of(rfn)
    rpaths = enumerate_paths(rfn, None, Expander(rfn), resolve=False)
    rcfg = rpaths.cfg
    seen = 0
    ok_passes, ok_default = True, True
    got = set()
    undecided = False
    where = rfn
    for n in rcfg.nodes:
        if n.stmt is None or n.kind in ("join", "handlers"):
            continue
        for c in n.calls():
            if not (isinstance(c.func, ast.Name) and c.func.id == "PROFRQ"):
                continue
            where = c
            b = _bind(c, [])
            for q in rpaths:
                i = q.index_of(n.id)
                if i is None:
                    continue
                seen += 1
                if "dtprofup" not in b:
                    ok_passes = False
                    got.add("<nothing>")
                    continue
                v = value_on_path(q, rcfg, b["dtprofup"], upto=i)
                t = text(v)
                got.add(t)
                known_none = simple_conds(q.conds[: q.marks[n.id]]).get("dtprofup is None")
                if t == "dtprofup":
                    if known_none is True:
                        ok_passes = False  # sends None
                    continue
                if isinstance(v, ast.BoolOp) and isinstance(v.op, ast.Or) and text(v.values[0]) == "dtprofup":
                    continue
                if "dtprofup" in {x.id for x in ast.walk(v) if isinstance(x, ast.Name)}:
                    undecided = True
                    continue
                # a value that does not depend on the parameter: only acceptable when the parameter is known to be None
                if known_none is not True:
                    ok_default = False
    if not seen:
        raise AnalysisError("K-R4: _request_profile no longer builds a PROFRQ")
    if undecided:
        rep.note(f"K-R4 undecided: PROFRQ(dtprofup=...) computed from the parameter in an unrecognised way: {sorted(got)}")
    rep.check("K-R4", "_request_profile:PROFRQ(dtprofup)", ok_passes, f"PROFRQ.dtprofup is {sorted(got)}" if not ok_passes else "", loc(p, where))
    rep.check("K-R4", "_request_profile:default-only-when-None", ok_default, "" if ok_default else f"the 1990 default is not limited to the case where no date is held: PROFRQ.dtprofup is {sorted(got)}", loc(p, where))


def _unconditional_components(expr, depth=12) -> Set[str]:
    """self.<attr> reads that contribute to the value on every evaluation: top-level interpolations of
    f-strings / format() / '+' / path '/', through calls; operands of `or`, `and`, conditional
    expressions do not count."""
    out: Set[str] = set()
    if expr is None or depth <= 0:
        return out
    if isinstance(expr, ast.Attribute) and text(expr.value) == "self":
        return {text(expr)}
    if isinstance(expr, ast.JoinedStr):
        for v in expr.values:
            if isinstance(v, ast.FormattedValue):
                out |= _unconditional_components(v.value, depth - 1)
        return out
    if isinstance(expr, ast.BinOp) and isinstance(expr.op, (ast.Add, ast.Div, ast.Mod)):
        return _unconditional_components(expr.left, depth - 1) | _unconditional_components(expr.right, depth - 1)
    if isinstance(expr, (ast.Tuple, ast.List)):
        for e in expr.elts:
            out |= _unconditional_components(e, depth - 1)
        return out
    if isinstance(expr, (ast.BoolOp, ast.IfExp)):
        return set()
    if isinstance(expr, ast.Call):
        for a in expr.args:
            out |= _unconditional_components(a.value if isinstance(a, ast.Starred) else a, depth - 1)
        for k in expr.keywords:
            out |= _unconditional_components(k.value, depth - 1)
        if isinstance(expr.func, ast.Attribute):
            out |= _unconditional_components(expr.func.value, depth - 1)
        return out
    if isinstance(expr, ast.Attribute):
        return _unconditional_components(expr.value, depth - 1)
    if isinstance(expr, ast.Subscript):
        return _unconditional_components(expr.value, depth - 1)
    return out


def k_r5_every_call_asks_the_server(p: Project, rep: Report):
    """the cache is a fallback for `up to date`, never a substitute for asking"""
    from .flat import flat
    from .rules_client import client_class

    rep.rule("K-R5", "every call of request_profile() asks the server: no `return` of the function (helpers inlined) lies before the call of _request_profile() - a cached profile is handed back only after the server has answered `up to date` for its date.  A shortcut that returns a RECENT cache file without asking (an age test on the file's mtime) serves a stale profile while the server already has a newer one, and turns calls that should fail (error reply, transport failure) into successes")
    ci = client_class(p)
    fn0 = ci.own_func("request_profile")
    if fn0 is None:
        raise AnalysisError("OFXClient.request_profile not found")
    fn = flat(p, ci.module, fn0, ci, keep=("_request_profile",))
    asks = [c for c in ast.walk(fn) if isinstance(c, ast.Call) and text(c.func) == "self._request_profile"]
    if not asks:
        rep.check("K-R5", "request_profile:asks-the-server", False, "request_profile() never calls _request_profile(): the server is not asked at all", loc(p, fn0))
        return
    first = min(asks, key=lambda c: (c.lineno, c.col_offset))
    # position in the flattened function: statement order
    order = {id(st): i for i, st in enumerate(ast.walk(fn))}
    ask_stmt = None
    for st in ast.walk(fn):
        if isinstance(st, ast.stmt) and any(x is first for x in ast.walk(st)) and not isinstance(st, (ast.FunctionDef, ast.If, ast.For, ast.While, ast.With, ast.Try)):
            ask_stmt = st

    def before(stmts):
        """returns that can execute before the ask statement: walk blocks in order until the ask is met"""
        found = []
        for st in stmts:
            if st is ask_stmt or any(x is ask_stmt for x in ast.walk(st)):
                # descend into the compound statement that holds the ask
                for fld in ("body", "orelse", "finalbody"):
                    sub = getattr(st, fld, None)
                    if isinstance(sub, list) and sub and isinstance(sub[0], ast.stmt) and any(x is ask_stmt for s_ in sub for x in ast.walk(s_)):
                        f2, _ = before(sub)
                        found += f2
                return found, True
            found += [x for x in ast.walk(st) if isinstance(x, ast.Return) ] if not isinstance(st, (ast.FunctionDef, ast.ClassDef)) else []
        return found, False

    early, met = before(fn.body)
    if not met:
        rep.note("K-R5 undecided: the position of the server request in request_profile was not determined")
        return
    rep.check("K-R5", "request_profile:no-return-before-asking", not early, f"`{text(early[0])[:50]}` (line {early[0].lineno}) returns before _request_profile() is called: a profile is handed back without the server having been asked with the held date - a newer profile is never fetched while the shortcut applies, and an error the server would have reported is not seen" if early else "", loc(p, early[0] if early else fn0))


def k_r6_stored_reply_carries_a_profile(p: Project, rep: Report):
    """a status-0 reply is stored only after its PROFRS has been looked at"""
    from .rules_client import client_class

    rep.rule("K-R6", "a reply is written to the cache only after the date of ITS profile has been read unconditionally: somewhere before the write, `<...>.profrs.dtprofup` is evaluated as (part of) a statement of its own, the left-most operand of a test, or an argument - not only as a LATER operand of `or` / `and` (`assert held is None or held <= reply.profrs.dtprofup` never touches the reply's PROFRS when nothing is held yet): a status-0 reply WITHOUT a profile would be cached, and every later request for that institution dies reading its own cache")
    ci = client_class(p)
    fn = ci.own_func("request_profile")
    if fn is None:
        raise AnalysisError("OFXClient.request_profile not found")
    kx = Expander(fn)
    reads = [x for x in ast.walk(fn) if isinstance(x, ast.Attribute) and x.attr == "dtprofup" and isinstance(x.ctx, ast.Load) and ((isinstance(x.value, ast.Attribute) and x.value.attr == "profrs") or kx.t(x.value).endswith(".profrs"))]
    # only the reads made from the SERVER's reply matter: those after the request is sent
    asks = [c for c in ast.walk(fn) if isinstance(c, ast.Call) and text(c.func) == "self._request_profile"]
    if not asks or not reads:
        rep.note("K-R6 undecided: no read of <reply>.profrs.dtprofup / no server request found in request_profile")
        return
    after = [r for r in reads if r.lineno > min(a.lineno for a in asks)]
    if not after:
        rep.check("K-R6", "request_profile:reply-profile-date-read", False, "the date of the reply's profile is never read after the request: a reply without PROFRS is stored", loc(p, fn))
        return

    def conditional(r):
        """is the read a non-first operand of a BoolOp / an arm of a conditional expression?"""
        from .source import parent as _parent

        cur = r
        while cur is not None and not isinstance(cur, ast.stmt):
            par = _parent(cur)
            if isinstance(par, ast.BoolOp) and par.values and par.values[0] is not cur and not any(z is r for z in ast.walk(par.values[0])):
                return True
            if isinstance(par, ast.IfExp) and par.test is not cur:
                return True
            cur = par
        return False

    for x in ast.walk(fn):
        for ch in ast.iter_child_nodes(x):
            ch._parent = x
    uncond = [r for r in after if not conditional(r)]
    rep.check("K-R6", "request_profile:reply-profile-date-read", bool(uncond), f"after the request, `{text(after[0])}` is only evaluated as a later operand of a short-circuit (line {after[0].lineno}): with nothing cached yet the reply's PROFRS is never looked at, so a status-0 reply that carries no profile is returned as success and written to the cache - the next call fails reading it" if not uncond else "", loc(p, after[0]))
