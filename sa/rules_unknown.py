"""Unknown-tag rules U-R1..5 (C07)."""
from __future__ import annotations

import ast
import re
from typing import List

from .cfg import CFG
from .dataflow import Reaching, own_nodes, own_statements, params_of, writes_in
from .match import Expander, text
from .report import Report
from .rules_schema import chains_to_super, groom_overrides, loc, reducer, renames_in
from .schema import BASE, Schema
from .source import AnalysisError, dotted


def u_rules(schema: Schema, rep: Report):
    p = schema.p
    rel = p.module(BASE).relpath
    outer, inner, call = reducer(p)
    cfg = CFG(inner)
    reach = Reaching(cfg)
    ex = Expander(inner, outer)
    params = params_of(inner)
    accum, elem = params[0], params[1]

    rep.rule("U-R1", "the unknown-tag branch of the reducer (handler of the failed spec lookup) only warns and returns the very accumulator it received: no field changed, nothing stored, ordering state undisturbed, nothing raised")
    lookups = [n for n in cfg.nodes if any(isinstance(c.func, ast.Attribute) and c.func.attr == "index" for c in n.calls())]
    if not lookups:
        raise AnalysisError("U-R1: spec lookup not found in the reducer")
    look = lookups[0]
    handlers = []
    tr = getattr(look.stmt, "_parent", None)
    while tr is not None and not isinstance(tr, ast.Try):
        tr = getattr(tr, "_parent", None)
    guard_form = None
    if tr is None:
        # no try: a membership test that dominates the lookup does the same job (`if key not in spec: ...; return`)
        from .paths import canon_atom

        call_ = [c for c in look.calls() if isinstance(c.func, ast.Attribute) and c.func.attr == "index"][0]
        want = f"{ex.t(call_.args[0])} in {ex.t(call_.func.value)}" if call_.args else None
        want2 = f"{ex.t(call_.args[0])} in {text(call_.func.value)}" if call_.args else None
        for n in cfg.nodes:
            if n.kind != "test" or not isinstance(n.stmt, ast.If):
                continue
            a, pol = canon_atom(ex.x(n.stmt.test))
            a0, pol0 = canon_atom(n.stmt.test)
            if a not in (want, want2) and not (call_.args and a0 == f"{text(call_.args[0])} in {text(call_.func.value)}"):
                continue
            unknown_body = n.stmt.orelse if pol else n.stmt.body
            if unknown_body and cfg.dominated_by(look.id, [n.id]) and not any(_inside(look.stmt, st_) for st_ in unknown_body):
                guard_form = (n, unknown_body)
        if guard_form is None:
            # lookup without try or guard: an unknown tag raises ValueError out of convert
            rep.check("U-R1", "update_args:unknown-tag-handled", False, "the spec lookup is neither inside a try nor behind a membership test: an unknown tag raises out of the conversion", f"{rel}:{look.stmt.lineno}")
            return
    if guard_form is not None:
        gnode, body_ = guard_form
        h_ = ast.Module(body=list(body_), type_ignores=[])
        h_.lineno = body_[0].lineno
        rep.check("U-R1", "update_args:unknown-tag-handled", True, "membership test before the lookup", f"{rel}:{gnode.stmt.lineno}")
        branches = [(h_, cfg.node_of(body_[0]).id)]
        handlers_ast = [h_]
    else:
        catches = [h for h in tr.handlers if h.type is None or any(isinstance(x, ast.Name) and x.id in ("ValueError", "Exception", "KeyError", "LookupError") for x in ast.walk(h.type))]
        rep.check("U-R1", "update_args:unknown-tag-handled", bool(catches), "no handler for the failed lookup (ValueError)" if not catches else "", f"{rel}:{tr.lineno}")
        branches = [(h, [n for n in cfg.nodes if n.kind == "except" and n.stmt is h][0].id) for h in catches]
        handlers_ast = list(tr.handlers)
    for h, hn_id in branches:
        r = cfg.reachable(hn_id)
        # every way out of the handler is `return <accum>`
        outs = [cfg.nodes[i] for i in r if any(b in (cfg.exit.id, cfg.raise_exit.id) for b, _ in cfg.succ[i])]
        ok = True
        why = ""
        for n in outs:
            if n.kind == "return":
                v = n.stmt.value
                if isinstance(v, ast.Name) and v.id == "__loop_left_early__":
                    ok, why = False, "the unknown-tag branch leaves the loop over the children (break): every child after the first unknown tag is dropped - the model changes, or a required child goes missing and the document is rejected"
                elif not (isinstance(v, ast.Name) and v.id == accum and all(d.kind == "param" for d in reach.defs_at(n, accum))):
                    ok, why = False, f"the unknown-tag branch returns {ast.unparse(v) if v else None} instead of the accumulator it received: the ordering state (previous index / previous-is-list-member) or the collected values change"
            elif n.kind == "raise":
                ok, why = False, "the unknown-tag branch raises: a document with an unknown tag is rejected"
            elif any(b == cfg.raise_exit.id for b, l in cfg.succ[n.id] if l == "assert-fail"):
                ok, why = False, "assertion in the unknown-tag branch"
        # falls through into the known-tag code?
        after = [i for i in r if cfg.nodes[i].stmt is not None and not _inside(cfg.nodes[i].stmt, h)]
        if after:
            ok, why = False, "the unknown-tag branch falls through into the code for known tags"
        rep.check("U-R1", "update_args:unknown-branch-returns-accumulator", ok, why, f"{rel}:{h.lineno}")
        # no stores in the handler
        ws = [w for w in writes_in(inner) if _inside(w.stmt, h)]
        rep.check("U-R1", "update_args:unknown-branch-stores-nothing", not ws, f"the unknown-tag branch writes {[text(w.target) for w in ws]}" if ws else "", f"{rel}:{h.lineno}")
        warns = [c for c in ast.walk(h) if isinstance(c, ast.Call) and text(c.func) in ("warnings.warn", "warn", "logger.warning", "logger.info", "logger.debug")]
        rep.check("U-R1", "update_args:unknown-branch-reports", bool(warns), "unknown tags are dropped without a warning" if not warns else "", f"{rel}:{h.lineno}")
    # nothing that can raise or store happens before the lookup succeeded
    pre = cfg.reachable(cfg.entry.id, blocked=[look.id])
    pre_writes = [w for w in writes_in(inner) if cfg.node_of(w.stmt) is not None and cfg.node_of(w.stmt).id in pre and not any(_inside(w.stmt, h) for h in handlers_ast)]
    rep.check("U-R1", "update_args:no-store-before-lookup", not pre_writes, f"values are stored before the tag is known to be declared: {[text(w.target) for w in pre_writes]}" if pre_writes else "", f"{rel}:{inner.lineno}")
    pre_raises = [cfg.nodes[i] for i in pre if cfg.nodes[i].kind == "raise" and not any(_inside(cfg.nodes[i].stmt, h) for h in handlers_ast)]
    rep.check("U-R1", "update_args:no-raise-before-lookup", not pre_raises, "a check that can reject the document runs before the tag is known to be declared" if pre_raises else "", f"{rel}:{inner.lineno}")

    rep.rule("U-R2", "sub-trees are converted (from_etree) only after the spec lookup succeeded: the content of an unknown aggregate is never converted, so it cannot raise")
    convs = cfg.nodes_calling(lambda c: isinstance(c.func, ast.Attribute) and c.func.attr in ("from_etree", "_convert"))
    if not convs:
        raise AnalysisError("U-R2: reducer never recurses into sub-aggregates")
    for n in convs:
        ok = cfg.dominated_by(n.id, [look.id]) and not any(n.id in cfg.reachable(hid_) for _h, hid_ in branches)
        rep.check("U-R2", "update_args:convert-after-lookup", ok, "a child is converted before (or without) its tag having been found in the spec: the content of an unknown aggregate is converted and may raise" if not ok else "", f"{rel}:{n.stmt.lineno}")
    # element text is only read after the lookup as well (values of unknown data elements never reach the model)
    rep.rule("U-R3", "vendor-prefixed children are disposed of on every path: removed by the base groom(), or - their dotted tag never being a declared child - skipped by the unknown-tag branch (either suffices)")
    gfn = schema.aggregate.own_func("groom")
    removes = False
    if gfn is not None:
        for st in own_statements(gfn):
            if isinstance(st, ast.If) and "'.'" in text(st.test).replace('"', "'") and ".tag" in text(st.test):
                if any(isinstance(c, ast.Call) and isinstance(c.func, ast.Attribute) and c.func.attr == "remove" for c in ast.walk(st)):
                    removes = True
    u1_ok = all(o.ok for o in rep.obligations if o.rule == "U-R1")
    no_dotted_child = not any("." in k for ci in schema.exported().values() for k in schema.spec(ci))
    rep.check("U-R3", "vendor-tags-disposed", removes or (u1_ok and no_dotted_child), "vendor tags are neither removed by groom() nor skipped cleanly as unknown" if not (removes or (u1_ok and no_dotted_child)) else ("removed by groom()" if removes else "skipped as unknown"), f"{rel}:{gfn.lineno if gfn else 0}")

    rep.rule("U-R4", "every groom/ungroom override returns through the base implementation on all paths, and _convert applies cls.groom before folding the children")
    n = 0
    for ci, nm, fn in groom_overrides(schema):
        n += 1
        ok, why = chains_to_super(fn, nm, star_args=False, ci=ci)
        rep.check("U-R4", f"{ci.name}.{nm}:chains", ok, f"{ci.name}.{nm} {why}: the shared treatment of vendor tags is switched off for this class" if not ok else "", loc(ci, fn))
        # the value passed up is the (copied) element it worked on
        try:
            from .flat import flat as _flat

            fn_r = _flat(ci.project, ci.module, fn, ci)  # helpers inlined, method values called directly
        except Exception:
            fn_r = fn
        rets = [r for r in own_nodes(fn_r) if isinstance(r, ast.Return)]
        for r in rets:
            v = r.value
            good = isinstance(v, ast.Call) and isinstance(v.func, ast.Attribute) and v.func.attr == nm and len(v.args) == 1 and not isinstance(v.args[0], ast.Constant)
            rep.check("U-R4", f"{ci.name}.{nm}:returns-base-result", good, f"returns {ast.unparse(v) if v else None}, not the base {nm}() of the element" if not good else "", loc(ci, r))
    rep.floor("U-R4", n, 6, "groom/ungroom overrides")
    exo = Expander(outer)
    cls, oelem = params_of(outer)[0], params_of(outer)[1]
    from .dataflow import resolve_values

    ocfg = CFG(outer)
    oreach = Reaching(ocfg)
    syn_ = getattr(call, "_synthetic", None)
    if syn_ is not None:
        # the fold is written as a loop: what it iterates, at the loop
        onode = [n for n in ocfg.nodes if n.stmt is syn_["loop"]][0]
        vals = [text(v) for v in resolve_values(syn_["loop"].iter, onode, oreach)]
    else:
        onode = [n for n in ocfg.nodes if any(c is call for c in n.calls())][0]
        vals = [text(v) for v in resolve_values(call.args[1], onode, oreach)] if len(call.args) >= 2 else []
    ok = bool(vals) and all(v == f"{cls}.groom({oelem})" for v in vals)
    rep.check("U-R4", "_convert:grooms-before-folding", ok, f"reduce() iterates {vals}, not {cls}.groom({oelem}) on every path" if not ok else "", f"{rel}:{call.lineno}")

    rep.rule("U-R5", "class-specific renames in groom/ungroom look only at direct children of the element (a descendant search would rename - and lose - a like-named element inside an unknown sub-tree)")
    nr = 0
    for ci, nm, fn in groom_overrides(schema):
        for r in renames_in(fn, p, ci.module):
            nr += 1
            rep.check("U-R5", f"{ci.name}.{nm}:{r.frm}->{r.to}:direct-child", r.direct_child, f"{r.via}: looks the element up with {r.method}({r.path!r}), which also matches inside nested (possibly unknown) aggregates: the wrong element is renamed and the real one is then skipped as unknown" if not r.direct_child else "", loc(ci, fn))
    rep.floor("U-R5", nr, 6, "renames")
    # base groom only inspects direct children
    if gfn is not None:
        loops = [s for s in own_statements(gfn) if isinstance(s, ast.For)]
        its = [text(l.iter) for l in loops]
        ok = all(("iter(" not in t and "findall" not in t and "//" not in t) for t in its)
        rep.check("U-R5", "Aggregate.groom:direct-children-only", ok, f"base groom walks {its}: nested elements of other aggregates are touched" if not ok else "", f"{rel}:{gfn.lineno}")


def _inside(node, container) -> bool:
    return any(x is node for x in ast.walk(container))


def u_r7_index_deletion(schema: Schema, rep: Report):
    """positional deletion from a list goes from the back"""
    rep.rule("U-R7", "when groom()/ungroom() remove children by POSITION, the positions are visited in descending order: `for i in <ascending indices>: del elem[i]` shifts every later index, so with two vendor tags the second deletion removes a declared sibling instead")
    p = schema.p
    fns = []
    for nm in ("groom", "ungroom"):
        f = schema.aggregate.own_func(nm)
        if f is not None:
            fns.append((schema.aggregate, nm, f))
    fns += list(groom_overrides(schema))
    n = 0
    for ci, nm, fn0 in fns:
        from .flat import flat

        fn = flat(p, ci.module, fn0, ci)
        ex = Expander(fn)
        for loop in [x for x in ast.walk(fn) if isinstance(x, ast.For) and isinstance(x.target, ast.Name)]:
            iv = loop.target.id
            dels = []
            for x in ast.walk(loop):
                if isinstance(x, ast.Delete):
                    dels += [t for t in x.targets if isinstance(t, ast.Subscript) and isinstance(t.slice, ast.Name) and t.slice.id == iv]
                if isinstance(x, ast.Call) and isinstance(x.func, ast.Attribute) and x.func.attr == "pop" and len(x.args) == 1 and isinstance(x.args[0], ast.Name) and x.args[0].id == iv:
                    dels.append(x)
            if not dels:
                continue
            n += 1
            it = ex.x(loop.iter)
            t = text(it)
            descending = (isinstance(it, ast.Call) and text(it.func) == "reversed") or "reverse=True" in t or t.endswith("[::-1]") or (isinstance(it, ast.Call) and text(it.func) == "range" and len(it.args) == 3 and text(it.args[2]).startswith("-"))
            ascending = (isinstance(it, (ast.ListComp, ast.GeneratorExp)) and any(isinstance(g.iter, ast.Call) and text(g.iter.func) == "enumerate" for g in it.generators)) or (isinstance(it, ast.Call) and text(it.func) == "range" and len(it.args) <= 2) or (isinstance(it, ast.Call) and text(it.func) == "sorted" and "reverse" not in t)
            where = f"{ci.mod.relpath}:{loop.lineno}"
            if descending:
                rep.check("U-R7", f"{ci.name}.{nm}:positional-deletion-descending", True, "", where)
            elif ascending:
                rep.check("U-R7", f"{ci.name}.{nm}:positional-deletion-descending", False, f"children are deleted by index while iterating {t[:70]} in ascending order: after the first deletion every remaining index is off by one, so the wrong child is removed (or IndexError)", where)
            else:
                rep.note(f"U-R7 undecided: {ci.name}.{nm} deletes by index while iterating {t[:60]}")
    if n == 0:
        rep.check("U-R7", "groom:no-positional-deletion", True, "children are removed by identity, not by position", "")


def _guarded_by_test(node, subj: str) -> bool:
    """is `node` under an if / conditional expression / short-circuit whose test mentions `subj`?"""
    from .source import parent

    child, par = node, parent(node)
    while par is not None and not isinstance(par, (ast.FunctionDef, ast.Lambda)):
        if isinstance(par, (ast.If, ast.IfExp, ast.While)) and child is not par.test and subj in text(par.test):
            return True
        if isinstance(par, ast.BoolOp):
            k = next((i for i, v in enumerate(par.values) if v is child), 0)
            if any(subj in text(v) for v in par.values[:k]):
                return True
        if isinstance(par, (ast.ListComp, ast.GeneratorExp, ast.SetComp, ast.DictComp)) and any(subj in text(c) for g in par.generators for c in g.ifs):
            return True
        if isinstance(par, ast.Try) and child in par.body and any(h.type is None or any(isinstance(x, ast.Name) and x.id in ("AttributeError", "Exception", "TypeError") for x in ast.walk(h.type)) for h in par.handlers):
            return True
        child, par = par, parent(par)
    return False


def u_r8_nullable_fields(schema: Schema, rep: Report):
    """an element the class does not define has no promised shape: its text / tail may be None"""
    rep.rule("U-R8", "the code that meets unknown and vendor tags (groom and its overrides, the reducer, from_etree, _convert) never uses the .text / .tail of an element as an object - attribute, method, subscript, len(), concatenation, format spec - outside a test of that same field: ElementTree leaves them None for aggregates and empty elements, so `<INTU.XYZ><A>1</A></INTU.XYZ>` would raise instead of being dropped (this includes arguments of logging calls, which are evaluated before the logger decides to drop the record)")
    from .flat import flat
    from .source import parent

    p = schema.p
    fns = []
    for nm in ("groom", "from_etree", "_convert"):
        f = schema.aggregate.own_func(nm)
        if f is not None:
            fns.append((schema.aggregate, nm, f))
    fns += [(ci, nm, f) for ci, nm, f in groom_overrides(schema) if nm == "groom"]
    n = 0
    for ci, nm, fn0 in fns:
        fn = flat(p, ci.module, fn0, ci)
        for x in ast.walk(fn):
            for ch in ast.iter_child_nodes(x):
                ch._parent = x
        for x in ast.walk(fn):
            if not (isinstance(x, ast.Attribute) and x.attr in ("text", "tail") and isinstance(x.ctx, ast.Load)):
                continue
            n += 1
            par = parent(x)
            used = None
            if isinstance(par, ast.Attribute) and par.value is x:
                used = f"{text(par)}"
            elif isinstance(par, ast.Subscript) and par.value is x:
                used = text(par)
            elif isinstance(par, ast.Call) and isinstance(par.func, ast.Name) and par.func.id == "len" and x in par.args:
                used = text(par)
            elif isinstance(par, ast.BinOp) and isinstance(par.op, (ast.Add, ast.Mod, ast.Mult)) and not (isinstance(par.op, ast.Mod) and par.right is x):
                used = text(par)
            elif isinstance(par, ast.FormattedValue) and par.format_spec is not None:
                used = "f'{" + text(x) + ":...}'"
            if used is None:
                continue
            ok = _guarded_by_test(x, text(x))
            rep.check("U-R8", f"{ci.name}.{nm}:{text(x)}-used-as-object", ok, f"{used[:70]} is evaluated without a test of {text(x)}: for an unknown aggregate or an empty vendor element it is None and the whole document is rejected with AttributeError/TypeError" if not ok else "", f"{ci.mod.relpath}:{x.lineno}")
    rep.unit("nullable_field_reads", n)
    if n == 0:
        rep.note("U-R8 undecided: no .text / .tail read found in groom / reducer / from_etree")


def u_r9_overrides_only_retag(schema: Schema, rep: Report):
    """class-specific grooming renames tags; it never edits data"""
    rep.rule("U-R9", "groom() / ungroom() overrides of model classes only rename elements (<child>.tag = ...) on their way to and from the model: none of them writes element data (.text / .tail), attributes, or adds / removes / reorders children - the reader would hand the model a value that is not in the document, and what was written would not be read back")
    n = 0
    for ci, nm, fn0_ in groom_overrides(schema):
        n += 1
        bad = None
        # private helpers (module-level or of the class) are part of the override
        try:
            from .flat import flat

            fn = flat(ci.project, ci.module, fn0_, ci)
        except Exception:
            fn = fn0_
        elems = set(params_of(fn0_)) | {"elem", "copy", "root", "node"}
        for st in ast.walk(fn):
            # names bound to (a copy of) the element
            if isinstance(st, ast.Assign) and len(st.targets) == 1 and isinstance(st.targets[0], ast.Name):
                v_ = st.value
                while isinstance(v_, ast.Call) and (dotted(v_.func) or "").split(".")[-1] in ("deepcopy", "copy") and len(v_.args) == 1:
                    v_ = v_.args[0]
                if isinstance(v_, ast.Name) and v_.id in elems:
                    elems.add(st.targets[0].id)
        # helpers that could not be inlined (nested functions, loops) and are handed the element: their bodies count too
        from .source import Func as _Func

        bodies = [fn]
        for c_ in ast.walk(fn):
            if isinstance(c_, ast.Call) and isinstance(c_.func, ast.Name):
                r_ = ci.project.resolve(ci.module, c_.func.id)
                if isinstance(r_, _Func) and r_.node is not fn0_:
                    hp = params_of(r_.node)
                    passed = [hp[i] for i, a_ in enumerate(c_.args) if i < len(hp) and isinstance(a_, ast.Name) and a_.id in elems]
                    if passed:
                        bodies.append(r_.node)
                        elems |= set(passed)
                        for st in ast.walk(r_.node):
                            if isinstance(st, ast.Assign) and len(st.targets) == 1 and isinstance(st.targets[0], ast.Name):
                                v_ = st.value
                                while isinstance(v_, ast.Call) and (dotted(v_.func) or "").split(".")[-1] in ("deepcopy", "copy") and len(v_.args) == 1:
                                    v_ = v_.args[0]
                                if isinstance(v_, ast.Name) and v_.id in elems:
                                    elems.add(st.targets[0].id)
        for st in (x_ for b_ in bodies for x_ in ast.walk(b_)):
            tgts = []
            if isinstance(st, ast.Assign):
                tgts = st.targets
            elif isinstance(st, (ast.AugAssign, ast.AnnAssign)):
                tgts = [st.target]
            for t in tgts:
                if isinstance(t, ast.Attribute) and t.attr in ("text", "tail", "attrib"):
                    bad = bad or (st, f"{text(t)} = ...")
                if isinstance(t, ast.Subscript) and isinstance(t.value, ast.Attribute) and t.value.attr == "attrib":
                    bad = bad or (st, f"{text(t)} = ...")
                if isinstance(t, ast.Subscript) and isinstance(t.value, ast.Name) and t.value.id in elems:
                    # elem[:] = ... / elem[i] = ...: the children are replaced / re-sequenced
                    bad = bad or (st, f"{text(t)} = {text(st.value)[:30] if hasattr(st, 'value') and st.value is not None else '...'} (children replaced or re-sequenced: the declared order of the children is no longer checked against the document)")
            if isinstance(st, ast.Call) and isinstance(st.func, ast.Attribute) and st.func.attr in ("remove", "insert", "append", "extend", "clear", "set") and not (isinstance(st.func.value, ast.Name) and st.func.value.id in ("logger", "warnings")):
                # structural edits of the element (list-like API of ET.Element)
                recv = st.func.value
                if isinstance(recv, ast.Name) and recv.id in elems:
                    bad = bad or (st, f"{text(st)[:50]}")
        rep.check("U-R9", f"{ci.name}.{nm}:renames-only", bad is None, f"{ci.name}.{nm} executes {bad[1]}: element data / structure is edited on the way into (or out of) the model, so the converted value differs from the document's and a written instance does not read back equal" if bad else "", loc(ci, fn0_))
    rep.unit("groom_overrides_checked", n)


def u_r1b_loop_state_on_unknown_path(schema: Schema, rep: Report):
    """loop form of the fold: what the loop carries from child to child is untouched when the child's tag is unknown"""
    from .rules_schema import _fn

    rep.rule("U-R1b", "when the children are folded by an explicit loop: the variables the loop carries from one child to the next and tests in a condition (previous index, previous-is-list-member, previous tag ...) are not assigned on the way to, or inside, the unknown-tag branch (the branch that warns UnknownTagWarning and moves on) - otherwise an unknown tag changes how the children AFTER it are read")
    p = schema.p
    rel = p.module(BASE).relpath
    outer = _fn(p, "Aggregate._convert").node
    has_reduce = any(isinstance(n, ast.Call) and dotted(n.func) in ("functools.reduce", "reduce") for n in own_nodes(outer))
    if has_reduce:
        rep.check("U-R1b", "_convert:fold-form", True, "functools.reduce: the accumulator discipline is U-R1's", f"{rel}:{outer.lineno}")
        # ... whatever idiom finds the tag in the spec (list.index in a try, a dict of positions with a sentinel): the
        # block that warns UnknownTagWarning leaves the reducer by `return <the accumulator parameter>` and nothing else
        red = next((n for n in own_nodes(outer) if isinstance(n, ast.Call) and dotted(n.func) in ("functools.reduce", "reduce") and n.args and isinstance(n.args[0], ast.Name)), None)
        inner = next((f for f in ast.walk(outer) if isinstance(f, ast.FunctionDef) and red is not None and f.name == red.args[0].id), None)
        if inner is not None and inner.args.args:
            accum = inner.args.args[0].arg

            def _warns(c):
                return isinstance(c, ast.Call) and text(c.func).split(".")[-1] == "warn" and any("UnknownTagWarning" in text(a) for a in list(c.args) + [k.value for k in c.keywords])

            def _block_of(stmts):
                for st in stmts:
                    if not any(_warns(c) for c in ast.walk(st)):
                        continue
                    for fld in ("body", "orelse", "finalbody"):
                        sub = getattr(st, fld, None)
                        if isinstance(sub, list) and any(_warns(c) for x in sub for c in ast.walk(x)):
                            return _block_of(sub) or sub
                    for h in getattr(st, "handlers", []) or []:
                        if any(_warns(c) for x in h.body for c in ast.walk(x)):
                            return _block_of(h.body) or h.body
                    return None
                return None

            blk = _block_of(inner.body)
            if blk is not None:
                rets = [r for st in blk for r in ast.walk(st) if isinstance(r, ast.Return)]
                bad = next((r for r in rets if not (isinstance(r.value, ast.Name) and r.value.id == accum)), None)
                rebound = any(isinstance(x, ast.Name) and isinstance(x.ctx, ast.Store) and x.id == accum for x in ast.walk(inner))
                if rets:
                    rep.check("U-R1b", "update_args:unknown-branch-returns-the-accumulator", bad is None and not rebound, f"the branch that reports an unknown tag returns {text(bad.value)[:60] if bad is not None and bad.value is not None else 'a re-bound accumulator'}, not the accumulator it was given: the ordering state (previous index / previous-is-list-member) or the collected values change, so an unknown tag alters how the children after it are checked and read" if (bad is not None or rebound) else "", f"{rel}:{(bad or rets[0]).lineno}")
        return

    def is_unknown_warn(c):
        return isinstance(c, ast.Call) and text(c.func).split(".")[-1] == "warn" and any("UnknownTagWarning" in text(a) for a in list(c.args) + [k.value for k in c.keywords])

    loops = [st for st in own_statements(outer) if isinstance(st, ast.For) and any(is_unknown_warn(c) for c in ast.walk(st))]
    if len(loops) != 1:
        rep.note(f"U-R1b undecided: {len(loops)} loops over the children warn about unknown tags")
        return
    loop = loops[0]
    # innermost branch (except handler / if arm) holding the warning
    chain = []  # [(container statement list, index of the statement leading on)] from the loop body down

    def descend(stmts):
        for i, st in enumerate(stmts):
            if not any(is_unknown_warn(c) for c in ast.walk(st)):
                continue
            chain.append((stmts, i))
            for fld in ("body", "orelse", "finalbody"):
                sub = getattr(st, fld, None)
                if isinstance(sub, list) and any(is_unknown_warn(c) for x in sub for c in ast.walk(x)):
                    return descend(sub) or (st, fld)
            for h in getattr(st, "handlers", []) or []:
                if any(is_unknown_warn(c) for x in h.body for c in ast.walk(x)):
                    return descend(h.body) or (h, "body")
            return None
        return None

    descend(loop.body)
    if len(chain) < 2:
        rep.note("U-R1b undecided: the unknown-tag warning is not inside a branch of the loop body")
        return
    branch_stmts = chain[-1][0]
    # state the loop carries: bound before the loop, assigned in the loop, tested in a condition of the loop
    before = set()
    for st in own_statements(outer):
        if st is loop:
            break
        if getattr(st, "lineno", 0) < loop.lineno:
            for x in ast.walk(st):
                if isinstance(x, ast.Name) and isinstance(x.ctx, ast.Store):
                    before.add(x.id)
    stored_in_loop = {x.id for x in ast.walk(loop) if isinstance(x, ast.Name) and isinstance(x.ctx, ast.Store)}
    tested = set()
    for x in ast.walk(loop):
        if isinstance(x, (ast.If, ast.While, ast.IfExp, ast.Assert)):
            tested |= {y.id for y in ast.walk(x.test) if isinstance(y, ast.Name)}
    state = before & stored_in_loop & tested
    # statements that run in the same iteration before the branch is entered + the branch itself
    pre = []
    for stmts, i in chain[:-1]:
        pre += stmts[:i]
        lead = stmts[i]
        if isinstance(lead, ast.Try) and chain[chain.index((stmts, i)) + 1][0] is not lead.body:
            pre += lead.body  # the handler runs after (part of) the try body
    hits = []
    for st in pre + list(branch_stmts):
        for x in ast.walk(st):
            if isinstance(x, ast.Name) and isinstance(x.ctx, ast.Store) and x.id in state:
                hits.append((x.id, st))
    rep.unit("loop_state_vars", len(state))
    if hits:
        nm, st = hits[0]
        rep.check("U-R1b", f"_convert:loop:unknown-path-keeps:{nm}", False, f"`{nm}` is carried from child to child and tested in a condition, and it is assigned ({text(st)[:50]}) before the child's tag is known to be declared: after an unknown tag the following children are read against state the unknown tag set", f"{rel}:{st.lineno}")
    else:
        rep.check("U-R1b", "_convert:loop:unknown-path-keeps-state", True, f"state {sorted(state)}", f"{rel}:{loop.lineno}")


def u_r10_tables_indexed_by_tag(schema: Schema, rep: Report):
    """code that meets EVERY child (groom, its overrides, the fold) never indexes a partial table by a child's tag"""
    from .flat import flat
    from .source import parent

    rep.rule("U-R10", "groom() and its overrides, from_etree and the fold see every child, unknown ones included: none of them subscripts a module- or class-level table with a key made from a child's tag (`TABLE[child.tag.upper()]`) unless membership in that very table was tested (or KeyError is handled) - a guard that is wider than the table (`iskeyword(tag)` for a table of two keywords) makes an unknown tag such as <CLASS> or <PASS> raise KeyError, and the document is rejected")
    p = schema.p
    fns = []
    for nm in ("groom", "ungroom", "from_etree", "_convert"):
        f = schema.aggregate.own_func(nm)
        if f is not None:
            fns.append((schema.aggregate, nm, f))
    fns += [(ci, nm, f) for ci, nm, f in groom_overrides(schema)]
    n = 0
    for ci, nm, fn0 in fns:
        try:
            fn = flat(p, ci.module, fn0, ci)
        except Exception:
            fn = fn0
        for x in ast.walk(fn):
            for ch in ast.iter_child_nodes(x):
                ch._parent = x
        for x in ast.walk(fn):
            if not (isinstance(x, ast.Subscript) and isinstance(x.ctx, ast.Load) and isinstance(x.value, ast.Name)):
                continue
            if not any(isinstance(y, ast.Attribute) and y.attr == "tag" for y in ast.walk(x.slice)):
                continue
            tbl = x.value.id
            if not p.has_binding(ci.module, tbl):
                continue
            binds = [pl for bn, kd, pl in p.module(ci.module).bindings if bn == tbl and kd == "assign"]
            if not (binds and isinstance(binds[-1], (ast.Dict, ast.DictComp))):
                continue
            n += 1
            guarded = False
            par = parent(x)
            while par is not None and par is not fn:
                if isinstance(par, (ast.If, ast.IfExp)) and re.search(rf"\bin {re.escape(tbl)}\b", text(par.test)):
                    guarded = True
                if isinstance(par, ast.Try) and any(h.type is None or any(k in text(h.type) for k in ("KeyError", "LookupError", "Exception")) for h in par.handlers) and any(y is x for b in par.body for y in ast.walk(b)):
                    guarded = True
                par = parent(par)
            rep.check("U-R10", f"{ci.name}.{nm}:{tbl}[<tag>]", guarded, f"{text(x)[:50]} is evaluated for children whose tag is not a key of {tbl} (no `in {tbl}` test, no KeyError handler around it): an unknown or vendor element with such a tag raises KeyError out of the conversion instead of being skipped" if not guarded else "", f"{ci.mod.relpath}:{x.lineno}")
    if n == 0:
        rep.check("U-R10", "groom:no-table-indexed-by-tag", True, f"{len(fns)} functions", "")


_SHRINK_GROW = ("remove", "append", "insert", "extend", "pop", "clear")


def _groom_modules(schema: Schema):
    mods = [BASE]
    for ci, _nm, _fn in groom_overrides(schema):
        if ci.module not in mods:
            mods.append(ci.module)
    return mods


def u_r11_no_edit_of_the_sequence_being_iterated(schema: Schema, rep: Report):
    """removing a child while iterating over its parent skips the next one"""
    rep.rule("U-R11", "no loop of the model machinery (models.base and the modules that override groom/ungroom) adds to or removes from the very sequence it iterates: `for child in elem: ... elem.remove(child)` shifts the remaining children down and the iterator steps over the one that followed - the element after a dropped vendor tag is never looked at (not renamed, not dropped), so what the model holds depends on which unknown tags the document happens to carry; iterate over a snapshot (set(elem) / list(elem) / elem[:])")
    p = schema.p
    n = 0
    for modname in _groom_modules(schema):
        m = p.module(modname)
        for qn, cls, fn in m.functions():
            for lp in ast.walk(fn):
                if not isinstance(lp, (ast.For, ast.comprehension)):
                    continue
                it = lp.iter
                # iter(x) / reversed... : a view of the same sequence; list(x)/set(x)/tuple(x)/x[:]/sorted(x)/copy: snapshots
                while isinstance(it, ast.Call) and text(it.func) in ("iter", "enumerate", "reversed") and it.args:
                    it = it.args[0]
                if not isinstance(it, (ast.Name, ast.Attribute)):
                    continue
                seq = text(it)
                n += 1
                body = lp.body + lp.orelse if isinstance(lp, ast.For) else []
                for st in body:
                    for c in ast.walk(st):
                        hit = None
                        if isinstance(c, ast.Call) and isinstance(c.func, ast.Attribute) and c.func.attr in _SHRINK_GROW and text(c.func.value) == seq:
                            hit = f"{seq}.{c.func.attr}(...)"
                        if isinstance(c, ast.Delete) and any(isinstance(t, ast.Subscript) and text(t.value) == seq for t in c.targets):
                            hit = f"del {seq}[...]"
                        if hit:
                            # leaving the loop right after the edit is safe
                            rep.check("U-R11", f"{qn}:for-{seq}:{hit}", False, f"{qn} iterates `{seq}` and calls {hit} inside the loop: the iterator's position no longer matches the sequence, so the child that follows an edited one is skipped (e.g. <YIELD> after a removed <INTU.X> is never renamed / a second vendor tag in a row survives)", f"{m.relpath}:{c.lineno}")
    rep.unit("loops_over_a_plain_sequence", n)
    rep.check("U-R11", "model-machinery:no-edit-while-iterating", True, "", f"{n} loops over a name / attribute in {', '.join(_groom_modules(schema))}")


def u_r12_unknown_tag_text_never_unpacked(schema: Schema, rep: Report):
    """a tag name is arbitrary text: splitting it yields any number of pieces"""
    rep.rule("U-R12", "the model machinery (models.base and the modules that override groom/ungroom) never unpacks the pieces of a split text into a fixed number of names without bounding the split: `a, b = tag.split('.')` raises ValueError for a tag with two periods (<INTU.ACCT.NICK>), `tag.split('.')[1]` raises IndexError for one without - an unknown / vendor tag of an unexpected shape then aborts the conversion of the whole document instead of being skipped")
    p = schema.p
    n = 0
    for modname in _groom_modules(schema):
        m = p.module(modname)
        for qn, cls, fn in m.functions():
            for st in ast.walk(fn):
                if not (isinstance(st, ast.Assign) and len(st.targets) == 1 and isinstance(st.targets[0], (ast.Tuple, ast.List))):
                    continue
                v = st.value
                if not (isinstance(v, ast.Call) and isinstance(v.func, ast.Attribute) and v.func.attr in ("split", "rsplit")):
                    continue
                n += 1
                tg = st.targets[0]
                if any(isinstance(e, ast.Starred) for e in tg.elts):
                    continue
                k = len(tg.elts)
                maxsplit = None
                if len(v.args) >= 2 and isinstance(v.args[1], ast.Constant):
                    maxsplit = v.args[1].value
                for kw in v.keywords:
                    if kw.arg == "maxsplit" and isinstance(kw.value, ast.Constant):
                        maxsplit = kw.value.value
                # with maxsplit = k-1 the count can still be smaller; only a guard can settle that - the unbounded form is certain to over-run
                ok = maxsplit == k - 1
                rep.check("U-R12", f"{qn}:unpacks:{text(v)[:30]}", ok, f"{qn} unpacks {text(v)} into {k} names without maxsplit={k - 1}: a text with more separators (a vendor tag such as <INTU.ACCT.NICKNAME>) raises ValueError out of the conversion" if not ok else "", f"{m.relpath}:{st.lineno}")
    rep.unit("split_unpackings", n)
    rep.check("U-R12", "model-machinery:no-unbounded-split-unpacked", True, "", f"{n} tuple-unpackings of a split in {', '.join(_groom_modules(schema))}")
