"""Path-condition truth tables: a path-sensitive, exhaustive decision procedure for guard code.

For a (loop-free region of a) function every acyclic CFG path from the entry to an exit is
enumerated together with the branch conditions it takes.  Conditions are decomposed into canonical
ATOMS (a comparison or a truthiness test, canonical up to negation, local single-assignment names
expanded), so `if not a > b: return` and `if a <= b: return` and `if b < a: raise` talk about the
same atom.  For each of the 2^n assignments of the atoms the path taken and its OUTCOME (raise /
return <expr> / the calls made on the way) is determined, and compared with the outcome the rule
expects.  This decides "raises iff P, otherwise returns its argument unchanged" for any spelling:
nested ifs, early returns, De Morgan, helper that always raises.  Nothing is executed: atoms are
uninterpreted booleans."""
from __future__ import annotations

import ast
import itertools
from typing import Callable, Dict, List, Optional, Sequence, Set, Tuple

from .cfg import CFG, Node
from .dataflow import own_nodes
from .match import Expander, text
from .source import AnalysisError


# --------------------------------------------------------------------------
# canonical atoms
# --------------------------------------------------------------------------
def _canon_atom(e: ast.AST) -> Tuple[str, bool]:
    """(canonical text, polarity): the expression is equivalent to `atom` if polarity else `not atom`"""
    if isinstance(e, ast.UnaryOp) and isinstance(e.op, ast.Not):
        a, pol = _canon_atom(e.operand)
        return a, not pol
    if isinstance(e, ast.Compare) and len(e.ops) == 1:
        l, r, op = e.left, e.comparators[0], e.ops[0]
        lt, rt = ast.unparse(l), ast.unparse(r)
        # len(x) compared with 0 / 1  ==  truthiness of the sized object
        def _len_arg(e_):
            return ast.unparse(e_.args[0]) if isinstance(e_, ast.Call) and isinstance(e_.func, ast.Name) and e_.func.id == "len" and len(e_.args) == 1 else None
        def _const(e_):
            return e_.value if isinstance(e_, ast.Constant) and isinstance(e_.value, int) and not isinstance(e_.value, bool) else None
        la, ra, lc, rc_ = _len_arg(l), _len_arg(r), _const(l), _const(r)
        if la is not None and rc_ is not None:
            tbl = {(ast.Gt, 0): True, (ast.NotEq, 0): True, (ast.GtE, 1): True, (ast.Eq, 0): False, (ast.Lt, 1): False, (ast.LtE, 0): False}
            if (type(op), rc_) in tbl:
                return f"bool({la})", tbl[(type(op), rc_)]
        if ra is not None and lc is not None:
            tbl = {(ast.Lt, 0): True, (ast.NotEq, 0): True, (ast.LtE, 1): True, (ast.Eq, 0): False, (ast.Gt, 1): False, (ast.GtE, 0): False}
            if (type(op), lc) in tbl:
                return f"bool({ra})", tbl[(type(op), lc)]
        if isinstance(op, ast.Lt):
            return f"{lt} < {rt}", True
        if isinstance(op, ast.GtE):
            return f"{lt} < {rt}", False
        if isinstance(op, ast.Gt):
            return f"{rt} < {lt}", True
        if isinstance(op, ast.LtE):
            return f"{rt} < {lt}", False
        if isinstance(op, (ast.Eq, ast.NotEq)):
            # prefix tests: x[:1] == '/'  /  x[0:1] == '/'  /  x[0] == '/'  /  x.find('/') == 0  /  x[:len(c)] == c
            # all say x.startswith('/') (x[0] differs only by raising on the empty string)
            for x, y in ((l, r), (r, l)):
                pre = None
                if isinstance(y, ast.Constant) and isinstance(y.value, str) and len(y.value) >= 1 and isinstance(x, ast.Subscript):
                    sl = x.slice
                    if isinstance(sl, ast.Slice) and sl.step is None and (sl.lower is None or (isinstance(sl.lower, ast.Constant) and sl.lower.value == 0)) and isinstance(sl.upper, ast.Constant) and sl.upper.value == len(y.value):
                        pre = (x.value, y)
                    elif isinstance(sl, ast.Constant) and sl.value == 0 and len(y.value) == 1:
                        pre = (x.value, y)
                if isinstance(y, ast.Constant) and y.value == 0 and not isinstance(y.value, bool) and isinstance(x, ast.Call) and isinstance(x.func, ast.Attribute) and x.func.attr == "find" and len(x.args) == 1 and isinstance(x.args[0], ast.Constant) and isinstance(x.args[0].value, str):
                    pre = (x.func.value, x.args[0])
                if pre is not None:
                    return f"bool({ast.unparse(pre[0])}.startswith({ast.unparse(pre[1])}))", isinstance(op, ast.Eq)
            if isinstance(r, ast.Constant) and r.value is None:
                return f"{lt} is None", isinstance(op, ast.Eq)
            if isinstance(l, ast.Constant) and l.value is None:
                return f"{rt} is None", isinstance(op, ast.Eq)
            a, b = sorted([lt, rt])
            # len(x) == 0  <=>  not x   (sized containers)
            for x, y in ((l, r), (r, l)):
                if isinstance(y, ast.Constant) and y.value == 0 and isinstance(x, ast.Call) and isinstance(x.func, ast.Name) and x.func.id == "len" and len(x.args) == 1:
                    return f"bool({ast.unparse(x.args[0])})", not isinstance(op, ast.Eq)
            return f"{a} == {b}", isinstance(op, ast.Eq)
        if isinstance(op, (ast.Is, ast.IsNot)):
            # two named constants of one class (enum members: `Kind.LEAF is Kind.BRANCH`) are the same object exactly
            # when they are the same name
            def _member(x_):
                return isinstance(x_, ast.Attribute) and isinstance(x_.value, ast.Name) and x_.value.id not in ("self", "cls") and x_.attr.isupper()
            if _member(l) and _member(r) and l.value.id == r.value.id:
                return "True", (l.attr == r.attr) == isinstance(op, ast.Is)
            # identity is symmetric: a constant operand (None / True / False) goes to the right
            if isinstance(l, ast.Constant) and not isinstance(r, ast.Constant):
                lt, rt = rt, lt
                l, r = r, l
            # a value that is visibly not None (a literal, an f-string, a display) compared with None
            if isinstance(r, ast.Constant) and r.value is None:
                if isinstance(l, ast.Constant):
                    return "True", (l.value is None) == isinstance(op, ast.Is)
                if isinstance(l, (ast.JoinedStr, ast.List, ast.Dict, ast.Tuple, ast.Set, ast.ListComp, ast.DictComp, ast.SetComp)):
                    return "True", not isinstance(op, ast.Is)
            return f"{lt} is {rt}", isinstance(op, ast.Is)
        if isinstance(op, (ast.In, ast.NotIn)):
            return f"{lt} in {rt}", isinstance(op, ast.In)
    if isinstance(e, ast.Call) and isinstance(e.func, ast.Name) and e.func.id == "len" and len(e.args) == 1:
        return f"bool({ast.unparse(e.args[0])})", True
    if isinstance(e, ast.Call) and isinstance(e.func, ast.Name) and e.func.id == "bool" and len(e.args) == 1:
        return _canon_atom(e.args[0])
    if isinstance(e, ast.Constant):
        return ("True", bool(e.value))
    return f"bool({ast.unparse(e)})", True


_LAST_INDEX = None


def _norm_atom_text(a: str) -> str:
    """x[len(x) - 1] is x[-1]"""
    global _LAST_INDEX
    if _LAST_INDEX is None:
        import re as _re

        _LAST_INDEX = _re.compile(r"([A-Za-z_][\w.]*)\[len\(\1\) - 1\]")
    return _LAST_INDEX.sub(r"\1[-1]", a)


def canon_atom(e: ast.AST) -> Tuple[str, bool]:
    a, pol = _canon_atom(e)
    if "[len(" in a:
        a = _norm_atom_text(a)
        # operands of a symmetric comparison were ordered before normalisation: re-order
        if " == " in a and a.count(" == ") == 1:
            l, r = a.split(" == ")
            l, r = sorted([l, r])
            a = f"{l} == {r}"
    return a, pol


class Cond:
    """boolean structure over canonical atoms"""

    def __init__(self, kind, items=None, atom=None, pol=True):
        self.kind, self.items, self.atom, self.pol = kind, items or [], atom, pol

    def atoms(self) -> Set[str]:
        if self.kind == "atom":
            return {self.atom} if self.atom != "True" else set()
        out: Set[str] = set()
        for i in self.items:
            out |= i.atoms()
        return out

    def ev(self, env: Dict[str, bool]) -> bool:
        if self.kind == "atom":
            v = True if self.atom == "True" else env[self.atom]
            return v if self.pol else not v
        if self.kind == "and":
            return all(i.ev(env) for i in self.items)
        if self.kind == "or":
            return any(i.ev(env) for i in self.items)
        if self.kind == "not":
            return not self.items[0].ev(env)
        raise AssertionError(self.kind)


def cond_of(e: ast.AST, expand: Optional[Callable[[ast.AST], ast.AST]] = None) -> Cond:
    if expand is not None and isinstance(e, ast.Name):
        e = expand(e)
    if isinstance(e, ast.BoolOp):
        return Cond("and" if isinstance(e.op, ast.And) else "or", [cond_of(v, expand) for v in e.values])
    if isinstance(e, ast.UnaryOp) and isinstance(e.op, ast.Not):
        return Cond("not", [cond_of(e.operand, expand)])
    if isinstance(e, ast.IfExp):
        c = cond_of(e.test, expand)
        return Cond("or", [Cond("and", [c, cond_of(e.body, expand)]), Cond("and", [Cond("not", [c]), cond_of(e.orelse, expand)])])
    if isinstance(e, ast.Compare) and len(e.ops) > 1:
        parts = []
        left = e.left
        for op, r in zip(e.ops, e.comparators):
            parts.append(cond_of(ast.Compare(left=left, ops=[op], comparators=[r]), expand))
            left = r
        return Cond("and", parts)
    if expand is not None:
        e = expand(e)
        if isinstance(e, (ast.BoolOp,)) or (isinstance(e, ast.UnaryOp) and isinstance(e.op, ast.Not)):
            return cond_of(e, None)
    # equality of two truth values: bool(a) == bool(b)  <=>  (a and b) or (not a and not b)
    if isinstance(e, ast.Compare) and len(e.ops) == 1 and isinstance(e.ops[0], (ast.Eq, ast.NotEq, ast.Is, ast.IsNot)):
        l, r = e.left, e.comparators[0]

        def _truthy(x):
            return isinstance(x, ast.Call) and isinstance(x.func, ast.Name) and x.func.id == "bool" and len(x.args) == 1

        if _truthy(l) and _truthy(r):
            a, b = cond_of(l.args[0], None), cond_of(r.args[0], None)
            eq = Cond("or", [Cond("and", [a, b]), Cond("and", [Cond("not", [a]), Cond("not", [b])])])
            return eq if isinstance(e.ops[0], (ast.Eq, ast.Is)) else Cond("not", [eq])
    if isinstance(e, ast.Call) and isinstance(e.func, ast.Name) and e.func.id == "bool" and len(e.args) == 1 and isinstance(e.args[0], (ast.BoolOp, ast.UnaryOp, ast.Compare)):
        return cond_of(e.args[0], None)
    # the last element as a slice of length 0 or 1:  x[-1:] == [y]   <=>   x and x[-1] == y
    if isinstance(e, ast.Compare) and len(e.ops) == 1 and isinstance(e.ops[0], (ast.Eq, ast.NotEq)):
        for x, y in ((e.left, e.comparators[0]), (e.comparators[0], e.left)):
            if (isinstance(x, ast.Subscript) and isinstance(x.slice, ast.Slice) and x.slice.upper is None and x.slice.step is None
                    and isinstance(x.slice.lower, ast.UnaryOp) and isinstance(x.slice.lower.op, ast.USub) and isinstance(x.slice.lower.operand, ast.Constant) and x.slice.lower.operand.value == 1
                    and isinstance(y, (ast.List, ast.Tuple)) and len(y.elts) == 1):
                last = ast.Subscript(value=x.value, slice=ast.UnaryOp(op=ast.USub(), operand=ast.Constant(value=1)), ctx=ast.Load())
                both = Cond("and", [cond_of(x.value, None), cond_of(ast.Compare(left=last, ops=[ast.Eq()], comparators=[y.elts[0]]), None)])
                return both if isinstance(e.ops[0], ast.Eq) else Cond("not", [both])
    a, pol = canon_atom(e)
    return Cond("atom", atom=a, pol=pol)


def parse_cond(src: str) -> Cond:
    return cond_of(ast.parse(src, mode="eval").body)


# --------------------------------------------------------------------------
# paths
class CW(tuple):
    """(condition, wanted truth) with the path position (index into Path.nodes) of the node that established it"""

    pos = None

    def __new__(cls, c, w, pos):
        o = super().__new__(cls, (c, w))
        o.pos = pos
        return o


class PathList(list):
    """paths of one function, with the CFG they were enumerated on"""

    cfg = None

# --------------------------------------------------------------------------
class Path:
    __slots__ = ("conds", "nodes", "outcome", "value", "events", "marks")

    def __init__(self, conds, nodes, outcome, value, events, marks=None):
        self.conds, self.nodes, self.outcome, self.value, self.events = conds, nodes, outcome, value, events
        self.marks = marks or {}

    def index_of(self, node_id):
        """position of the first occurrence of the CFG node on this path, or None"""
        try:
            return self.nodes.index(node_id)
        except ValueError:
            return None

    def holds(self, env) -> bool:
        return all(c.ev(env) == want for c, want in self.conds)

    def conds_before(self, node_id):
        """the (condition, polarity) pairs established before the path first reaches node_id; None if it never does"""
        if node_id not in self.marks:
            return None
        return self.conds[: self.marks[node_id]]

    def __repr__(self):
        return f"<path {self.outcome} {self.value} events={self.events}>"


def noreturn_callees(fn_lookup: Callable[[ast.Call], Optional[ast.AST]], call: ast.Call, depth=2) -> bool:
    """does the call resolve to a repo function that can never return normally"""
    target = fn_lookup(call)
    if target is None or depth <= 0:
        return False
    cfg = CFG(target)
    # calls inside the callee that never return cut its paths too
    return cfg.exit.id not in _reachable_with_noreturn(cfg, fn_lookup, depth - 1)


def _reachable_with_noreturn(cfg: CFG, fn_lookup, depth):
    blocked = set()
    for n in cfg.nodes:
        if isinstance(n.stmt, ast.Expr) and isinstance(n.stmt.value, ast.Call) and n.kind == "expr":
            if noreturn_callees(fn_lookup, n.stmt.value, depth):
                blocked.add(n.id)
    seen = {cfg.entry.id}
    stack = [cfg.entry.id]
    while stack:
        a = stack.pop()
        if a in blocked:
            continue
        for b, lab in cfg.succ[a]:
            if b not in seen:
                seen.add(b)
                stack.append(b)
    return seen


def enumerate_paths(fn, fn_lookup: Optional[Callable[[ast.Call], Optional[ast.AST]]] = None, expander: Optional[Expander] = None,
                    max_paths=4000, start_stmt=None, event_filter: Optional[Callable[[ast.Call], Optional[str]]] = None, resolve: bool = True) -> List[Path]:
    """all acyclic entry->exit paths of fn (loops are entered at most once).  Outcomes: 'return', 'raise', 'fall' (falls off
    the end).  `events` are labels produced by event_filter for calls passed on the way (e.g. 'warn')."""
    cfg = CFG(fn)
    ex = expander or Expander(fn)
    lookup = fn_lookup or (lambda c: None)
    out = PathList()
    out.cfg = cfg

    def expand(e):
        return ex.x(e)

    class _Stub:
        def __init__(self, nodes):
            self.nodes = nodes

    def resolved(e, nodes_so_far):
        """the test expression with every local replaced by the value it has on THIS path (then single-assignment
        expansion for what is left, e.g. closure variables)"""
        if not resolve:
            return e
        try:
            r = value_on_path(_Stub(nodes_so_far), cfg, e, upto=len(nodes_so_far))
        except Exception:
            r = e
        return expand(r)

    def walk(nid, conds, nodes, events, visited, marks):
        if len(out) > max_paths:
            raise AnalysisError(f"too many paths in {getattr(fn, 'name', '?')}")
        n = cfg.nodes[nid]
        if nid not in marks:
            marks = dict(marks)
            marks[nid] = len(conds)
        if nid == cfg.exit.id:
            last = cfg.nodes[nodes[-1]] if nodes else None
            if last is not None and last.kind == "return":
                out.append(Path(conds, nodes, "return", last.stmt.value, events, marks))
            else:
                out.append(Path(conds, nodes, "fall", None, events, marks))
            return
        if nid == cfg.raise_exit.id:
            last = cfg.nodes[nodes[-1]] if nodes else None
            out.append(Path(conds, nodes, "raise", getattr(last.stmt, "exc", None) if last is not None and isinstance(last.stmt, ast.Raise) else None, events, marks))
            return
        ev = list(events)
        if n.stmt is not None and n.kind not in ("join", "handlers"):
            for c in n.calls():
                if event_filter:
                    lab = event_filter(c)
                    if lab:
                        ev.append(lab)
            # a statement that is just a call to a function which never returns ends the path with a raise
            if isinstance(n.stmt, ast.Expr) and isinstance(n.stmt.value, ast.Call) and n.kind == "expr" and noreturn_callees(lookup, n.stmt.value):
                out.append(Path(conds, nodes + [nid], "raise", n.stmt.value, ev, marks))
                return
        succs = sorted(cfg.succ[nid])
        second_visit = n.kind == "loop" and nodes.count(nid) >= 1
        for b, lab in succs:
            if n.kind == "loop":
                if second_visit and lab in ("iter", "true"):
                    continue  # after one iteration only the exit of the loop is followed
                if not second_visit and lab in ("exhausted",) and _nonempty_literal(getattr(n.stmt, "iter", None)):
                    continue  # a loop over a non-empty literal runs at least once
            if lab in ("may-raise",):
                # exceptional edge out of a try body: only follow when the statement is an explicit noreturn call (handled above)
                # or when following handlers matters (KeyError lookups); keep it as an explicit branch with a pseudo atom
                atom = Cond("atom", atom=f"raises({ast.unparse(n.stmt)[:50]})" if n.stmt is not None else "raises(?)", pol=True)
                if b in visited:
                    continue
                walk(b, conds + [CW(atom, True, len(nodes))], nodes + [nid], ev, visited | {b}, marks)
                continue
            if b in visited and cfg.nodes[b].kind == "loop" and nodes.count(b) >= 2:
                continue
            nc = conds
            if n.kind == "test" and lab in ("true", "false"):
                nc = conds + [CW(cond_of(resolved(n.stmt.test, nodes), None), lab == "true", len(nodes))]
            elif n.kind == "assert" and lab == "assert-fail":
                nc = conds + [CW(cond_of(resolved(n.stmt.test, nodes), None), False, len(nodes))]
            elif n.kind == "assert":
                nc = conds + [CW(cond_of(resolved(n.stmt.test, nodes), None), True, len(nodes))]
            elif n.kind == "loop" and lab in ("iter", "exhausted") and not second_visit:
                it = resolved(n.stmt.iter, nodes)
                nm = f"bool({ast.unparse(it)})" if isinstance(it, (ast.Name, ast.Attribute)) else f"nonempty({ast.unparse(it)})"
                nc = conds + [CW(Cond("atom", atom=nm, pol=True), lab == "iter", len(nodes))]
            # statements in a try body: the normal successor means "did not raise"
            if any(l2 == "may-raise" for _, l2 in succs) and lab != "may-raise":
                atom = Cond("atom", atom=f"raises({ast.unparse(n.stmt)[:50]})" if n.stmt is not None else "raises(?)", pol=True)
                nc = nc + [CW(atom, False, len(nodes))]
            walk(b, nc, nodes + [nid], ev, visited | {b}, marks)

    walk(cfg.entry.id, [], [], [], {cfg.entry.id}, {})
    return out


def _nonempty_literal(it) -> bool:
    if it is None:
        return False
    if isinstance(it, ast.Call) and isinstance(it.func, ast.Attribute) and it.func.attr in ("items", "keys", "values") and not it.args:
        it = it.func.value
    if isinstance(it, (ast.List, ast.Tuple, ast.Set)):
        return len(it.elts) > 0
    if isinstance(it, ast.Dict):
        return len(it.keys) > 0
    return False


def truth_table(paths: Sequence[Path], extra_atoms: Sequence[str] = ()):
    """yield (assignment, [paths consistent with it])"""
    atoms: Set[str] = set(extra_atoms)
    for p in paths:
        for c, _ in p.conds:
            atoms |= c.atoms()
    atoms_l = sorted(atoms)
    if len(atoms_l) > 14:
        raise AnalysisError(f"too many atoms ({len(atoms_l)}) for an exhaustive table")
    for vals in itertools.product([False, True], repeat=len(atoms_l)):
        env = dict(zip(atoms_l, vals))
        yield env, [p for p in paths if p.holds(env)]


def atoms_of(paths: Sequence[Path]) -> List[str]:
    s: Set[str] = set()
    for p in paths:
        for c, _ in p.conds:
            s |= c.atoms()
    return sorted(s)


# --------------------------------------------------------------------------
# values along one path
# --------------------------------------------------------------------------
def value_on_path(path: Path, cfg: CFG, expr: ast.AST, upto: Optional[int] = None, depth: int = 10) -> ast.AST:
    """`expr` with every local name replaced by the value last assigned to it on this path before
    position `upto` (index into path.nodes; default: the end).  Names bound by loops / with / unpacking,
    parameters and globals are left as they are."""
    from .dataflow import clone

    if expr is None:
        return None
    if upto is None:
        upto = len(path.nodes)

    def last_def(name: str, before: int):
        for i in range(before - 1, -1, -1):
            n = cfg.nodes[path.nodes[i]]
            st = n.stmt
            if st is None or n.kind in ("join", "handlers", "test", "loop"):
                if n.kind == "looptarget" and st is not None:
                    for t in ast.walk(st.target):
                        if isinstance(t, ast.Name) and t.id == name:
                            return i, None
                continue
            if isinstance(st, ast.Assign) and n.kind == "assign":
                for t in st.targets:
                    if isinstance(t, ast.Name) and t.id == name:
                        return i, st.value
                    if isinstance(t, (ast.Tuple, ast.List)) and any(isinstance(e, ast.Name) and e.id == name for e in t.elts):
                        val = st.value
                        if isinstance(val, ast.Name):
                            j, v2 = last_def(val.id, i)
                            if j is not None and isinstance(v2, (ast.Tuple, ast.List)):
                                val, i_val = v2, j
                                if len(val.elts) == len(t.elts):
                                    for e, v in zip(t.elts, val.elts):
                                        if isinstance(e, ast.Name) and e.id == name:
                                            return i_val, v
                            return i, None
                        if isinstance(val, (ast.Tuple, ast.List)) and len(val.elts) == len(t.elts):
                            for e, v in zip(t.elts, val.elts):
                                if isinstance(e, ast.Name) and e.id == name:
                                    return i, v
                        # a, b, c = m.group('a', 'b', 'c'): each name is the like-positioned single group
                        if isinstance(val, ast.Call) and isinstance(val.func, ast.Attribute) and val.func.attr == "group" and len(val.args) == len(t.elts) > 1 and not val.keywords:
                            for e, a_ in zip(t.elts, val.args):
                                if isinstance(e, ast.Name) and e.id == name:
                                    return i, ast.copy_location(ast.Call(func=val.func, args=[a_], keywords=[]), val)
                        return i, None
            elif isinstance(st, ast.AnnAssign) and n.kind == "annassign" and isinstance(st.target, ast.Name) and st.target.id == name:
                return i, st.value
            elif isinstance(st, ast.AugAssign) and isinstance(st.target, ast.Name) and st.target.id == name:
                return i, None
            elif n.kind in ("with", "except", "looptarget"):
                for x in ast.walk(st):
                    if isinstance(x, ast.Name) and isinstance(x.ctx, ast.Store) and x.id == name:
                        return i, None
        return None, None

    class Sub(ast.NodeTransformer):
        def __init__(self, before, depth):
            self.before, self.depth = before, depth

        def visit_Name(self, node):
            if not isinstance(node.ctx, ast.Load) or self.depth <= 0:
                return node
            i, v = last_def(node.id, self.before)
            if i is None or v is None:
                return node
            return Sub(i, self.depth - 1).visit(clone(v))

        def visit_Lambda(self, node):
            return node

    return Sub(upto, depth).visit(clone(expr))


def simple_conds(conds) -> Dict[str, bool]:
    """atom -> truth for the plain-atom conditions of a path (compound conditions are split when their
    truth fixes the atoms: a true conjunction, a false disjunction)"""
    out: Dict[str, bool] = {}

    def add(c: Cond, want: bool):
        if c.kind == "atom":
            if c.atom != "True":
                out[c.atom] = want if c.pol else not want
        elif c.kind == "not":
            add(c.items[0], not want)
        elif c.kind == "and" and want:
            for i in c.items:
                add(i, True)
        elif c.kind == "or" and not want:
            for i in c.items:
                add(i, False)

    for c, w in conds:
        add(c, w)
    return out


def return_paths(fn, fn_lookup=None, expander=None):
    """[(path, resolved returned expression text, simple conditions)] for every normally returning path, plus the PathList"""
    from .match import text as _text

    pths = enumerate_paths(fn, fn_lookup, expander)
    out = []
    for p in pths:
        if p.outcome == "return":
            v = value_on_path(p, pths.cfg, p.value, upto=len(p.nodes) - 1) if p.value is not None else None
            out.append((p, _text(v) if v is not None else "None", simple_conds(p.conds)))
        elif p.outcome == "fall":
            out.append((p, "None", simple_conds(p.conds)))
    return out, pths


def implies(conds, goal: Cond, max_atoms: int = 12) -> Optional[bool]:
    """do the path conditions force `goal`?  Atoms fixed by plain conditions are substituted; the remaining free
    atoms are enumerated exhaustively (None if there are too many)."""
    fixed = simple_conds(conds)
    atoms: Set[str] = set(goal.atoms())
    for c, _ in conds:
        atoms |= c.atoms()
    free = sorted(a for a in atoms if a not in fixed)
    if len(free) > max_atoms:
        return None
    for vals in itertools.product([False, True], repeat=len(free)):
        env = dict(fixed)
        env.update(zip(free, vals))
        if all(c.ev(env) == w for c, w in conds) and not goal.ev(env):
            return False
    return True


def atom(text_: str, pol: bool = True) -> Cond:
    return Cond("atom", atom=text_, pol=pol)


def any_of(*cs: Cond) -> Cond:
    return Cond("or", list(cs))


# --------------------------------------------------------------------------
# where a value comes from, along one path
# --------------------------------------------------------------------------
def origins(path: Path, cfg: CFG, expr: ast.AST, upto: Optional[int] = None, params: Sequence[str] = (), depth: int = 40) -> Set[str]:
    """leaf sources `expr` derives from on this path before position `upto`:
    const:<v> | self.<attr> | call:self.<m> | fn:<dotted callee> | open[<mode>]:<resolved path text> | param:<p> |
    global:<g> | opaque:<n>.  A local object also absorbs the arguments of the methods called on it between its
    creation and the use (`parser = OFXTree(); parser.parse(src); parser.convert()` derives from src)."""
    from .source import dotted

    if upto is None:
        upto = len(path.nodes)
    out: Set[str] = set()
    if expr is None or depth <= 0:
        return out

    def last_binding(name: str, before: int):
        """(index, kind, node/value) of the last binding of name on the path before `before`"""
        for i in range(before - 1, -1, -1):
            n = cfg.nodes[path.nodes[i]]
            st = n.stmt
            if st is None or n.kind in ("join", "handlers", "test", "loop"):
                continue
            if isinstance(st, ast.Assign) and n.kind == "assign":
                for t in st.targets:
                    if isinstance(t, ast.Name) and t.id == name:
                        return i, "value", st.value
                    if isinstance(t, (ast.Tuple, ast.List)) and any(isinstance(e, ast.Name) and e.id == name for e in ast.walk(t)):
                        v = value_on_path(path, cfg, ast.Name(id=name, ctx=ast.Load()), upto=i + 1, depth=1)
                        if not (isinstance(v, ast.Name) and v.id == name):
                            # value_on_path found the element; report the position of the element's own statement conservatively
                            return i, "value", v
                        return i, "value", st.value
            elif isinstance(st, ast.AnnAssign) and n.kind == "annassign" and isinstance(st.target, ast.Name) and st.target.id == name and st.value is not None:
                return i, "value", st.value
            elif isinstance(st, ast.AugAssign) and isinstance(st.target, ast.Name) and st.target.id == name:
                return i, "aug", st
            elif n.kind == "with":
                for it in getattr(st, "items", []):
                    if it.optional_vars is not None and any(isinstance(x, ast.Name) and x.id == name for x in ast.walk(it.optional_vars)):
                        return i, "value", it.context_expr
            elif n.kind == "looptarget":
                if any(isinstance(x, ast.Name) and x.id == name for x in ast.walk(st.target)):
                    return i, "value", st.iter
            elif n.kind == "except":
                if getattr(st, "name", None) == name:
                    return i, "opaque", None
        return None, None, None

    if isinstance(expr, ast.Constant):
        return {f"const:{expr.value!r}"}
    if isinstance(expr, ast.Attribute) and isinstance(expr.value, ast.Name) and expr.value.id == "self":
        return {f"self.{expr.attr}"}
    if isinstance(expr, ast.Call):
        f = expr.func
        d = dotted(f) or ""
        if isinstance(f, ast.Attribute) and isinstance(f.value, ast.Name) and f.value.id == "self":
            # a method of the object itself: a leaf (what it is given is not what it returns)
            return {f"call:self.{f.attr}"}
        elif d.split(".")[-1] == "open" and (expr.args or isinstance(f, ast.Attribute)):
            if isinstance(f, ast.Attribute) and d.split(".")[0] not in ("io", "os", "builtins", "codecs", "gzip"):
                pth, mode = f.value, (expr.args[0] if expr.args else next((k.value for k in expr.keywords if k.arg == "mode"), None))
            else:
                pth, mode = (expr.args[0] if expr.args else None), (expr.args[1] if len(expr.args) > 1 else next((k.value for k in expr.keywords if k.arg == "mode"), None))
            m = mode.value if isinstance(mode, ast.Constant) else ("r" if mode is None else "?")
            if pth is not None:
                out.add(f"open[{m}]:{text(value_on_path(path, cfg, pth, upto=upto))}")
                out |= origins(path, cfg, pth, upto, params, depth - 1)
            return out
        elif isinstance(f, ast.Attribute) and f.attr in ("read_bytes", "read_text") and not expr.args:
            out.add(f"open[rb]:{text(value_on_path(path, cfg, f.value, upto=upto))}")
        elif d:
            out.add(f"fn:{d}")
        if isinstance(f, ast.Attribute):
            out |= origins(path, cfg, f.value, upto, params, depth - 1)
        for a in expr.args:
            out |= origins(path, cfg, a.value if isinstance(a, ast.Starred) else a, upto, params, depth - 1)
        for k in expr.keywords:
            out |= origins(path, cfg, k.value, upto, params, depth - 1)
        return out
    if isinstance(expr, ast.Name):
        i, kind, v = last_binding(expr.id, upto)
        if i is None:
            return {f"param:{expr.id}" if expr.id in params else f"global:{expr.id}"}
        if kind == "opaque" or v is None:
            return {f"opaque:{expr.id}"}
        if kind == "aug":
            return origins(path, cfg, v.value, i, params, depth - 1) | origins(path, cfg, ast.Name(id=expr.id, ctx=ast.Load()), i, params, depth - 1)
        out |= origins(path, cfg, v, i, params, depth - 1)
        # the object absorbs what is fed to it through its own methods between creation and use
        if isinstance(v, ast.Call):
            for j in range(i + 1, upto):
                n = cfg.nodes[path.nodes[j]]
                if n.stmt is None or n.kind in ("join", "handlers"):
                    continue
                for c in n.calls():
                    if isinstance(c.func, ast.Attribute) and isinstance(c.func.value, ast.Name) and c.func.value.id == expr.id:
                        for a in list(c.args) + [k.value for k in c.keywords]:
                            out |= origins(path, cfg, a.value if isinstance(a, ast.Starred) else a, j, params, depth - 1)
        return out
    if isinstance(expr, ast.Lambda):
        return out
    for ch in ast.iter_child_nodes(expr):
        if isinstance(ch, ast.expr):
            out |= origins(path, cfg, ch, upto, params, depth - 1)
    return out


def feasible(path: Path, cfg: CFG) -> bool:
    """False when a plain `<name> is None` condition of the path contradicts the value the name was last assigned on
    that very path (None literal vs. freshly constructed object).  Only this trivially decidable case is pruned."""
    for cw in path.conds:
        pos = getattr(cw, "pos", None)
        if pos is None:
            continue
        for a, want in simple_conds([cw]).items():
            if not a.endswith(" is None"):
                continue
            nm = a[: -len(" is None")]
            if not nm.isidentifier():
                continue
            v = value_on_path(path, cfg, ast.Name(id=nm, ctx=ast.Load()), upto=pos)
            if isinstance(v, ast.Constant):
                known = v.value is None
            elif isinstance(v, (ast.List, ast.Dict, ast.Tuple, ast.Set, ast.JoinedStr, ast.ListComp, ast.DictComp)):
                known = False
            elif isinstance(v, ast.Call) and isinstance(v.func, ast.Name) and v.func.id[:1].isupper():
                known = False
            else:
                continue
            if known != want:
                return False
    return True
