"""Schema rules S-R1..8 and mechanism rules M1..5 (shared by C13, C04, C01, C03)."""
from __future__ import annotations

import ast
import re
from typing import Dict, List, Optional, Tuple

from . import dispatch as D
from .cfg import CFG
from .dataflow import local_defs, own_nodes, own_statements, params_of
from .match import Expander, const_strs, is_const_str, is_super_call, passes_star_args, same, text
from .report import Report
from .schema import BASE, MODELS, TYPES, Schema
from .source import AnalysisError, ClassInfo, Ext, Func, ModRef, Project, dotted, parent


def loc(ci: ClassInfo, node=None) -> str:
    return f"{ci.mod.relpath}:{getattr(node or ci.node, 'lineno', '?')}"


def child_loc(ch) -> str:
    return f"{ch.owner.mod.relpath}:{ch.call.node.lineno}"


# --------------------------------------------------------------------------
# renames performed by groom / ungroom overrides
# --------------------------------------------------------------------------
class Rename(tuple):
    """(FROM, TO) plus how the element was looked up"""

    def __new__(cls, frm, to, path, method, via):
        self = super().__new__(cls, (frm, to))
        self.frm, self.to, self.path, self.method, self.via = frm, to, path, method, via
        return self

    @property
    def direct_child(self) -> bool:
        """the lookup only sees direct children of the element being groomed"""
        if self.method not in ("find", "findall", "iterfind"):
            return False
        pth = self.path
        if pth.startswith("./"):
            pth = pth[2:]
        return "/" not in pth and pth not in ("", "*", ".") and not pth.startswith(".")


def _fold_str(e, bind) -> Optional[str]:
    if isinstance(e, ast.Constant) and isinstance(e.value, str):
        return e.value
    if isinstance(e, ast.Name) and e.id in bind:
        return bind[e.id]
    if isinstance(e, ast.BinOp) and isinstance(e.op, ast.Add):
        a, b = _fold_str(e.left, bind), _fold_str(e.right, bind)
        return a + b if a is not None and b is not None else None
    if isinstance(e, ast.JoinedStr):
        out = ""
        for v in e.values:
            if isinstance(v, ast.Constant):
                out += str(v.value)
            elif isinstance(v, ast.FormattedValue) and v.format_spec is None:
                x = _fold_str(v.value, bind)
                if x is None:
                    return None
                out += x
            else:
                return None
        return out
    if isinstance(e, ast.Call) and isinstance(e.func, ast.Attribute) and e.func.attr == "format":
        base = _fold_str(e.func.value, bind)
        args = [_fold_str(a, bind) for a in e.args]
        if base is None or any(a is None for a in args):
            return None
        try:
            return base.format(*args)
        except Exception:
            return None
    return None


def renames_in(fn: ast.FunctionDef, project: Optional[Project] = None, modname: Optional[str] = None, bind=None, depth=2, via="") -> List[Rename]:
    """every `x = <elem>.find(PATH) ... x.tag = NEW` in fn, and (one or two levels deep) in
    module-level helper functions fn calls with constant tag arguments"""
    bind = bind or {}
    defs = local_defs(fn)
    out: List[Rename] = []
    for st in own_statements(fn):
        if isinstance(st, ast.Assign) and len(st.targets) == 1:
            t = st.targets[0]
            if isinstance(t, ast.Attribute) and t.attr == "tag" and isinstance(t.value, ast.Name):
                new = _fold_str(st.value, bind)
                if new is None:
                    raise AnalysisError(f"rename in {fn.name}: new tag {ast.unparse(st.value)} is not a constant")
                srcs = []
                for d in defs.get(t.value.id, []):
                    v = d.value
                    if isinstance(v, ast.Call) and isinstance(v.func, ast.Attribute) and v.func.attr in ("find", "findall", "iter", "iterfind") and v.args:
                        pth = _fold_str(v.args[0], bind)
                        if pth is None:
                            raise AnalysisError(f"rename to {new!r} in {fn.name}: lookup path {ast.unparse(v.args[0])} is not a constant")
                        srcs.append((pth, v.func.attr))
                if not srcs:
                    raise AnalysisError(f"rename to {new!r} in {fn.name}: cannot see which tag is renamed")
                for pth, meth in srcs:
                    out.append(Rename(pth.split("/")[-1], new, pth, meth, via or fn.name))
    if project is not None and modname is not None and depth > 0:
        for n in own_nodes(fn):
            if isinstance(n, ast.Call) and isinstance(n.func, ast.Name):
                target = project.resolve(modname, n.func.id)
                if isinstance(target, Func) and target.node is not fn:
                    hp = params_of(target.node)
                    hb = {}
                    # *CONST / *reversed(CONST) with a module-level tuple of strings: spelled-out arguments
                    pos_args: List[ast.AST] = []
                    for a in n.args:
                        if isinstance(a, ast.Starred):
                            inner, rev = a.value, False
                            if isinstance(inner, ast.Call) and isinstance(inner.func, ast.Name) and inner.func.id in ("reversed", "tuple", "list") and len(inner.args) == 1:
                                rev, inner = inner.func.id == "reversed", inner.args[0]
                            vals = project.resolve(modname, inner.id) if isinstance(inner, ast.Name) else None
                            if isinstance(vals, (tuple, list)) and all(isinstance(x, str) for x in vals):
                                vals = list(reversed(vals)) if rev else list(vals)
                                pos_args.extend(ast.Constant(value=x) for x in vals)
                                continue
                            pos_args.append(a)
                        else:
                            pos_args.append(a)
                    for i, a in enumerate(pos_args):
                        if i < len(hp):
                            v = _fold_str(a, bind)
                            if v is not None:
                                hb[hp[i]] = v
                    for k in n.keywords:
                        if k.arg:
                            v = _fold_str(k.value, bind)
                            if v is not None:
                                hb[k.arg] = v
                    try:
                        out += renames_in(target.node, project, target.module, hb, depth - 1, via=f"{fn.name}->{target.node.name}")
                    except AnalysisError:
                        if any(isinstance(x, ast.Attribute) and x.attr == "tag" and isinstance(x.ctx, ast.Store) for x in ast.walk(target.node)):
                            raise
    return out


def groom_overrides(schema: Schema):
    """[(ClassInfo, 'groom'|'ungroom', FunctionDef)] for every override outside the base class"""
    out = []
    for ci in schema.all_aggregate_classes():
        if ci is schema.aggregate:
            continue
        for nm in ("groom", "ungroom"):
            f = ci.own_func(nm)
            if f is not None:
                out.append((ci, nm, f))
    return out


# --------------------------------------------------------------------------
# S rules
# --------------------------------------------------------------------------
def s_r1_tags(schema: Schema, rep: Report):
    rep.rule("S-R1", "attribute name of every SubAggregate/ListAggregate child = lower-cased target class name (reader keys by elem.tag.lower(), writer names the element after the class); groom renames A->B have the inverse in ungroom, b declared, a not")
    n = 0
    for cname, ci in schema.exported().items():
        for ch in schema.spec(ci).values():
            if not ch.is_agg:
                continue
            n += 1
            tgt = ch.target
            tname = getattr(tgt, "name", None)
            ok = isinstance(tgt, ClassInfo) and ch.name == tname.lower()
            rep.check("S-R1", f"{cname}.{ch.name}->{tname}", ok,
                      f"child attribute '{ch.name}' holds {tname}: written as <{tname}>, read back under '{str(tname).lower()}' which {cname} does not declare" if not ok else "",
                      child_loc(ch))
    rep.floor("S-R1", n, 700, "aggregate-valued children")
    # renames
    by_class: Dict[ClassInfo, Dict[str, List[Tuple[str, str]]]] = {}
    for ci, nm, fn in groom_overrides(schema):
        by_class.setdefault(ci, {})[nm] = renames_in(fn, schema.p, ci.module)
    nren = 0
    for ci, d in by_class.items():
        g, u = d.get("groom", []), d.get("ungroom", [])
        spec = schema.spec(ci)
        for a, b in g:
            nren += 1
            inv = (b, a) in u
            declared = b.lower() in spec and not spec[b.lower()].is_list
            undeclared = a.lower() not in spec
            rep.check("S-R1", f"{ci.name}.groom:{a}->{b}", inv and declared and undeclared,
                      f"rename {a}->{b}: inverse in ungroom={inv}, '{b.lower()}' declared={declared}, '{a.lower()}' undeclared={undeclared}", loc(ci))
        for a, b in u:
            nren += 1
            rep.check("S-R1", f"{ci.name}.ungroom:{a}->{b}", (b, a) in g, f"ungroom renames {a}->{b} but groom has no {b}->{a}", loc(ci))
    rep.unit("groom_renames", nren)


def s_r2_findable(schema: Schema, rep: Report):
    rep.rule("S-R2", "every concrete aggregate class (target of a child, or ALL-CAPS class under ofxtools/models) resolves by its own name through the star-import chain of ofxtools.models, to itself, and no two modules export different classes under one name")
    p = schema.p
    exported = schema.exported()
    targets: Dict[ClassInfo, str] = {}
    for cname, ci in exported.items():
        for ch in schema.spec(ci).values():
            if ch.is_agg and isinstance(ch.target, ClassInfo):
                targets.setdefault(ch.target, f"{cname}.{ch.name}")
    concrete = [c for c in schema.all_aggregate_classes() if c.name.isupper() or c.name.replace("_", "").replace("V", "").isupper()]
    concrete = [c for c in concrete if c.name == c.name.upper()]
    n = 0
    seen = set()
    for ci in list(targets) + concrete:
        if ci in seen:
            continue
        seen.add(ci)
        n += 1
        got = p.resolve(MODELS, ci.name)
        if got is ci:
            rep.check("S-R2", f"{ci.name}", True, "", loc(ci))
        elif isinstance(got, ClassInfo):
            rep.check("S-R2", f"{ci.name}", False, f"getattr(ofxtools.models, '{ci.name}') is {got.module}.{got.name}, not {ci.module}.{ci.name} (shadowed)", loc(ci))
        else:
            why = f"used as {targets[ci]}" if ci in targets else "defined under ofxtools/models"
            rep.check("S-R2", f"{ci.name}", False, f"class {ci.module}.{ci.name} ({why}) is not reachable as ofxtools.models.{ci.name}: parsing <{ci.name}> raises 'doesn't define'", loc(ci))
    rep.floor("S-R2", n, 390, "concrete classes")
    # one name, one class
    for name in sorted(p.public(MODELS)):
        provs = p.star_providers(MODELS, name)
        vals = []
        for m in provs:
            v = p.resolve(m, name) if m != MODELS else p.resolve(MODELS, name)
            if isinstance(v, ClassInfo) and v not in vals:
                vals.append(v)
        if len(vals) > 1:
            rep.check("S-R2", f"{name}:ambiguous", False, f"exported by {provs} as different classes {vals}", "ofxtools/models/__init__.py")
    # target must itself be an aggregate class
    for ci, used in targets.items():
        if not schema.is_aggregate(ci):
            rep.check("S-R2", f"{ci.name}:not-aggregate", False, f"{used} targets {ci.name}, which is not an Aggregate", loc(ci))


def s_r3_mutexes(schema: Schema, rep: Report):
    rep.rule("S-R3", "every member of every optional/required mutex group is a declared, non-repeated, non-required child of the class; every group defined by a class in the MRO is contained in the class's effective (MRO-resolved) list")
    n = 0
    for cname, ci in schema.exported().items():
        spec = schema.spec(ci)
        for which in ("optionalMutexes", "requiredMutexes"):
            eff = schema.mutexes(ci, which)
            for g in eff:
                n += 1
                gkey = f"{cname}.{which}[{','.join(g)}]"
                definer = ci.definer(which)
                l = loc(definer) if definer else loc(ci)
                for mname in g:
                    ch = spec.get(mname)
                    if ch is None:
                        rep.check("S-R3", f"{gkey}:undeclared({mname})", False, f"group member '{mname}' is not a declared child of {cname}; the group can never count it", l)
                    elif ch.is_list:
                        rep.check("S-R3", f"{gkey}:list-member({mname})", False, f"group member '{mname}' is a repeated child: its instances arrive as positional args, never in kwargs, so the group can never fire for it", l)
                    elif ch.required:
                        rep.check("S-R3", f"{gkey}:required({mname})", False, f"group member '{mname}' is required=True, so the other members can never be supplied", l)
                    else:
                        rep.check("S-R3", f"{gkey}:{mname}", True, "", l)
                if len(g) < 2:
                    rep.check("S-R3", f"{gkey}:singleton", False, "a mutex group with fewer than two members constrains nothing", l)
            # inherited groups in force
            for b in ci.repo_mro:
                own = schema.own_mutexes(b, which)
                if not own:
                    continue
                for g in own:
                    n += 1
                    ok = any(set(g) <= set(e) for e in eff)
                    rep.check("S-R3", f"{cname}.{which}[{','.join(g)}]:in-force", ok,
                              f"group defined by {b.name} is not in {cname}'s effective {which} = {eff}: {ci.definer(which).name}.{which} precedes {b.name} in the MRO {[c.name for c in ci.mro]}" if not ok else "",
                              loc(ci))
    rep.floor("S-R3", n, 80, "mutex groups")


def s_r4_contiguity(schema: Schema, rep: Report):
    rep.rule("S-R4", "in spec order no emitted (non-Unsupported) single child lies between the first and the last repeated child: the writer emits all list members at the first list attribute and the reader only relaxes the order test between adjacent list members")
    n = 0
    for cname, ci in schema.exported().items():
        children = list(schema.spec(ci).values())
        idx = [i for i, ch in enumerate(children) if ch.is_list]
        if not idx:
            continue
        n += 1
        between = [ch for ch in children[idx[0]: idx[-1] + 1] if not ch.is_list and not ch.is_unsupported]
        if between:
            for ch in between:
                rep.check("S-R4", f"{cname}:{ch.name}-between-lists", False,
                          f"'{ch.name}' sits between repeated children {children[idx[0]].name}..{children[idx[-1]].name}: with a member of a later list and {ch.name} set, the writer's output is rejected by the reader as out of order", child_loc(ch))
        else:
            rep.check("S-R4", f"{cname}", True, "", loc(ci))
    rep.floor("S-R4", n, 90, "classes with repeated children")


def s_r5_listkinds(schema: Schema, rep: Report):
    rep.rule("S-R5", "ListElement children occur only in ElementList subclasses, exactly one per class and with no ListAggregate beside it; ElementList subclasses have one")
    n = 0
    for cname, ci in schema.exported().items():
        if ci is schema.aggregate or ci is schema.elementlist:
            continue  # the two abstract bases themselves
        children = list(schema.spec(ci).values())
        les = [c for c in children if c.kind == "ListElement"]
        las = [c for c in children if c.kind == "ListAggregate"]
        is_el = schema.is_elementlist(ci)
        if not les and not is_el:
            continue
        n += 1
        ok = is_el and len(les) == 1 and not las
        rep.check("S-R5", cname, ok, f"ElementList={is_el}, ListElement children={[c.name for c in les]}, ListAggregate children={[c.name for c in las]}", loc(ci))
    rep.floor("S-R5", n, 10, "ElementList classes")


def _kwargs_keys(fn: ast.FunctionDef, kwname: str):
    """string constants tested against the **kwargs mapping: (key, node)"""
    defs = local_defs(fn)
    out = []

    def consts_of(e) -> Optional[List[str]]:
        cs = const_strs(e)
        if cs is not None:
            return cs
        if isinstance(e, ast.Name):
            vals = []
            for d in defs.get(e.id, []):
                if d.kind == "assign":
                    c = const_strs(d.value)
                    if c is None:
                        return None
                    vals += c
                elif d.kind == "for":
                    c = consts_of(d.value)
                    if c is None:
                        return None
                    vals += c
                else:
                    return None
            return vals or None
        return None

    def comp_vars():
        # comprehension variables iterating over constant collections or over kwargs
        m = {}
        for n in ast.walk(fn):
            if isinstance(n, ast.comprehension) and isinstance(n.target, ast.Name):
                m[n.target.id] = n.iter
        return m

    cvars = comp_vars()

    def keys_of(e):
        cs = consts_of(e)
        if cs is not None:
            return cs
        if isinstance(e, ast.Name) and e.id in cvars:
            return consts_of(cvars[e.id])
        return None

    def is_kw(e):
        return isinstance(e, ast.Name) and e.id == kwname

    def iterates_kwargs(name):
        it = cvars.get(name)
        if it is None:
            for d in defs.get(name, []):
                if d.kind == "for":
                    it = d.value
        if it is None:
            return False
        return is_kw(it) or (isinstance(it, ast.Call) and isinstance(it.func, ast.Attribute) and it.func.attr in ("keys", "items") and is_kw(it.func.value))

    for n in ast.walk(fn):
        if isinstance(n, ast.Compare) and len(n.ops) == 1:
            op, l, r = n.ops[0], n.left, n.comparators[0]
            if isinstance(op, (ast.In, ast.NotIn)) and is_kw(r):
                ks = keys_of(l)
                if ks:
                    out += [(k, n) for k in ks]
            if isinstance(op, (ast.Eq, ast.NotEq)):
                for a, b in ((l, r), (r, l)):
                    if isinstance(a, ast.Name) and iterates_kwargs(a.id) and is_const_str(b):
                        out.append((b.value, n))
        elif isinstance(n, ast.Call) and isinstance(n.func, ast.Attribute) and n.func.attr in ("get", "pop", "__getitem__") and is_kw(n.func.value) and n.args:
            ks = keys_of(n.args[0])
            if ks:
                out += [(k, n) for k in ks]
        elif isinstance(n, ast.Subscript) and is_kw(n.value):
            ks = keys_of(n.slice)
            if ks:
                out += [(k, n) for k in ks]
    return out


def _args_classnames(fn: ast.FunctionDef, argsname: str):
    """string constants compared with class names of positional members: (const, mode, node)"""
    ex = Expander(fn)
    out = []
    for n in ast.walk(fn):
        if isinstance(n, ast.Compare) and len(n.ops) == 1 and isinstance(n.ops[0], (ast.In, ast.NotIn)) and is_const_str(n.left):
            r = ex.x(n.comparators[0])
            if isinstance(r, (ast.ListComp, ast.SetComp, ast.GeneratorExp)) and text(r.elt).endswith(".__class__.__name__") and any(
                isinstance(g.iter, ast.Name) and g.iter.id == argsname for g in r.generators
            ):
                out.append((n.left.value, "exact", n))
        if isinstance(n, ast.Call) and isinstance(n.func, ast.Attribute) and n.func.attr in ("startswith", "endswith") and n.args and is_const_str(n.args[0]):
            if text(n.func.value).endswith(".__class__.__name__"):
                out.append((n.args[0].value, n.func.attr, n))
    return out


def validate_overrides(schema: Schema):
    out = []
    for ci in schema.all_aggregate_classes():
        if ci is schema.aggregate:
            continue
        f = ci.own_func("validate_args")
        if f is not None:
            out.append((ci, f))
    return out


def chains_to_super(fn: ast.FunctionDef, method: str, star_args=True, ci: Optional[ClassInfo] = None) -> Tuple[bool, str]:
    """every path from entry to a normal return passes a statement calling the inherited <method>:
    super().<method>(...), or - when the class is given - <Base>.<method>(...) spelled out, where <Base> is a class of
    the MRO whose <method> is the very function super() would select (with *args/**kwargs forwarded when star_args).
    The function analysed is the flattened one when the class is given (a private helper may make the call)."""
    from .source import ClassInfo as _CI

    target = None
    if ci is not None:
        for c in ci.mro[1:]:
            if isinstance(c, _CI):
                f = c.own_func(method)
                if f is not None:
                    target = f
                    break
        try:
            from .flat import flat

            fn = flat(ci.project, ci.module, fn, ci)
        except Exception:
            pass
    cfg = CFG(fn)
    va = fn.args.vararg.arg if fn.args.vararg else None
    kw = fn.args.kwarg.arg if fn.args.kwarg else None

    def good(c):
        ok = is_super_call(c, method)
        if not ok and ci is not None and target is not None and isinstance(c.func, ast.Attribute) and c.func.attr == method and isinstance(c.func.value, ast.Name):
            base = ci.project.resolve(ci.module, c.func.value.id)
            if isinstance(base, _CI) and base is not ci and base in ci.mro:
                _d, f = base.find_method(method)
                ok = f is target
        if not ok:
            return False
        return passes_star_args(c, va, kw) if star_args else True

    via = [n.id for n in cfg.nodes_calling(good)]
    if not via:
        return False, f"no call to super().{method}"
    ok = cfg.must_pass_through([cfg.exit.id], via)
    if ok and star_args:
        # what is forwarded is what was received: the *args / **kwargs names are not re-bound or edited in place
        # (a filtered copy bound to the same name hides from the base check the very arguments it has to see)
        names = {x for x in (va, kw) if x}
        for x in ast.walk(fn):
            alt = None
            if isinstance(x, ast.Name) and isinstance(x.ctx, (ast.Store, ast.Del)) and x.id in names:
                alt = x.id
            elif isinstance(x, ast.Subscript) and isinstance(x.ctx, (ast.Store, ast.Del)) and isinstance(x.value, ast.Name) and x.value.id in names:
                alt = x.value.id
            elif isinstance(x, ast.Call) and isinstance(x.func, ast.Attribute) and isinstance(x.func.value, ast.Name) and x.func.value.id in names and x.func.attr in ("pop", "popitem", "update", "clear", "setdefault", "remove", "append", "extend", "insert", "sort", "reverse", "__setitem__", "__delitem__"):
                alt = x.func.value.id
            if alt is not None:
                return False, f"`{alt}` is re-bound / edited (line {x.lineno}) before being forwarded to super().{method}: the inherited check no longer sees the arguments the constructor received"
    return ok, "" if ok else f"a path returns normally without calling super().{method}"


def s_r6_constraints(schema: Schema, rep: Report):
    rep.rule("S-R6", "keys that a validate_args override tests against kwargs are declared non-repeated children of the class; class names it tests against positional members are list member types of the class; an override of a class with effective mutex groups reaches super().validate_args(*args, **kwargs) on every normally-returning path")
    n = 0
    for ci, fn in validate_overrides(schema):
        n += 1
        spec = schema.spec(ci)
        va = fn.args.vararg.arg if fn.args.vararg else None
        kw = fn.args.kwarg.arg if fn.args.kwarg else None
        l = loc(ci, fn)
        if kw:
            seen = set()
            for key, node in _kwargs_keys(fn, kw):
                if key in seen:
                    continue
                seen.add(key)
                ch = spec.get(key)
                if ch is None:
                    rep.check("S-R6", f"{ci.name}.validate_args:key({key})", False, f"tests kwargs for '{key}', which is not a declared child of {ci.name}: the test can never be true", f"{ci.mod.relpath}:{node.lineno}")
                elif ch.is_list:
                    rep.check("S-R6", f"{ci.name}.validate_args:key({key})", False, f"tests kwargs for '{key}', a repeated child (members arrive as positional args)", f"{ci.mod.relpath}:{node.lineno}")
                else:
                    rep.check("S-R6", f"{ci.name}.validate_args:key({key})", True, "", l)
        if va:
            members = [c.target.name for c in spec.values() if c.kind == "ListAggregate" and isinstance(c.target, ClassInfo)]
            for const, mode, node in _args_classnames(fn, va):
                if mode == "exact":
                    ok = const in members
                elif mode == "startswith":
                    ok = any(m.startswith(const) for m in members)
                else:
                    ok = any(m.endswith(const) for m in members)
                rep.check("S-R6", f"{ci.name}.validate_args:member({mode}:{const})", ok, f"no list member class of {ci.name} matches {mode} '{const}' (members: {members})" if not ok else "", f"{ci.mod.relpath}:{node.lineno}")
        has_groups = bool(schema.mutexes(ci, "optionalMutexes") or schema.mutexes(ci, "requiredMutexes"))
        ok, why = chains_to_super(fn, "validate_args", ci=ci)
        if has_groups:
            rep.check("S-R6", f"{ci.name}.validate_args:chains", ok, f"{ci.name} has mutex groups but its override does not always reach the base check: {why}" if not ok else "", l)
        elif not ok:
            rep.note(f"S-R6 note: {ci.name}.validate_args does not chain to super ({why}); the class has no mutex group, nothing is lost")
    # counting by itertools.groupby needs its input sorted by the group key: unsorted, only ADJACENT repeats are seen
    from .rules_request import groupby_inputs_sorted

    ng = 0
    for ci, fn in validate_overrides(schema):
        if any(isinstance(c, ast.Call) and (dotted(c.func) or "").split(".")[-1] == "groupby" for c in ast.walk(fn)):
            ng += groupby_inputs_sorted(schema.p, ci.module, fn, rep, "S-R6", f"{ci.name}.validate_args")
    rep.unit("groupby_in_validate_args", ng)
    rep.floor("S-R6", n, 14, "validate_args overrides")


def s_r7_shadowing(schema: Schema, rep: Report, extra_classes=()):
    rep.rule("S-R7", "no declared child is named like an attribute of list/object or a member of the Aggregate base API (it would take that attribute's position in spec order or hide the method)")
    reserved = set(dir(list)) | set(dir(object))
    for base in (schema.aggregate, schema.elementlist):
        reserved |= set(base.attrs)
    n = 0
    for cname, ci in schema.exported().items():
        for ch in schema.spec(ci).values():
            n += 1
            if ch.name in reserved:
                rep.check("S-R7", f"{cname}.{ch.name}", False, f"child '{ch.name}' collides with the container/base API", child_loc(ch))
    # positive example (must fire on every run): a class declaring `count = Integer()`
    assert "count" in reserved and "spec" in reserved and "index" in reserved
    rep.check("S-R7", "all-children", True, f"{n} children checked against {len(reserved)} reserved names; built-in positive example ('count', 'spec') is in the reserved set")
    rep.unit("children_checked_for_shadowing", n)


def s_r8_buildable(schema: Schema, rep: Report):
    rep.rule("S-R8", "every element type used by a model class accepts its own native Python type in convert() (registered handler, or a default that does not raise unconditionally) and has an unconvert() for it; every SubAggregate/ListAggregate target is an aggregate class")
    used: Dict[str, int] = {}
    for cname, ci in schema.exported().items():
        for ch in schema.spec(ci).values():
            used[ch.kind] = used.get(ch.kind, 0) + 1
            if ch.kind == "ListElement":
                ks = schema.type_kinds(ch.inner)
                ok = bool(ks) and "Element" in ks
                rep.check("S-R8", f"{cname}.{ch.name}:converter", ok, f"ListElement converter is not an element type: {ch.inner!r}", child_loc(ch))
                if ok:
                    used[ks[0]] = used.get(ks[0], 0) + 1
            if ch.is_agg:
                ok = isinstance(ch.target, ClassInfo) and schema.is_aggregate(ch.target)
                if not ok:
                    rep.check("S-R8", f"{cname}.{ch.name}:target", False, f"target {ch.target!r} is not an aggregate class", child_loc(ch))
    types = D.element_types(schema.p)
    for kind, cnt in sorted(used.items()):
        if kind == "Unsupported":
            continue
        ci = types.get(kind)
        if ci is None:
            raise AnalysisError(f"element type {kind} used by models not found in {TYPES}")
        conv = D.family(ci, "convert")
        l = loc(ci)
        if conv is None:
            rep.check("S-R8", f"{kind}.convert", False, "no convert()", l)
            continue
        if kind in ("SubAggregate", "ListAggregate", "ListElement"):
            h = conv.default
            ok = h is not None and not h.always_raises()
            rep.check("S-R8", f"{kind}.convert[native]", ok, f"default handler {h.qualname if h else None} raises on every path" if not ok else "", l)
            continue
        nk = D.native_key(ci)
        if nk is None:
            raise AnalysisError(f"{kind}.__type__ is not a plain type reference")
        h = conv.handler_for_native(nk)
        ok = h is not None and not h.always_raises()
        rep.check("S-R8", f"{kind}.convert[{nk}]", ok, f"no handler accepts a native {nk}: selected {h.qualname if h else None} raises on every path" if not ok else "", l)
        unc = D.family(ci, "unconvert")
        if unc is None:
            rep.check("S-R8", f"{kind}.unconvert", False, "no unconvert()", l)
        else:
            h = unc.handler_for_native(nk)
            ok = h is not None and not h.always_raises()
            rep.check("S-R8", f"{kind}.unconvert[{nk}]", ok, f"no handler writes a native {nk}: selected {h.qualname if h else None} raises on every path" if not ok else "", l)
    rep.unit("element_kinds_used", len(used))


# --------------------------------------------------------------------------
# M rules - what ties the schema rules to models/base.py
# --------------------------------------------------------------------------
def _fn(p: Project, dotted_name) -> Func:
    return p.get_function(BASE, dotted_name)


def m1_from_etree(schema: Schema, rep: Report):
    rep.rule("M1", "from_etree obtains the class by getattr(<ofxtools.models module>, <the element's tag>) and returns only that class's _convert(<the element>)")
    p = schema.p
    f = _fn(p, "Aggregate.from_etree")
    fn = f.node
    params = params_of(fn)
    if len(params) < 2:
        raise AnalysisError("from_etree has no element parameter")
    elem = params[1]
    ex = Expander(fn)
    mod = p.module(BASE)
    found = None
    for n in own_nodes(fn):
        if isinstance(n, ast.Call) and isinstance(n.func, ast.Name) and n.func.id == "getattr" and len(n.args) >= 2:
            base = p.ev(mod, n.args[0], {})
            if isinstance(base, ModRef) and base.name == MODELS:
                found = n
    l = f"{mod.relpath}:{fn.lineno}"
    if found is None:
        raise AnalysisError("M1: from_etree no longer looks the class up with getattr(ofxtools.models, ...)")
    key = ex.x(found.args[1])
    ok = same(key, f"{elem}.tag", f"{elem}.tag.upper()")
    rep.check("M1", "from_etree:lookup-key", ok, f"class looked up under {ast.unparse(key)!r}, not the element's tag" if not ok else "", f"{mod.relpath}:{found.lineno}")
    rets = [n for n in own_nodes(fn) if isinstance(n, ast.Return)]
    if not rets:
        raise AnalysisError("M1: from_etree has no return")
    lookup = text(ex.x(found))
    for r in rets:
        v = ex.x(r.value) if r.value is not None else None
        ok = v is not None and isinstance(v, ast.Call) and isinstance(v.func, ast.Attribute) and v.func.attr == "_convert" and text(v.func.value) == lookup and len(v.args) == 1 and same(v.args[0], elem)
        rep.check("M1", "from_etree:returns-SubClass._convert(elem)", ok, f"returns {ast.unparse(r.value) if r.value else None}, which is not <looked-up class>._convert({elem})" if not ok else "", f"{mod.relpath}:{r.lineno}")


LOOP_LEFT = "__loop_left_early__"


def _loop_reducer(p: Project, outer):
    """The fold written as an explicit loop over the children:

        args, kwargs, prev, prevflag = [], {}, -1, False
        for child in elem:
            <body>; prev, prevflag = index, flag

    is presented to the rules as the reducer function it is equivalent to (`continue` = the accumulator is handed
    back unchanged, `break` = the fold is abandoned), together with the reduce() call it stands for.  None when the
    shape is not recognised; the result is cached on the project."""
    cache = p.__dict__.setdefault("_loop_reducer", {})
    if "v" in cache:
        return cache["v"]
    cache["v"] = None
    loops = [st for st in outer.body if isinstance(st, ast.For) and isinstance(st.target, ast.Name) and not st.orelse
             and any(isinstance(c, ast.Call) and isinstance(c.func, ast.Attribute) and c.func.attr == "index" for c in ast.walk(st))
             and any(isinstance(c, ast.Call) and isinstance(c.func, ast.Attribute) and c.func.attr == "append" for c in ast.walk(st))]
    if len(loops) != 1:
        return None
    loop = loops[0]
    pre = outer.body[: outer.body.index(loop)]
    inits = {}
    for st in pre:
        if isinstance(st, ast.Assign) and len(st.targets) == 1:
            tg, v = st.targets[0], st.value
            if isinstance(tg, ast.Name):
                inits[tg.id] = v
            elif isinstance(tg, ast.Tuple) and isinstance(v, ast.Tuple) and len(tg.elts) == len(v.elts) and all(isinstance(t, ast.Name) for t in tg.elts):
                for t, x in zip(tg.elts, v.elts):
                    inits[t.id] = x
        elif isinstance(st, ast.AnnAssign) and isinstance(st.target, ast.Name) and st.value is not None:
            inits[st.target.id] = st.value
    appended = {text(c.func.value) for c in ast.walk(loop) if isinstance(c, ast.Call) and isinstance(c.func, ast.Attribute) and c.func.attr == "append" and isinstance(c.func.value, ast.Name)}
    stored = {text(t.value) for st in ast.walk(loop) if isinstance(st, ast.Assign) for t in st.targets if isinstance(t, ast.Subscript) and isinstance(t.value, ast.Name)}
    args_n = next((n for n in appended if isinstance(inits.get(n), ast.List) and not inits[n].elts), None)
    kwargs_n = next((n for n in stored if isinstance(inits.get(n), ast.Dict) and not inits[n].keys), None)
    if args_n is None or kwargs_n is None:
        return None
    # trailing state update(s) at the top level of the loop body
    body = list(loop.body)
    updates = {}
    while body:
        last = body[-1]
        pairs = None
        if isinstance(last, ast.Assign) and len(last.targets) == 1:
            tg, v = last.targets[0], last.value
            if isinstance(tg, ast.Name) and tg.id in inits and isinstance(v, ast.Name):
                pairs = [(tg.id, v.id)]
            elif isinstance(tg, ast.Tuple) and isinstance(v, ast.Tuple) and len(tg.elts) == len(v.elts) and all(isinstance(t, ast.Name) and t.id in inits for t in tg.elts) and all(isinstance(x, ast.Name) for x in v.elts):
                pairs = [(t.id, x.id) for t, x in zip(tg.elts, v.elts)]
        if pairs is None:
            break
        for k, v_ in pairs:
            updates.setdefault(k, v_)
        body.pop()
    prev_n = next((k for k in updates if isinstance(inits[k], ast.UnaryOp) or (isinstance(inits[k], ast.Constant) and isinstance(inits[k].value, int) and not isinstance(inits[k].value, bool))), None)
    flag_n = next((k for k in updates if isinstance(inits[k], ast.Constant) and isinstance(inits[k].value, bool)), None)
    if prev_n is None:
        return None
    state = [args_n, kwargs_n, prev_n] + ([flag_n] if flag_n else [])
    # the state may change only through those trailing updates
    for st in body:
        for x in ast.walk(st):
            if isinstance(x, ast.Name) and isinstance(x.ctx, ast.Store) and x.id in (prev_n, flag_n, args_n, kwargs_n):
                return None
    child = loop.target.id

    class _Exits(ast.NodeTransformer):
        def visit_For(self, node):
            return node  # exits of an inner loop are its own

        visit_While = visit_For

        def visit_FunctionDef(self, node):
            return node

        def visit_Continue(self, node):
            return ast.copy_location(ast.Return(value=ast.Name(id="accum", ctx=ast.Load())), node)

        def visit_Break(self, node):
            return ast.copy_location(ast.Return(value=ast.Name(id=LOOP_LEFT, ctx=ast.Load())), node)

    from .dataflow import clone

    new_body = [_Exits().visit(clone(st)) for st in body]
    src = "def update_args(accum, %s):\n    pass\n" % child
    fn = ast.parse(src).body[0]
    unpack = ast.parse("%s = accum" % ", ".join(state)).body[0]
    ret = ast.parse("return %s" % ", ".join([args_n, kwargs_n, updates[prev_n]] + ([updates[flag_n]] if flag_n else []))).body[0]
    fn.body = [unpack] + new_body + [ret]
    for n_ in ast.walk(fn):
        if not hasattr(n_, "lineno"):
            continue
    ast.copy_location(fn, loop)
    ast.copy_location(unpack, loop)
    ast.copy_location(ret, body[-1] if body else loop)
    ast.fix_missing_locations(fn)
    from .canon import _set_parents

    fn = _set_parents(fn)
    fn._parent = outer
    call_src = "functools.reduce(update_args, %s, (%s))" % (text(loop.iter), ", ".join(text(inits[k]) for k in state))
    call = ast.parse(call_src, mode="eval").body
    for n_ in ast.walk(call):
        ast.copy_location(n_, loop)
    call._synthetic = {"args": args_n, "kwargs": kwargs_n, "loop": loop}
    cache["v"] = (outer, fn, call)
    return cache["v"]


def reducer(p: Project):
    """(outer _convert FunctionDef, inner reducer FunctionDef, reduce call)"""
    outer = _fn(p, "Aggregate._convert").node
    call = None
    for n in own_nodes(outer):
        if isinstance(n, ast.Call) and dotted(n.func) in ("functools.reduce", "reduce") and len(n.args) >= 2:
            call = n
    inner = None
    if call is None:
        syn = _loop_reducer(p, outer)
        if syn is None:
            raise AnalysisError("M2: _convert no longer folds the children with functools.reduce (and no equivalent loop over the children was recognised)")
        outer, inner, call = syn
    else:
        if not isinstance(call.args[0], ast.Name):
            raise AnalysisError("M2: reducer is not a named local function")
        for st in own_statements(outer):
            if isinstance(st, ast.FunctionDef) and st.name == call.args[0].id:
                inner = st
        if inner is None:
            raise AnalysisError("M2: reducer function not found in _convert")
    # helpers the reducer calls (sibling closures of _convert, private module-level functions) are inlined, so that
    # the rules see one function; a reducer that calls none is analysed as written
    siblings = {st.name for st in ast.walk(outer) if isinstance(st, ast.FunctionDef) and st is not outer and st is not inner}
    mod = p.module(BASE)
    agg_ = p.get_class(BASE, "Aggregate")
    calls_helper = any(isinstance(c, ast.Call) and isinstance(c.func, ast.Name) and (c.func.id in siblings or (c.func.id.startswith("_") and isinstance(p.resolve(BASE, c.func.id), Func))) for c in ast.walk(inner)) \
        or any(isinstance(c, ast.Call) and isinstance(c.func, ast.Attribute) and isinstance(c.func.value, ast.Name) and c.func.value.id in ("cls", "self") and c.func.attr.startswith("_") and not c.func.attr.startswith("__") and agg_.own_func(c.func.attr) is not None for c in ast.walk(inner))
    # conditional expressions in assigned values (`v = None if c else e.text or conv(e)`) are decisions the path rules
    # have to see as branches
    has_ifexp = any(isinstance(st_, (ast.Assign, ast.AnnAssign)) and isinstance(getattr(st_, "value", None), ast.IfExp) for st_ in ast.walk(inner))
    if calls_helper or has_ifexp:
        cache = p.__dict__.setdefault("_flat_reducer", {})
        if "inner" not in cache:
            from . import canon
            from .flat import resolver

            cache["inner"] = canon.canonical(inner, resolver(p, BASE, p.get_class(BASE, "Aggregate"), scope_fn=outer), keep=lambda n: False, depth=2)
        inner = cache["inner"]
    return outer, inner, call


def m2_update_args(schema: Schema, rep: Report):
    rep.rule("M2", "the reducer keys each child by elem.tag.lower(), finds its position with list(cls.spec).index(key), stores single children under the same key, and tests list membership against cls.listaggregates")
    p = schema.p
    outer, inner, call = reducer(p)
    rel = p.module(BASE).relpath
    params = params_of(inner)
    if len(params) < 2:
        raise AnalysisError("M2: reducer has no (accum, elem) parameters")
    elem = params[1]
    cls = params_of(outer)[0]
    ex = Expander(inner, outer)
    keytxt = text(ast.parse(f"{elem}.tag.lower()", mode="eval").body)
    # position lookup
    idx = [n for n in own_nodes(inner) if isinstance(n, ast.Call) and isinstance(n.func, ast.Attribute) and n.func.attr == "index" and n.args]
    if not idx:
        raise AnalysisError("M2: no <spec>.index(<key>) lookup in the reducer")
    for n in idx:
        recv = ex.t(n.func.value)
        ok_recv = recv in (f"list({cls}.spec)", f"list({cls}.spec.keys())", f"tuple({cls}.spec)", f"[*{cls}.spec]")
        ok_key = ex.t(n.args[0]) == keytxt
        rep.check("M2", "update_args:position-lookup", ok_recv and ok_key, f"position looked up as {recv}.index({ex.t(n.args[0])}); expected list({cls}.spec).index({keytxt})" if not (ok_recv and ok_key) else "", f"{rel}:{n.lineno}")
    # keyword store
    stores = []
    for st in own_statements(inner):
        if isinstance(st, ast.Assign):
            for t in st.targets:
                if isinstance(t, ast.Subscript) and isinstance(t.value, ast.Name):
                    stores.append((t, st))
    if not stores:
        raise AnalysisError("M2: reducer stores no keyword value")
    for t, st in stores:
        ok = ex.t(t.slice) == keytxt
        rep.check("M2", "update_args:keyword-store-key", ok, f"value stored under {ex.t(t.slice)}, not under {keytxt}" if not ok else "", f"{rel}:{st.lineno}")
    # the value comes from the iterated element, which is the reduce() sequence = the element being converted
    seq_ok = len(call.args) >= 2 and same(Expander(outer).x(call.args[1]), params_of(outer)[1], f"{cls}.groom({params_of(outer)[1]})")
    rep.check("M2", "_convert:folds-own-children", seq_ok, f"reduce iterates {ast.unparse(call.args[1])}, not the (groomed) element's children" if not seq_ok else "", f"{rel}:{call.lineno}")
    # list membership
    appends = [n for n in own_nodes(inner) if isinstance(n, ast.Call) and isinstance(n.func, ast.Attribute) and n.func.attr in ("append", "insert", "extend", "appendleft")]
    if not appends:
        raise AnalysisError("M2: reducer collects no list member")
    for a in appends:
        # members of all kinds go, in document order, onto ONE sequence: the receiver is a plain name (the positional
        # slot of the accumulator), never an entry of a mapping keyed by tag / type (that groups the members by kind
        # and loses their relative order)
        recv_ = a.func.value
        rep.check("M2", "update_args:members-on-one-sequence", isinstance(recv_, ast.Name), f"list members are collected with {text(a)[:70]}: bucketing them by key groups the members by kind, so the order of an interleaved list (X, Y, X) is not the document's any more" if not isinstance(recv_, ast.Name) else "", f"{rel}:{a.lineno}")
    for a in appends:
        iff = parent(parent(a))
        while iff is not None and not isinstance(iff, ast.If):
            iff = parent(iff)
        if iff is None:
            rep.check("M2", "update_args:list-membership-test", False, "list member appended without a membership test", f"{rel}:{a.lineno}")
            continue
        t = ex.x(iff.test)
        cnodes = [c.comparators[0] for c in ast.walk(t) if isinstance(c, ast.Compare) and len(c.ops) == 1 and isinstance(c.ops[0], ast.In) and text(c.left) == keytxt]
        comps = [text(c) for c in cnodes]

        def _union_of_list_tables(e) -> bool:
            """a container put together from cls.listaggregates (and cls.listelements) only: {**a, **b}, a | b,
            ChainMap(a, b), set(a) | set(b), [*a, *b] ..."""
            leaves = [x for x in ast.walk(e) if isinstance(x, ast.Attribute)]
            if not leaves or any(text(x) not in (f"{cls}.listaggregates", f"{cls}.listelements") for x in leaves):
                return False
            if f"{cls}.listaggregates" not in {text(x) for x in leaves}:
                return False
            for x in ast.walk(e):
                if isinstance(x, (ast.Attribute, ast.Name, ast.Load, ast.Dict, ast.List, ast.Set, ast.Tuple, ast.Starred, ast.BitOr)):
                    continue
                if isinstance(x, ast.BinOp) and isinstance(x.op, ast.BitOr):
                    continue
                if isinstance(x, ast.Call) and (dotted(x.func) or "").split(".")[-1] in ("set", "list", "tuple", "dict", "frozenset", "ChainMap", "chain") and not x.keywords:
                    continue
                return False
            return True

        ok = f"{cls}.listaggregates" in comps or any(_union_of_list_tables(c) for c in cnodes)
        rep.check("M2", "update_args:list-membership-test", ok, f"membership tested against {comps}, expected {cls}.listaggregates" if not ok else "", f"{rel}:{iff.lineno}")
    # the instance is built from exactly the accumulated args/kwargs
    rets = [n for n in own_nodes(outer) if isinstance(n, ast.Return)]
    exo = Expander(outer)
    for r in rets:
        v = r.value
        ok = isinstance(v, ast.Call) and same(v.func, cls)
        rep.check("M2", "_convert:returns-cls(...)", ok, f"_convert returns {ast.unparse(v) if v else None}, not an instance built by {cls}(...)" if not ok else "", f"{rel}:{r.lineno}")


def m3_to_etree(schema: Schema, rep: Report):
    rep.rule("M3", "to_etree names the root after the instance's class, iterates the same spec, creates data elements under <attr>.upper() with converter.unconvert(value) as text, appends sub-aggregates via their own to_etree(), list members via _listAppend, and skips only values that are None")
    from .flat import flat

    p = schema.p
    fn0 = _fn(p, "Aggregate.to_etree").node
    fn = flat(p, BASE, fn0, schema.aggregate, keep=("_listAppend",))
    rel = p.module(BASE).relpath
    ex = Expander(fn)
    nodes = own_nodes(fn)
    # what is returned was built in THIS call from the instance's present state: on every returning path the value
    # goes back to an ET.Element(...) constructed on that path - never to something the instance (or the class) kept
    # from an earlier call (a memo is stale as soon as a nested child is assigned or a list member appended)
    from . import paths as _PTM3

    try:
        mpl = _PTM3.enumerate_paths(fn, None, ex, resolve=False)
    except AnalysisError as e:
        mpl = None
        rep.note(f"M3 undecided: {e}")
    if mpl is not None:
        kept = None
        nret = 0
        for q in mpl:
            if q.outcome != "return" or q.value is None:
                continue
            nret += 1
            v = _PTM3.value_on_path(q, mpl.cfg, q.value, upto=len(q.nodes) - 1)
            while isinstance(v, ast.Call) and (dotted(v.func) or "").split(".")[-1] in ("deepcopy", "copy", "ungroom") and len(v.args) == 1:
                v = v.args[0]
            def _root(e_):
                while isinstance(e_, (ast.Attribute, ast.Subscript)):
                    e_ = e_.value
                return e_.id if isinstance(e_, ast.Name) else None

            def _is_store_read(e_):
                """a value READ from somewhere that outlives the call: self.x / self.__dict__[k] / <module table>[k] /
                <such>.get(k) / getattr(self, k)"""
                if isinstance(e_, (ast.Attribute, ast.Subscript)):
                    r_ = _root(e_)
                    return r_ in ("self", "cls") or (r_ is not None and p.has_binding(BASE, r_))
                if isinstance(e_, ast.Call) and isinstance(e_.func, ast.Attribute) and e_.func.attr in ("get", "pop", "setdefault", "__getitem__"):
                    r_ = _root(e_.func.value)
                    return r_ in ("self", "cls") or (r_ is not None and p.has_binding(BASE, r_))
                if isinstance(e_, ast.Call) and isinstance(e_.func, ast.Name) and e_.func.id == "getattr" and e_.args and _root(e_.args[0]) in ("self", "cls"):
                    return True
                return False

            if _is_store_read(v):
                kept = text(v)
        if nret:
            rep.check("M3", "to_etree:built-on-every-call", kept is None, f"a path returns {kept[:70] if kept else ''}: a tree kept from an earlier call - later changes to the instance (a nested child assigned, a list member appended) are not written" if kept else "", f"{rel}:{fn0.lineno}")
    roots = [n for n in nodes if isinstance(n, ast.Call) and dotted(n.func) in ("ET.Element", "Element") and n.args]
    if not roots:
        raise AnalysisError("M3: to_etree creates no root element")
    for r in roots:
        ok = ex.t(r.args[0]) == "self.__class__.__name__"
        rep.check("M3", "to_etree:root-tag", ok, f"root named {ex.t(r.args[0])}, not self.__class__.__name__" if not ok else "", f"{rel}:{r.lineno}")
    loops = [st for st in own_statements(fn) if isinstance(st, ast.For) and ex.t(st.iter) in ("self.spec.items()", "self.__class__.spec.items()", "self.spec", "self.__class__.spec")]
    if not loops:
        raise AnalysisError("M3: to_etree no longer iterates self.spec")
    loop = loops[0]
    if isinstance(loop.target, ast.Tuple) and isinstance(loop.target.elts[0], ast.Name):
        attr = loop.target.elts[0].id
        typevar = loop.target.elts[1].id if isinstance(loop.target.elts[1], ast.Name) else None
    elif isinstance(loop.target, ast.Name):
        attr, typevar = loop.target.id, None
    else:
        raise AnalysisError("M3: loop target not understood")
    subs = [n for n in nodes if isinstance(n, ast.Call) and dotted(n.func) in ("ET.SubElement", "SubElement") and len(n.args) >= 2]
    if not subs:
        raise AnalysisError("M3: to_etree creates no data element")
    for s_ in subs:
        ok = ex.t(s_.args[1]) == f"{attr}.upper()"
        rep.check("M3", "to_etree:data-element-tag", ok, f"data element named {ex.t(s_.args[1])}, not {attr}.upper()" if not ok else "", f"{rel}:{s_.lineno}")
    # the text of a data element: any `.text = X` store whose object is (an alias of) a SubElement(...) call
    stores = [st for st in own_statements(fn) if isinstance(st, ast.Assign) and isinstance(st.targets[0], ast.Attribute) and st.targets[0].attr == "text" and "SubElement(" in ex.t(st.targets[0].value)]
    accepted = {
        f"self.__class__._superdict[{attr}].unconvert(getattr(self, {attr}))", f"self.spec[{attr}].unconvert(getattr(self, {attr}))",
        f"self.__class__.spec[{attr}].unconvert(getattr(self, {attr}))",
    }
    if typevar:
        accepted.add(f"{typevar}.unconvert(getattr(self, {attr}))")
    if not stores:
        # SubElement(..., text=...)? not an ElementTree feature: nothing stores the text
        rep.check("M3", "to_etree:data-element-text", False, "data elements are created but their text is never set", f"{rel}:{subs[0].lineno}")
    for st in stores:
        got = ex.t(st.value)
        okt = got in accepted
        rep.check("M3", "to_etree:data-element-text", okt, f"text is {got}, expected <converter of {attr}>.unconvert(getattr(self, {attr}))" if not okt else "", f"{rel}:{st.lineno}")
    # conditions on the value under which nothing is written: only `is None` (a truthiness test drops False / 0 / Decimal(0))
    from .paths import cond_of

    valtxt = f"getattr(self, {attr})"
    for st in ast.walk(loop):
        if isinstance(st, (ast.If, ast.IfExp)):
            c = cond_of(ex.x(st.test), None)
            for a in sorted(c.atoms()):
                if valtxt in a:
                    ok = a in (f"{valtxt} is None", f"bool(isinstance({valtxt}, Aggregate))")
                    rep.check("M3", f"to_etree:value-test({a[:50]})", ok, f"whether a child is written depends on `{a}`: values such as False, 0 or Decimal('0') would be skipped" if not ok else "", f"{rel}:{st.lineno}")
    apps = [n for n in nodes if isinstance(n, ast.Call) and isinstance(n.func, ast.Attribute) and n.func.attr == "append"]
    ok = any(ex.t(a.args[0]) == f"getattr(self, {attr}).to_etree()" for a in apps if a.args)
    rep.check("M3", "to_etree:subaggregate-recursion", ok, "no root.append(<child>.to_etree()) for sub-aggregates" if not ok else "", f"{rel}:{fn.lineno}")
    la = [n for n in nodes if isinstance(n, ast.Call) and ex.t(n.func) == "self._listAppend"]
    def in_loop_over_self(c):
        par = parent(c)
        while par is not None and par is not fn:
            if isinstance(par, ast.For) and ex.t(par.iter) == "self":
                return True
            par = parent(par)
        return False
    ok = bool(la) and all(in_loop_over_self(c) for c in la)
    rep.check("M3", "to_etree:list-members-in-order", ok, "list members are not emitted by iterating self in order" if not ok else "", f"{rel}:{fn.lineno}")
    lfn = flat(p, BASE, _fn(p, "Aggregate._listAppend").node, schema.aggregate)
    lp = params_of(lfn)
    lex = Expander(lfn)
    ok = any(isinstance(n, ast.Call) and lex.t(n) == f"{lp[1]}.append({lp[2]}.to_etree())" for n in own_nodes(lfn)) if len(lp) >= 3 else False
    rep.check("M3", "_listAppend:appends-member.to_etree()", ok, "" if ok else "base _listAppend does not append member.to_etree()", f"{rel}:{lfn.lineno}")
    rets = [n for n in nodes if isinstance(n, ast.Return)]
    rootnames = {t.id for st in own_statements(fn) if isinstance(st, ast.Assign) and isinstance(st.value, ast.Call) and dotted(st.value.func) in ("ET.Element", "Element") for t in st.targets if isinstance(t, ast.Name)}
    tex_ = Expander(fn)
    for r in rets:
        v = r.value
        if isinstance(v, ast.Name) and v.id not in rootnames:
            # a temporary holding the ungroomed root (one hop)
            b_ = [st_.value for st_ in own_statements(fn) if isinstance(st_, ast.Assign) and len(st_.targets) == 1 and isinstance(st_.targets[0], ast.Name) and st_.targets[0].id == v.id]
            if len(b_) == 1:
                v = b_[0]
        ok = v is not None and (
            (isinstance(v, ast.Name) and v.id in rootnames)
            or (isinstance(v, ast.Call) and isinstance(v.func, ast.Attribute) and v.func.attr == "ungroom" and len(v.args) == 1 and isinstance(v.args[0], ast.Name) and v.args[0].id in rootnames)
        )
        rep.check("M3", "to_etree:returns-root", ok, f"returns {ast.unparse(v) if v else None}" if not ok else "", f"{rel}:{r.lineno}")


def m4_apply_args(schema: Schema, rep: Report):
    rep.rule("M4", "_apply_args admits an aggregate member only if its lower-cased class name is in self.listaggregates: on every path that reaches self.append(member), `isinstance(member, Aggregate)` implies that membership (path-condition table over the flattened function, so the test may live in a helper)")
    from . import paths as PT
    from .flat import flat

    p = schema.p
    fn0 = _fn(p, "Aggregate._apply_args").node
    fn = flat(p, BASE, fn0, schema.aggregate)
    rel = p.module(BASE).relpath
    ex = Expander(fn)
    pths = PT.enumerate_paths(fn, expander=ex)
    cfg = pths.cfg
    appends = cfg.nodes_calling(lambda c: isinstance(c.func, ast.Attribute) and c.func.attr == "append" and ex.t(c.func.value) == "self")
    if not appends:
        raise AnalysisError("M4: _apply_args appends nothing to self")
    import re as _re

    atoms = PT.atoms_of(pths)
    agg = [a for a in atoms if _re.fullmatch(r"bool\(isinstance\((\w+), Aggregate\)\)", a)]
    member = [a for a in atoms if _re.fullmatch(r"(\w+)\.__class__\.__name__\.lower\(\) in self\.listaggregates", a)]
    if not member:
        other = [a for a in atoms if "listaggregates" in a or "listelements" in a]
        if other:
            rep.note(f"M4 undecided: admission tested as {other}")
            return
        rep.check("M4", "_apply_args:admission-test", False, "no membership test against self.listaggregates: any aggregate is admitted as a list member", f"{rel}:{fn0.lineno}")
        return
    var = _re.fullmatch(r"(\w+)\.__class__.*", member[0]).group(1)
    bad = None
    for app in appends:
        for pth in pths:
            cb = pth.conds_before(app.id)
            if cb is None:
                continue
            # is there an assignment consistent with the conditions so far in which the member is an Aggregate of a foreign class?
            known = PT.simple_conds(cb)
            if PT.implies(cb, PT.atom("$never")) is True:
                continue  # contradictory conditions: not a feasible path
            if not PT.feasible(pth, cfg):
                continue  # e.g. `complaint is None` after `complaint = f"..."` (verdict carried in a local)
            is_agg = [known.get(a) for a in agg]
            in_list = known.get(member[0])
            if (not agg or any(x is not False for x in is_agg)) and in_list is not True:
                # aggregate possible, membership not established on this path
                if agg and all(x is None for x in is_agg) and in_list is None:
                    bad = "a path reaches self.append(member) without testing the member at all"
                elif in_list is False:
                    bad = "a path appends a member whose class name is NOT in self.listaggregates"
                elif any(x is True for x in is_agg) or not agg:
                    bad = "a path appends an Aggregate member without having established that its class name is in self.listaggregates"
    rep.check("M4", "_apply_args:admission-test", bad is None, (bad + ": members of a foreign class are admitted") if bad else "", f"{rel}:{fn0.lineno}")
    rep.check("M4", "_apply_args:admission-key", True, f"tests {member[0]}", f"{rel}:{fn0.lineno}")


def m5_validate_args(schema: Schema, rep: Report):
    rep.rule("M5", "validate_args reads optionalMutexes and requiredMutexes through cls (so subclass lists are the ones enforced)")
    p = schema.p
    fn = _fn(p, "Aggregate.validate_args").node
    rel = p.module(BASE).relpath
    cls = params_of(fn)[0]
    reads = {"optionalMutexes": [], "requiredMutexes": []}
    for n in own_nodes(fn):
        if isinstance(n, ast.Attribute) and n.attr in reads:
            reads[n.attr].append(n)
    for nm, rs in reads.items():
        if not rs:
            rep.check("M5", f"validate_args:{nm}", False, f"{nm} is never read", f"{rel}:{fn.lineno}")
        for r in rs:
            ok = isinstance(r.value, ast.Name) and r.value.id == cls
            rep.check("M5", f"validate_args:{nm}", ok, f"{nm} read through {ast.unparse(r.value)}, not through {cls}" if not ok else "", f"{rel}:{r.lineno}")


def all_m(schema: Schema, rep: Report):
    m1_from_etree(schema, rep)
    m2_update_args(schema, rep)
    m3_to_etree(schema, rep)
    m4_apply_args(schema, rep)
    m5_validate_args(schema, rep)


def s_r9_own_descriptor(schema: Schema, rep: Report):
    """every declared child owns its descriptor object"""
    rep.rule("S-R9", "every declared child has a descriptor object of its own: no chained assignment `a = b = Type(...)` and no alias `b = a` in a model class body - Element.__set_name__ keeps one name per object, so two names bound to one descriptor read and write one stored value (the second child is written under the first one's value, or not at all)")
    n = 0
    for ci in schema.all_aggregate_classes():
        spec_names = None
        for st in ci.node.body:
            if isinstance(st, ast.Assign) and isinstance(st.value, ast.Call):
                names = [t.id for t in st.targets if isinstance(t, ast.Name)]
                if len(names) > 1:
                    spec_names = spec_names if spec_names is not None else set(schema.spec(ci))
                    shared = [x for x in names if x in spec_names]
                    if len(shared) > 1:
                        rep.check("S-R9", f"{ci.name}:{'='.join(shared)}:one-descriptor-per-child", False, f"{' = '.join(shared)} = {text(st.value)[:40]} binds ONE descriptor object to {len(shared)} children: they share a single stored value", loc(ci, st))
            elif isinstance(st, ast.Assign) and isinstance(st.value, ast.Name) and len(st.targets) == 1 and isinstance(st.targets[0], ast.Name):
                spec_names = spec_names if spec_names is not None else set(schema.spec(ci))
                if st.value.id in spec_names and st.targets[0].id in spec_names and st.targets[0].id != st.value.id:
                    rep.check("S-R9", f"{ci.name}:{st.targets[0].id}={st.value.id}:one-descriptor-per-child", False, f"{st.targets[0].id} is an alias of the descriptor of {st.value.id}: both children share a single stored value", loc(ci, st))
        n += 1
    rep.unit("classes_checked_for_shared_descriptors", n)
    if not any(o.rule == "S-R9" and not o.ok for o in rep.obligations):
        rep.check("S-R9", "one-descriptor-per-child", True, f"{n} classes", "")


def s_r10_per_class_tables(schema: Schema, rep: Report):
    """a table derived from a class body and remembered on the class must be remembered per class"""
    rep.rule("S-R10", "no class-level table of Aggregate (spec, elements, subaggregates, listaggregates, ... and their helpers) is remembered by assigning an attribute of `cls` and read back by ordinary attribute lookup: `cls._x` / getattr / hasattr follow the MRO, so a subclass whose base was introspected first is answered with the BASE's table - its own children are then unknown to the reader, the writer and flat attribute access (a per-class memo reads cls.__dict__ / vars(cls), or is keyed by the class)")
    ci = schema.aggregate
    n = 0
    stores = {}
    computed = []
    fns = [x for x in ci.node.body if isinstance(x, ast.FunctionDef)]
    for fn in fns:
        if not fn.args.args:
            continue
        recv = fn.args.args[0].arg
        is_cls = recv == "cls" or any("classmethod" in ast.unparse(d) or "classproperty" in ast.unparse(d) for d in fn.decorator_list)
        if not is_cls:
            continue
        for x in ast.walk(fn):
            if isinstance(x, ast.Attribute) and isinstance(x.ctx, ast.Store) and isinstance(x.value, ast.Name) and x.value.id == recv:
                stores.setdefault(x.attr, []).append((fn, x))
            elif isinstance(x, ast.Call) and isinstance(x.func, ast.Name) and x.func.id == "setattr" and len(x.args) == 3 and isinstance(x.args[0], ast.Name) and x.args[0].id == recv and isinstance(x.args[1], ast.Constant):
                stores.setdefault(str(x.args[1].value), []).append((fn, x))
            elif isinstance(x, ast.Call) and isinstance(x.func, ast.Name) and x.func.id == "setattr" and len(x.args) == 3 and isinstance(x.args[0], ast.Name) and x.args[0].id == recv and isinstance(x.args[1], ast.Name):
                # a memo under a COMPUTED name: setattr(cls, slot, ...) read back by getattr(cls, slot) in the same function
                nm_ = x.args[1].id
                back = [y for y in ast.walk(fn) if isinstance(y, ast.Call) and isinstance(y.func, ast.Name) and y.func.id in ("getattr", "hasattr") and len(y.args) >= 2 and isinstance(y.args[0], ast.Name) and y.args[0].id == recv and isinstance(y.args[1], ast.Name) and y.args[1].id == nm_]
                if back:
                    computed.append((fn, x, back[0]))
    for attr, sts in sorted(stores.items()):
        n += 1
        bad = None
        for fn in fns:
            if not fn.args.args:
                continue
            recv = fn.args.args[0].arg
            for x in ast.walk(fn):
                if isinstance(x, ast.Attribute) and isinstance(x.ctx, ast.Load) and x.attr == attr and isinstance(x.value, ast.Name) and x.value.id in (recv, "cls", "self"):
                    bad = bad or (fn, x, ast.unparse(x))
                elif isinstance(x, ast.Call) and isinstance(x.func, ast.Name) and x.func.id in ("getattr", "hasattr") and len(x.args) >= 2 and isinstance(x.args[1], ast.Constant) and x.args[1].value == attr and isinstance(x.args[0], ast.Name):
                    bad = bad or (fn, x, ast.unparse(x))
        fn0, st0 = sts[0]
        rep.check("S-R10", f"Aggregate.{fn0.name}:cls.{attr}", bad is None, f"{fn0.name}() stores cls.{attr} and {bad[0].name}() reads it back as {bad[2][:40]}: the lookup finds the value a BASE class stored, so a subclass used after its base gets the base's table (children the subclass adds are skipped as unknown, not written, not reachable by flat access)" if bad else "stored per class and not read through inheritance", f"{ci.mod.relpath}:{st0.lineno}")
    for fn_, st_, rd_ in computed:
        n += 1
        rep.check("S-R10", f"Aggregate.{fn_.name}:cls.<{ast.unparse(st_.args[1])}>", False, f"{fn_.name}() stores setattr(cls, {ast.unparse(st_.args[1])}, ...) and reads it back with {ast.unparse(rd_)[:40]}: the lookup follows the MRO, so a subclass used after its base is answered with the BASE's table (children and constraints the subclass adds are unknown to the reader and the constructor)", f"{ci.mod.relpath}:{st_.lineno}")
    # the same memo kept by a DESCRIPTOR the table functions are decorated with (`@cached_classproperty`): its __get__
    # stores on the owner class and reads back with getattr(), which follows the MRO just the same
    p = schema.p
    seen_dec = set()
    for fn in fns:
        for dec in fn.decorator_list:
            dn = dec.func if isinstance(dec, ast.Call) else dec
            if not isinstance(dn, ast.Name) or dn.id in seen_dec:
                continue
            seen_dec.add(dn.id)
            dci = p.resolve(BASE, dn.id)
            if not isinstance(dci, ClassInfo):
                continue
            for k in dci.repo_mro:
                g = k.own_func("__get__")
                if g is None:
                    continue
                params_ = {a.arg for a in g.args.args[1:]}
                sets_ = [x for x in ast.walk(g) if isinstance(x, ast.Call) and isinstance(x.func, ast.Name) and x.func.id == "setattr" and len(x.args) == 3 and isinstance(x.args[0], ast.Name) and x.args[0].id in params_]
                sets_ += [x for x in ast.walk(g) if isinstance(x, ast.Attribute) and isinstance(x.ctx, ast.Store) and isinstance(x.value, ast.Name) and x.value.id in params_]
                for st_ in sets_:
                    n += 1
                    if isinstance(st_, ast.Call):
                        owner_, key_ = st_.args[0].id, ast.unparse(st_.args[1])
                        reads_ = [y for y in ast.walk(g) if isinstance(y, ast.Call) and isinstance(y.func, ast.Name) and y.func.id in ("getattr", "hasattr") and len(y.args) >= 2 and isinstance(y.args[0], ast.Name) and y.args[0].id == owner_ and ast.unparse(y.args[1]) == key_]
                    else:
                        owner_, key_ = st_.value.id, st_.attr
                        reads_ = [y for y in ast.walk(g) if isinstance(y, ast.Attribute) and isinstance(y.ctx, ast.Load) and isinstance(y.value, ast.Name) and y.value.id == owner_ and y.attr == key_]
                    rep.check("S-R10", f"{k.name}.__get__:{owner_}.<{key_[:30]}>", not reads_, f"the descriptor {k.name} (decorating Aggregate.{fn.name} ...) remembers its result with setattr({owner_}, {key_}, ...) and reads it back with {ast.unparse(reads_[0])[:40] if reads_ else ''}: attribute lookup on a class follows the MRO, so a subclass whose base was introspected first is answered with the BASE's table - the children the subclass adds are then unknown to the reader, never written, and unreachable by flat access" if reads_ else "", f"{k.mod.relpath}:{st_.lineno}")
    if n == 0:
        rep.check("S-R10", "Aggregate:no-class-level-memo", True, "no classmethod of Aggregate assigns an attribute of the class", "")


def s_r6c_children_suppliable(schema: Schema, rep: Report):
    """no validate_args override refuses every instance that carries one of the class's own children"""
    import re as _re
    from . import paths as PT
    from .flat import flat

    rep.rule("S-R6c", "every declared child can be supplied: for each child that a validate_args override tests (kwargs.get('<child>') ...), the exhaustive truth table of the override's conditions contains at least one row in which that child is supplied and nothing is raised - an override whose rules contradict each other for one child makes that child impossible to build, write or read although its declaration looks normal")
    p = schema.p
    n = 0
    for ci, fn0 in validate_overrides(schema):
        fn = flat(p, ci.module, fn0, ci)
        kw = fn0.args.kwarg.arg if fn0.args.kwarg else None
        if kw is None:
            continue
        try:
            pths = PT.enumerate_paths(fn, None, Expander(fn))
            atoms = PT.atoms_of(pths)
            if len(atoms) > 12:
                rep.note(f"S-R6c undecided: {ci.name}.validate_args has {len(atoms)} conditions")
                continue
            rows = list(PT.truth_table(pths))
        except AnalysisError as e:
            rep.note(f"S-R6c undecided: {ci.name}.validate_args ({e})")
            continue
        spec = schema.spec(ci)
        # atoms that say "child k is supplied": bool(kw.get('k'...)) / kw.get('k'...) is None (negated) / 'k' in kw
        key_atoms = {}
        for a in atoms:
            m = _re.fullmatch(rf"bool\({kw}\.get\('(\w+)'(?:, None)?\)\)", a) or _re.fullmatch(rf"bool\({kw}\['(\w+)'\]\)", a)
            if m:
                key_atoms.setdefault(m.group(1), []).append((a, True))
                continue
            m = _re.fullmatch(rf"{kw}\.get\('(\w+)'(?:, None)?\) is None", a)
            if m:
                key_atoms.setdefault(m.group(1), []).append((a, False))
                continue
            m = _re.fullmatch(rf"'(\w+)' in {kw}", a)
            if m:
                key_atoms.setdefault(m.group(1), []).append((a, True))
        for k, ats in sorted(key_atoms.items()):
            if k not in spec:
                continue
            n += 1
            possible = False
            for env, ps in rows:
                if not ps:
                    continue
                if not all(env[a] is pol for a, pol in ats):
                    continue
                if any(q.outcome != "raise" for q in ps):
                    possible = True
                    break
            rep.check("S-R6c", f"{ci.name}.validate_args:{k}:can-be-supplied", possible, f"every combination of the tested children in which `{k}` is supplied is refused by {ci.name}.validate_args: the declared child {k.upper()} can never be built, written or read" if not possible else "", loc(ci, fn0))
    rep.unit("children_tested_by_overrides", n)


def s_r6d_route_independent_constraints(schema: Schema, rep: Report):
    """validate_args runs BEFORE the children are converted: on the parse route its kwargs hold the text of the
    document, on the keyword route whatever the caller passed - a constraint may only depend on what both share"""
    rep.rule("S-R6d", "constraints in validate_args overrides are independent of the construction route: a kwargs value is only tested for presence / None / equality with a token - never ordered (< <= > >=), subtracted or otherwise computed with: the parser hands validate_args the wire TEXT (dates with offsets, decimals with either separator) where the caller hands native values, so an ordering that is right for one route rejects (or admits) on the other - and a written instance is refused when read back")
    n = 0
    for ci, fn in validate_overrides(schema):
        kw = fn.args.kwarg.arg if fn.args.kwarg else None
        if not kw:
            continue
        n += 1
        # locals bound to kwargs values
        vals = set()
        for st in ast.walk(fn):
            if isinstance(st, ast.Assign) and len(st.targets) == 1 and isinstance(st.targets[0], ast.Name):
                v = st.value
                if isinstance(v, ast.Call) and isinstance(v.func, ast.Attribute) and v.func.attr in ("get", "pop") and isinstance(v.func.value, ast.Name) and v.func.value.id == kw:
                    vals.add(st.targets[0].id)
                elif isinstance(v, ast.Subscript) and isinstance(v.value, ast.Name) and v.value.id == kw:
                    vals.add(st.targets[0].id)

        def is_val(e):
            if isinstance(e, ast.Name) and e.id in vals:
                return True
            if isinstance(e, ast.Call) and isinstance(e.func, ast.Attribute) and e.func.attr in ("get", "pop") and isinstance(e.func.value, ast.Name) and e.func.value.id == kw:
                return True
            return isinstance(e, ast.Subscript) and isinstance(e.value, ast.Name) and e.value.id == kw

        bad = None
        for x in ast.walk(fn):
            if isinstance(x, ast.Compare) and any(isinstance(o, (ast.Lt, ast.LtE, ast.Gt, ast.GtE)) for o in x.ops) and any(is_val(e) for e in [x.left] + list(x.comparators)):
                bad = bad or x
            elif isinstance(x, ast.BinOp) and isinstance(x.op, (ast.Sub, ast.Add, ast.Mult, ast.Div)) and (is_val(x.left) or is_val(x.right)) and not (isinstance(x.left, ast.Constant) and isinstance(x.left.value, str)):
                bad = bad or x
        rep.check("S-R6d", f"{ci.name}.validate_args:route-independent", bad is None, f"`{text(bad)[:60] if bad is not None else ''}` orders / computes with a kwargs value: from the parser that value is the document's text, from a caller a native object - the comparison means something else on each route (dates with different offsets, '9' > '10'), so an instance that was accepted and written can be refused when read back" if bad is not None else "", loc(ci, bad if bad is not None else fn))
    rep.floor("S-R6d", n, 10, "validate_args overrides with **kwargs")


def s_r6e_all_equal_helper(schema: Schema, rep: Report):
    """the helper the "no mixing" constraints are written with compares ALL members"""
    rep.rule("S-R6e", "utils.all_equal(iterable), which the group constraints of OFX (no mixed *RQ / *RS message sets) and CONTRIBSECURITY (no mixed *PCT / *AMT) are written with, is true only if every member equals every other: recognised as the two-nexts-of-groupby form, a set of at most one member, or all(x == first ...); a comparison of DISJOINT pairs - zip(it, it) over one iterator - checks (0,1), (2,3), ... and lets the third member differ")
    p = schema.p
    try:
        fn = p.get_function("ofxtools.utils", "all_equal").node
    except AnalysisError:
        rep.note("S-R6e undecided: utils.all_equal not found")
        return
    where = f"{p.module('ofxtools.utils').relpath}:{fn.lineno}"
    src = ast.unparse(fn)
    iters = {st.targets[0].id for st in ast.walk(fn) if isinstance(st, ast.Assign) and len(st.targets) == 1 and isinstance(st.targets[0], ast.Name) and isinstance(st.value, ast.Call) and text(st.value.func) == "iter"}
    for c in ast.walk(fn):
        if isinstance(c, ast.Call) and text(c.func) == "zip" and len(c.args) == 2 and all(isinstance(a, ast.Name) for a in c.args) and c.args[0].id == c.args[1].id and c.args[0].id in iters:
            rep.check("S-R6e", "all_equal:compares-every-member", False, f"{text(c)} draws both elements of each pair from ONE iterator: the pairs are (0,1), (2,3), ... - members 1 and 2 are never compared and an odd last member is dropped, so a third message set of the other direction (or a third *AMT among *PCT) passes", where)
            return
    ok = None
    if "groupby(" in src and src.count("next(") >= 2:
        ok = True
    elif re.search(r"len\(set\(", src) and re.search(r"(<= 1|< 2|== 1|<= 1\b)", src):
        ok = True
    elif re.search(r"all\(", src) and ("first" in src or "[0]" in src or "next(" in src):
        ok = True
    if ok:
        rep.check("S-R6e", "all_equal:compares-every-member", True, "", where)
    else:
        rep.note("S-R6e undecided: the form of utils.all_equal is not one of the recognised ones")


def s_r12_superdict_precedence(schema: Schema, rep: Report):
    """the merged class namespace gives a subclass's declaration precedence over its base's"""
    rep.rule("S-R12", "Aggregate._superdict merges the class dictionaries of the MRO with the subclass's definition winning: ChainMap over cls.mro() (leftmost map wins), or a loop over reversed(cls.mro()) that assigns / updates (the later, more derived class overwrites), or a loop over cls.mro() that uses setdefault (the first, more derived class stays) - the two crossed forms (reversed + setdefault, forward + update) let the BASE's element win, so a class that re-declares an inherited child (other length, scale or type) is read and written by the base's converter while assignment uses its own")
    fn = schema.aggregate.own_func("_superdict")
    if fn is None:
        rep.note("S-R12 undecided: Aggregate._superdict not found")
        return
    where = f"{schema.aggregate.mod.relpath}:{fn.lineno}"
    src = ast.unparse(fn)
    verdict = None
    for c in ast.walk(fn):
        if isinstance(c, ast.Call) and (dotted(c.func) or "").split(".")[-1] == "ChainMap":
            ct_ = Expander(fn).t(c)  # the maps may be gathered in a local first
            if "mro()" not in ct_ and ".__mro__" not in ct_:
                continue
            verdict = "reversed(" not in ct_ and "[::-1]" not in ct_
            why = "ChainMap over the reversed MRO: the base's definition wins"
    loops = [l for l in ast.walk(fn) if isinstance(l, ast.For) and ("mro()" in ast.unparse(l.iter) or "__mro__" in ast.unparse(l.iter))]
    if verdict is None and loops:
        lp = loops[0]
        rev = "reversed(" in ast.unparse(lp.iter) or "[::-1]" in ast.unparse(lp.iter)
        body = ast.unparse(ast.Module(body=lp.body, type_ignores=[]))
        keeps_first = ".setdefault(" in body or re.search(r"if \w+ not in \w+", body) is not None
        overwrites = ".update(" in body or re.search(r"\w+\[\w+\] = ", body) is not None
        if keeps_first and not overwrites:
            verdict = not rev
            why = "the MRO is walked from the root of the hierarchy down and setdefault() keeps the FIRST definition met - the base's"
        elif overwrites and not keeps_first:
            verdict = rev
            why = "the MRO is walked from the class up to its bases and each base overwrites what the subclass defined"
    if verdict is None:
        rep.note("S-R12 undecided: the way _superdict merges the MRO is not one of the recognised forms")
        return
    rep.check("S-R12", "Aggregate._superdict:subclass-definition-wins", bool(verdict), f"{why}: a class that re-declares an inherited element is written and (for list elements) read by the base's converter" if not verdict else "", where)


class _Undecidable(Exception):
    pass


def _presence_eval(fn: ast.FunctionDef, kw: str, present: dict):
    """abstractly run a validate_args override over the PRESENCE of its keyword children (a supplied child is a non-empty
    text, an omitted one is missing from kwargs): 'raise' or 'ok'.  Nothing of the repository is executed - the few
    statement / expression kinds these overrides are written with are interpreted over that two-point domain."""

    class _Raise(Exception):
        def __init__(self, kind):
            self.kind = kind

    env = {}

    def ev(e):
        if isinstance(e, ast.Constant):
            return e.value
        if isinstance(e, ast.Name):
            if e.id in env:
                return env[e.id]
            if e.id == "None":
                return None
            raise _Undecidable(e.id)
        if isinstance(e, ast.BoolOp):
            v = None
            for x in e.values:
                v = ev(x)
                if isinstance(e.op, ast.And) and not v:
                    return v
                if isinstance(e.op, ast.Or) and v:
                    return v
            return v
        if isinstance(e, ast.UnaryOp) and isinstance(e.op, ast.Not):
            return not ev(e.operand)
        if isinstance(e, ast.IfExp):
            return ev(e.body) if ev(e.test) else ev(e.orelse)
        if isinstance(e, ast.Compare) and len(e.ops) == 1:
            op, r = e.ops[0], e.comparators[0]
            if isinstance(op, (ast.In, ast.NotIn)) and isinstance(r, ast.Name) and r.id == kw:
                k = ev(e.left)
                res = bool(present.get(k, False))
                return res if isinstance(op, ast.In) else not res
            a, b = ev(e.left), ev(r)
            if isinstance(op, ast.Is):
                return a is b
            if isinstance(op, ast.IsNot):
                return a is not b
            if isinstance(op, ast.Eq):
                return a == b
            if isinstance(op, ast.NotEq):
                return a != b
            raise _Undecidable(text(e))
        if isinstance(e, ast.Call):
            f = e.func
            if isinstance(f, ast.Attribute) and isinstance(f.value, ast.Name) and f.value.id == kw and f.attr in ("get", "pop") and e.args:
                k = ev(e.args[0])
                if present.get(k, False):
                    return "x"
                return ev(e.args[1]) if len(e.args) > 1 else None
            if isinstance(f, ast.Name) and f.id == "bool" and len(e.args) == 1:
                return bool(ev(e.args[0]))
            if isinstance(f, ast.Name) and f.id in ("any", "all", "sum", "len") and len(e.args) == 1 and isinstance(e.args[0], (ast.List, ast.Tuple)):
                vals = [ev(x) for x in e.args[0].elts]
                return {"any": any, "all": all, "len": len, "sum": lambda v: sum(bool(x) if isinstance(x, bool) else x for x in v)}[f.id](vals)
            raise _Undecidable(text(e)[:40])
        if isinstance(e, ast.Subscript) and isinstance(e.value, ast.Name) and e.value.id == kw:
            k = ev(e.slice)
            if present.get(k, False):
                return "x"
            raise _Raise("KeyError")
        if isinstance(e, (ast.JoinedStr,)):
            return "msg"
        raise _Undecidable(type(e).__name__)

    def run(body):
        for st in body:
            if isinstance(st, ast.Assign) and len(st.targets) == 1 and isinstance(st.targets[0], ast.Name):
                try:
                    env[st.targets[0].id] = ev(st.value)
                except _Undecidable:
                    env.pop(st.targets[0].id, None)  # e.g. a message text: only matters if it is tested later
            elif isinstance(st, ast.AnnAssign) and isinstance(st.target, ast.Name) and st.value is not None:
                env[st.target.id] = ev(st.value)
            elif isinstance(st, ast.Assert):
                if not ev(st.test):
                    raise _Raise("AssertionError")
            elif isinstance(st, ast.If):
                run(st.body if ev(st.test) else st.orelse)
            elif isinstance(st, ast.Raise):
                raise _Raise("raise")
            elif isinstance(st, ast.Try):
                try:
                    run(st.body)
                except _Raise as r:
                    for h in st.handlers:
                        names = [] if h.type is None else [text(t) for t in (h.type.elts if isinstance(h.type, ast.Tuple) else [h.type])]
                        if h.type is None or r.kind in names or "Exception" in names:
                            run(h.body)
                            break
                    else:
                        raise
                else:
                    run(st.orelse)
                run(st.finalbody)
            elif isinstance(st, ast.Expr):
                continue  # super().validate_args(...), logging: judged by other rules
            elif isinstance(st, ast.Return):
                return
            elif isinstance(st, ast.Pass):
                continue
            else:
                raise _Undecidable(type(st).__name__)

    try:
        run(fn.body)
    except _Raise:
        return "raise"
    return "ok"


# Presence constraints of the specification that a class states in code only (no mutex table), confirmed by reading and
# frozen here: class -> (children, the combinations of SUPPLIED children that are admitted, source)
PRESENCE_TABLES = {
    "SONRQ": (("userid", "userpass", "userkey"), {frozenset({"userid", "userpass"}), frozenset({"userkey"})},
              'OFX 2.5.1.2, quoted in SONRQ.validate_args and its error message: "Either <USERID> and <USERPASS> or <USERKEY>, but not both"'),
}


def s_r6g_presence_tables(schema: Schema, rep: Report):
    """what a hand-written validate_args admits, as a table over which children are supplied"""
    import itertools
    from .flat import flat

    rep.rule("S-R6g", "a group constraint that a class states in its validate_args only (SONRQ: either USERID and USERPASS, or USERKEY, not both) admits exactly the combinations of supplied children the specification lists: the override is evaluated over every subset of those children (supplied = non-empty text, omitted = not in kwargs) and the admitted subsets are compared with the table frozen in the checker (PRESENCE_TABLES) - a rewrite of the two assertions into one comparison that also lets USERKEY pass with only one of USERID / USERPASS is a different table")
    p = schema.p
    n = 0
    overrides = {ci.name: (ci, fn0) for ci, fn0 in validate_overrides(schema)}
    for cname, (children, admitted, src) in sorted(PRESENCE_TABLES.items()):
        if cname not in overrides:
            rep.check("S-R6g", f"{cname}.validate_args:presence-table", False, f"{cname} no longer overrides validate_args: the constraint `{src}` is not enforced", "")
            continue
        ci, fn0 = overrides[cname]
        kw = fn0.args.kwarg.arg if fn0.args.kwarg else None
        try:
            fn = flat(p, ci.module, fn0, ci)
        except Exception:
            fn = fn0
        got, wrong = set(), []
        try:
            for r in range(len(children) + 1):
                for sub in itertools.combinations(children, r):
                    res = _presence_eval(fn, kw, {k: True for k in sub})
                    if res == "ok":
                        got.add(frozenset(sub))
                    if (res == "ok") != (frozenset(sub) in admitted):
                        wrong.append(("admits" if res == "ok" else "refuses") + " {" + ", ".join(s.upper() for s in sub) + "}")
        except _Undecidable as e:
            rep.note(f"S-R6g undecided: {cname}.validate_args not evaluated ({e})")
            continue
        n += 1
        rep.check("S-R6g", f"{cname}.validate_args:presence-table", not wrong, f"{cname}.validate_args {'; '.join(wrong)} - the specification ({src}) admits only {sorted(sorted(s) for s in admitted)}" if wrong else "", loc(ci, fn0))
    rep.unit("presence_tables_evaluated", n)


_FALSY_NATIVE = ("Bool", "Decimal", "Integer")


def s_r6f_presence_not_truth(schema: Schema, rep: Report):
    """False and 0 are values"""
    rep.rule("S-R6f", "validate_args overrides test whether a Bool / Decimal / Integer child is SUPPLIED with `in kwargs` / `is (not) None`, never by its truth value: validate_args sees the caller's native value on the keyword route (False for <IRASEPSIMP>N, Decimal(0) for a zero amount - both falsy) and the document's text on the parse route ('N', '0.00' - both truthy), so `not kwargs.get('irasepsimp')` refuses the keyword form of what the reader accepts and an instance cannot be rebuilt from its own attribute values")
    n = 0
    for ci, fn in validate_overrides(schema):
        kw = fn.args.kwarg.arg if fn.args.kwarg else None
        if not kw:
            continue
        spec = schema.spec(ci)

        def child_of(e, vals):
            if isinstance(e, ast.Name) and e.id in vals:
                return vals[e.id]
            if isinstance(e, ast.Call) and isinstance(e.func, ast.Attribute) and e.func.attr in ("get", "pop") and isinstance(e.func.value, ast.Name) and e.func.value.id == kw and e.args and isinstance(e.args[0], ast.Constant):
                return e.args[0].value
            if isinstance(e, ast.Subscript) and isinstance(e.value, ast.Name) and e.value.id == kw and isinstance(e.slice, ast.Constant):
                return e.slice.value
            return None

        vals = {}
        for st in ast.walk(fn):
            if isinstance(st, ast.Assign) and len(st.targets) == 1 and isinstance(st.targets[0], ast.Name):
                k = child_of(st.value, {})
                if k is not None:
                    vals[st.targets[0].id] = k
        tested = []
        for x in ast.walk(fn):
            cands = []
            if isinstance(x, (ast.If, ast.While, ast.IfExp, ast.Assert)):
                cands.append(x.test)
            elif isinstance(x, ast.BoolOp):
                cands.extend(x.values)
            elif isinstance(x, ast.UnaryOp) and isinstance(x.op, ast.Not):
                cands.append(x.operand)
            elif isinstance(x, ast.Call) and text(x.func) in ("bool", "any", "all"):
                for a in x.args:
                    cands.extend(a.elts if isinstance(a, (ast.List, ast.Tuple)) else [a])
            for c in cands:
                k = child_of(c, vals)
                if k is not None:
                    tested.append((k, c))
        for k, c in tested:
            ch = spec.get(k)
            if ch is None:
                continue
            n += 1
            falsy = ch.kind in _FALSY_NATIVE
            rep.check("S-R6f", f"{ci.name}.validate_args:{k}:presence-not-truth", not falsy, f"{ci.name}.validate_args judges the {ch.kind} child `{k}` by its truth value (`{text(c)[:40]}`): a supplied {'False' if ch.kind == 'Bool' else 'zero'} counts as missing on the keyword route while the document's text for it is truthy on the parse route - the reader accepts what the constructor refuses" if falsy else "", loc(ci, c))
    rep.unit("children_judged_by_truth_value", n)


def s_r13_no_scale_on_document_amounts(schema: Schema, rep: Report):
    """a declared scale makes the reader round"""
    rep.rule("S-R13", "no Decimal child of a model class declares a scale: Decimal(scale).convert() quantizes what it reads (ROUND_HALF_EVEN) without error or warning, so <BALAMT>1520.755 becomes 1520.76 in the model - the OFX Amount type has no fixed number of decimals (three-decimal currencies, unit prices and quantities of securities carry more) and the value in the model must be the value in the document")
    n = 0
    for ci in schema.all_aggregate_classes():
        for name, ch in schema.spec(ci).items():
            if ch.kind != "Decimal":
                continue
            n += 1
            if ch.scale is not None:
                rep.check("S-R13", f"{ci.name}.{name}:no-scale", False, f"{ci.name}.{name} is declared Decimal(scale={ch.scale}): the reader rounds the document's value to {ch.scale} decimals silently (1520.755 -> 1520.76; 0.005 -> 0.00), so the model no longer holds the value of the document", child_loc(ch))
    rep.floor("S-R13", n, 200, "Decimal children")
    rep.check("S-R13", "models:no-decimal-scale", True, "", f"{n} Decimal children")


# `at least one of the repeated children` constraints stated in validate_args only, confirmed by reading and frozen:
# class -> repeated children that do NOT count (everything else the class declares as a list member does)
AT_LEAST_ONE_TABLES = {
    "TAX1099RS": ({"fidirectdepositinfo"}, "OFX tax 2.2.6: a response carries one or more 1099 forms; FIDIRECTDEPOSITINFO is an optional extra"),
}


def s_r6h_at_least_one_tables(schema: Schema, rep: Report):
    """the members that satisfy an `at least one` constraint are all the declared forms"""
    rep.rule("S-R6h", "an `at least one of the repeated children` constraint written in validate_args (TAX1099RS: at least one 1099 form) is satisfied by EVERY repeated child the class declares, bar the ones the frozen table excludes: the members the override's test admits - a class-name prefix test, or isinstance() against a tuple of classes (folded through module constants) - are compared with the declared list members.  A table of forms that omits one (TAX1099OID_V100) makes an instance holding only that declared child impossible to build or read back")
    p = schema.p
    overrides = {ci.name: (ci, fn0) for ci, fn0 in validate_overrides(schema)}
    n = 0
    for cname, (excluded, src) in sorted(AT_LEAST_ONE_TABLES.items()):
        if cname not in overrides:
            rep.note(f"S-R6h undecided: {cname} no longer overrides validate_args")
            continue
        ci, fn = overrides[cname]
        members = {nm: ch.target.name for nm, ch in schema.spec(ci).items() if ch.kind == "ListAggregate" and ch.target is not None}
        want = {cls_ for nm, cls_ in members.items() if nm not in excluded}
        admitted = None
        for x in ast.walk(fn):
            if isinstance(x, ast.Call) and isinstance(x.func, ast.Attribute) and x.func.attr == "startswith" and x.args and isinstance(x.args[0], ast.Constant) and "__name__" in text(x.func.value):
                admitted = {c_ for c_ in members.values() if c_.startswith(x.args[0].value)}
            elif isinstance(x, ast.Compare) and len(x.ops) == 1 and isinstance(x.ops[0], ast.Eq) and isinstance(x.left, ast.Subscript) and "__name__" in text(x.left) and isinstance(x.comparators[0], ast.Constant) and isinstance(x.comparators[0].value, str):
                admitted = {c_ for c_ in members.values() if c_.startswith(x.comparators[0].value)}
            elif isinstance(x, ast.Call) and isinstance(x.func, ast.Name) and x.func.id == "isinstance" and len(x.args) == 2:
                t = x.args[1]
                names = None
                if isinstance(t, ast.Tuple):
                    names = [text(e) for e in t.elts]
                elif isinstance(t, ast.Name):
                    binds = [pl for bn, kd, pl in p.module(ci.module).bindings if bn == t.id and kd == "assign"]
                    if len(binds) == 1 and isinstance(binds[0], (ast.Tuple, ast.List)):
                        names = [text(e) for e in binds[0].elts]
                    elif members and t.id in members.values():
                        names = [t.id]
                if names is not None and any(nm_ in members.values() for nm_ in names):
                    admitted = (admitted or set()) | {nm_ for nm_ in names if nm_ in members.values()}
        if admitted is None:
            # no per-member test at all, only a count of the positional members: then EVERY member counts - the excluded ones too
            try:
                from .flat import flat as _flat6h

                ffn = _flat6h(p, ci.module, fn, ci)
            except Exception:
                ffn = fn
            va_ = fn.args.vararg.arg if fn.args.vararg else None
            counts = [x for x in ast.walk(ffn) if va_ and ((isinstance(x, ast.Call) and text(x.func) == "len" and x.args and text(x.args[0]) == va_) or (isinstance(x, ast.UnaryOp) and isinstance(x.op, ast.Not) and text(x.operand) == va_))]
            member_tests = [x for x in ast.walk(ffn) if isinstance(x, (ast.comprehension, ast.For)) and va_ and text(x.iter) == va_]
            if counts and not member_tests and excluded:
                n += 1
                rep.check("S-R6h", f"{cname}.validate_args:every-form-counts", False, f"{cname}.validate_args only counts its positional members (`{text(counts[0])[:30]}`): {sorted(excluded)} satisfy `at least one` too, so an instance holding nothing but such members ({src}) is built and read back although it carries no form", loc(ci, fn))
                continue
            rep.note(f"S-R6h undecided: how {cname}.validate_args tells the forms from the other members was not recognised")
            continue
        n += 1
        missing = sorted(want - admitted)
        rep.check("S-R6h", f"{cname}.validate_args:every-form-counts", not missing, f"{cname}.validate_args does not count {missing} towards `at least one`: the class declares them as repeated children ({src}), but an instance holding only such members is refused on construction and on parsing" if missing else "", loc(ci, fn))
    rep.unit("at_least_one_tables", n)
