"""The two committed corpora as self-test variants (thorough tier):
  /verif/seeded/<id>/patch.diff  - independently produced breaking changes: the owning property's check must report each
  /verif/benign/<id>/patch.diff  - independently produced behaviour-preserving refactors: every check must stay silent
Patches are applied IN MEMORY to the texts of the working tree by a small unified-diff applier (no git, no
scratch files); a patch that no longer applies to the current tree is skipped (not-applicable), never an error."""
from __future__ import annotations

import json
import pathlib
import re
from typing import Dict, List, Optional

VERIF = pathlib.Path(__file__).resolve().parent.parent
_HUNK = re.compile(r"^@@ -(\d+)(?:,(\d+))? \+(\d+)(?:,(\d+))? @@")


def parse_patch(text: str) -> Dict[str, List[dict]]:
    """{relpath: [hunk]} with hunk = {'start': old start line (1-based), 'lines': [(tag, text)]}"""
    files: Dict[str, List[dict]] = {}
    cur: Optional[List[dict]] = None
    hunk = None
    for line in text.splitlines(keepends=True):
        if line.startswith("diff --git"):
            cur, hunk = None, None
            continue
        if line.startswith("--- "):
            continue
        if line.startswith("+++ "):
            path = line[4:].strip()
            if path.startswith("b/"):
                path = path[2:]
            cur = files.setdefault(path, [])
            hunk = None
            continue
        m = _HUNK.match(line)
        if m and cur is not None:
            hunk = {"start": int(m.group(1)), "lines": []}
            cur.append(hunk)
            continue
        if hunk is not None and line[:1] in (" ", "+", "-"):
            hunk["lines"].append((line[0], line[1:]))
        elif hunk is not None and line.startswith("\\"):
            # "\ No newline at end of file": strip the newline of the previous line
            if hunk["lines"]:
                t, s = hunk["lines"][-1]
                hunk["lines"][-1] = (t, s.rstrip("\n"))
    return files


def apply_patch(files: Dict[str, str], patch_text: str) -> Optional[Dict[str, str]]:
    """overlay {relpath: new text}, or None when some hunk does not match the current text"""
    overlay: Dict[str, str] = {}
    for rel, hunks in parse_patch(patch_text).items():
        src = files.get(rel)
        if src is None:
            return None
        lines = src.splitlines(keepends=True)
        out: List[str] = []
        pos = 0
        for h in hunks:
            old = [s for t, s in h["lines"] if t in (" ", "-")]
            start = h["start"] - 1 if old else h["start"]
            # allow a small drift of the hunk position
            found = None
            for delta in sorted(range(-40, 41), key=abs):
                s = start + delta
                if s >= pos and lines[s:s + len(old)] == old:
                    found = s
                    break
            if found is None:
                return None
            out.extend(lines[pos:found])
            out.extend(s for t, s in h["lines"] if t in (" ", "+"))
            pos = found + len(old)
        out.extend(lines[pos:])
        overlay[rel] = "".join(out)
    return overlay


def corpus_variants(prop: Optional[str]) -> List[dict]:
    """catalogue entries ({'id','kind','props','patch'}) for the committed corpora"""
    out = []
    sd = VERIF / "seeded"
    if sd.is_dir():
        for d in sorted(sd.iterdir()):
            pf, mf = d / "patch.diff", d / "meta.json"
            if not pf.exists() or not mf.exists():
                continue
            try:
                meta = json.loads(mf.read_text())
                owner = meta.get("property")
            except Exception:
                continue
            if owner and (prop is None or owner == prop):
                # a seed recorded as out of static reach (meta.out_of_reach = reason) is still run, but silence on it
                # is the declared outcome, not a miss
                kind = "declined" if meta.get("out_of_reach") else "fault"
                out.append({"id": f"seeded/{d.name}", "kind": kind, "props": [owner], "patch": pf.read_text()})
    bd = VERIF / "benign"
    if bd.is_dir():
        for d in sorted(bd.iterdir()):
            pf = d / "patch.diff"
            if pf.exists():
                props = [prop] if prop is not None else ["C%02d" % i for i in range(1, 20)]
                out.append({"id": f"benign/{d.name}", "kind": "benign", "props": props, "patch": pf.read_text()})
    return out
