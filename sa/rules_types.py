"""Converter rules T-R1..6 (C10) over the singledispatch handler tables of ofxtools/Types.py."""
from __future__ import annotations

import ast
import re
from typing import List, Optional, Tuple

from . import dispatch as D
from .cfg import CFG, Node
from .dataflow import Reaching, own_nodes, own_statements, params_of
from .match import Expander, norm, same, text
from .report import Report
from .source import AnalysisError, ClassInfo, Func, Project, dotted

TYPES = D.TYPES
SCALARS = ["Bool", "String", "NagString", "OneOf", "Integer", "Decimal", "DateTime", "Time"]


def tloc(p: Project, node) -> str:
    return f"{p.module(TYPES).relpath}:{getattr(node, 'lineno', '?')}"


def self_call_name(call) -> Optional[str]:
    """V for `self.V(...)`"""
    if isinstance(call, ast.Call) and isinstance(call.func, ast.Attribute) and isinstance(call.func.value, ast.Name) and call.func.value.id == "self":
        return call.func.attr
    return None


def super_call_name(call) -> Optional[str]:
    if isinstance(call, ast.Call) and isinstance(call.func, ast.Attribute) and isinstance(call.func.value, ast.Call):
        f = call.func.value.func
        if isinstance(f, ast.Name) and f.id == "super":
            return call.func.attr
    return None


class Flow:
    """per-function CFG + reaching definitions, cached"""

    def __init__(self, fn):
        self.fn = fn
        self.cfg = CFG(fn)
        self.reach = Reaching(self.cfg)

    def return_nodes(self) -> List[Node]:
        return [n for n in self.cfg.nodes if n.kind == "return"]


def _method(ci: ClassInfo, name: str, after: Optional[ClassInfo] = None):
    """first definition of method `name` along ci's MRO (starting after class `after` for super())"""
    mro = ci.repo_mro
    if after is not None and after in mro:
        mro = mro[mro.index(after) + 1:]
    for c in mro:
        f = c.own_func(name)
        if f is not None:
            return c, f
    return None, None


def passes_through(ci: ClassInfo, definer: ClassInfo, fn, expr, node: Node, flow: Flow, names, depth=3, const_none_arg=None) -> Tuple[bool, str]:
    """does the value of `expr` (evaluated at `node` of `fn`, a method of `definer` seen from class
    `ci`) come out of a call to self.<V>(...) with V in `names` - directly, wrapped (str(x)),
    through a local whose every reaching definition does, through a same-class helper all of whose
    returns do, or through super().<same method>."""
    if expr is None:
        return False, "returns None"
    for sub in ast.walk(expr):
        v = self_call_name(sub)
        if v in names:
            return True, v
    if depth <= 0:
        return False, "helper depth exhausted"
    # helper / super delegation: the expression IS a call to self.helper(...) / super().m(...)
    target = None
    if isinstance(expr, ast.Call):
        h = self_call_name(expr)
        if h is not None:
            target = _method(ci, h)
        else:
            s = super_call_name(expr)
            if s is not None:
                target = _method(ci, s, after=definer)
    if target and target[1] is not None:
        hc, hf = target
        hflow = Flow(hf)
        rets = hflow.return_nodes()
        if not rets:
            return False, f"{hc.name}.{hf.name} returns nothing"
        for rn in rets:
            ok, why = passes_through(ci, hc, hf, rn.stmt.value, rn, hflow, names, depth - 1)
            if not ok:
                return False, f"via {hc.name}.{hf.name}: {why}"
        return True, f"via {hc.name}.{hf.name}"
    # through locals
    for sub in ast.walk(expr):
        if isinstance(sub, ast.Name) and isinstance(sub.ctx, ast.Load):
            ds = flow.reach.defs_at(node, sub.id)
            assigns = [d for d in ds if d.kind == "assign" and isinstance(d.value, ast.AST)]
            if ds and len(assigns) == len(ds):
                allok = True
                for d in assigns:
                    dn = flow.cfg.node_of(d.stmt)
                    ok, _ = passes_through(ci, definer, fn, d.value, dn, flow, names, depth - 1)
                    if not ok:
                        allok = False
                        break
                if allok:
                    return True, f"via local {sub.id}"
    return False, f"value {ast.unparse(expr)} does not come out of self.{'/'.join(sorted(names))}()"


def scalar_types(p: Project):
    types = D.element_types(p)
    missing = [s for s in SCALARS if s not in types]
    if missing:
        raise AnalysisError(f"element types {missing} not found in {TYPES}")
    return {k: types[k] for k in SCALARS}, types


# --------------------------------------------------------------------------
def t_r1(p: Project, rep: Report):
    rep.rule("T-R1", "each scalar element type dispatches convert() for None and str, unconvert() for None and for its native type (registered, or a default that does not raise unconditionally); the str reader itself can return")
    scal, _ = scalar_types(p)
    for name, ci in scal.items():
        conv, unc = D.family(ci, "convert"), D.family(ci, "unconvert")
        if conv is None or unc is None:
            rep.check("T-R1", f"{name}:families", False, "convert/unconvert family missing", tloc(p, ci.node))
            continue
        for k in ("None", "str"):
            h = conv.get(k)
            rep.check("T-R1", f"{name}.convert[{k}]", h is not None, f"no convert handler registered for {k}: {k} values fall to the default" if h is None else "", tloc(p, ci.node))
        h = conv.get("str")
        if h is not None:
            rep.check("T-R1", f"{name}.convert[str]:can-return", not h.always_raises(), "the str reader raises on every path", tloc(p, h.fn))
        h = unc.get("None")
        rep.check("T-R1", f"{name}.unconvert[None]", h is not None, "no unconvert handler for None" if h is None else "", tloc(p, ci.node))
        nk = D.native_key(ci)
        if nk is None:
            raise AnalysisError(f"{name}.__type__ not a plain type")
        h = unc.handler_for_native(nk)
        ok = h is not None and not h.always_raises()
        rep.check("T-R1", f"{name}.unconvert[{nk}]", ok, f"writing a native {nk} selects {h.qualname if h else None}, which raises on every path" if not ok else "", tloc(p, ci.node))
        rep.unit("handlers", len(conv.table) + len(unc.table))
        # nothing else is registered: a handler for a foreign type makes the element accept (and write) values that
        # are not of its type - the default handler's refusal (T-R5) is then bypassed for that type
        allowed = {D.DEFAULT, "None", "str", nk}
        for famname, fam in (("convert", conv), ("unconvert", unc)):
            for key, hh in fam.table.items():
                if key in allowed or hh.always_raises():
                    continue
                rep.check("T-R1", f"{name}.{famname}[{key}]:foreign-type", False, f"{hh.qualname} is registered for {key}, which is not {name}'s type ({nk}): a {key} value given to a {name} element is accepted / written instead of refused", tloc(p, hh.fn))


def t_r2(p: Project, rep: Report):
    rep.rule("T-R2", "every None handler (convert and unconvert, incl. SubAggregate) returns self.enforce_required(<its argument>) on every path; the empty-text paths of the String/Integer/OneOf readers go through enforce_required too (no path returns a bare None)")
    scal, types = scalar_types(p)
    n = 0
    for name, ci in list(scal.items()) + [("SubAggregate", types["SubAggregate"]), ("ListAggregate", types["ListAggregate"])]:
        for famname in ("convert", "unconvert"):
            fam = D.family(ci, famname)
            if fam is None:
                continue
            h = fam.get("None")
            if h is None:
                continue
            n += 1
            vp = h.value_param()
            rps, _ = h.return_paths()
            ok, why = bool(rps), "the handler never returns"
            for pth, rtxt, sc in rps:
                if rtxt not in (f"self.enforce_required({vp})", "self.enforce_required(None)"):
                    ok, why = False, f"a path returns {rtxt} instead of self.enforce_required({vp}): None is passed through even when the element is required"
            rep.check("T-R2", f"{name}.{famname}[None]:{h.qualname}", ok, why if not ok else "", tloc(p, h.fn))
    rep.floor("T-R2", n, 16, "None handlers")
    for name in ("String", "NagString", "OneOf", "Integer"):
        ci = scal[name]
        fam = D.family(ci, "convert")
        h = fam.get("str") if fam else None
        if h is None:
            continue
        rps, _ = h.return_paths()
        # a literal None returned where `enforce_required(..) is None` was just established IS the checked value
        bad = [rtxt for pth, rtxt, sc in rps if rtxt == "None" and not any(w_ is True and a_.startswith("self.enforce_required(") and a_.endswith(" is None") for a_, w_ in sc.items())]
        rep.check("T-R2", f"{name}.convert[str]:no-bare-None", not bad, "an empty value is returned as None without enforce_required" if bad else "", tloc(p, h.fn))


def t_r3(p: Project, rep: Report):
    rep.rule("T-R3", "on every returning path of the String/NagString/Integer convert and unconvert handlers the returned value comes out of enforce_length (or is enforce_required(None) for the empty text); every OneOf convert/unconvert return is either None (through enforce_required) or taken on a path whose conditions imply `value in self.valid`; ListElement delegates to self.converter")
    from . import paths as PT

    scal, types = scalar_types(p)
    n = 0
    for name in ("String", "NagString", "Integer"):
        ci = scal[name]
        for famname in ("convert", "unconvert"):
            fam = D.family(ci, famname)
            for key, h in fam.table.items():
                if key == "None" or h.always_raises():
                    continue
                rps, _ = h.return_paths()
                for i, (pth, rtxt, sc) in enumerate(rps):
                    n += 1
                    ok = "self.enforce_length(" in rtxt or rtxt == "self.enforce_required(None)"
                    if ok and rtxt != "self.enforce_required(None)" and name in ("String", "NagString"):
                        # the checked value is what is returned: enforce_length(...) is the WHOLE returned expression (a
                        # slice / strip / replace applied afterwards returns something other than what was checked)
                        try:
                            top = ast.parse(rtxt, mode="eval").body
                        except SyntaxError:
                            top = None
                        whole = isinstance(top, ast.Call) and text(top.func) == "self.enforce_length"
                        if top is not None and not whole:
                            rep.check("T-R3", f"{name}.{famname}[{key}]:return#{i}", False, f"{h.qualname}: a path returns {rtxt[:80]}: the value is altered AFTER the length check (e.g. clipped to the limit), so what is returned is not the value that was given", tloc(p, h.fn))
                            continue
                    if ok and name == "Integer" and famname == "convert" and key == "str" and any(m_ in rtxt for m_ in ("Decimal(", "to_integral", "round(", "quantize(", "math.floor", "math.trunc", ".split(", ".partition(")):
                        rep.check("T-R3", f"{name}.{famname}[{key}]:return#{i}", False, f"{h.qualname}: a path returns {rtxt[:80]}: a text that does not denote an integer ('5.7', '12e-1') is rounded / cut to one instead of being refused - the reader accepts what is not an integer and the model holds a number the document does not", tloc(p, h.fn))
                        continue
                    if name == "Integer" and famname == "convert" and key == "str":
                        vp_ = h.value_param()
                        # the gate is on the text AS RECEIVED (a gate on value.lstrip('+-') admits the sign)
                        gates = [a_ for a_, w_ in sc.items() if a_ in (f"bool({vp_}.isdigit())", f"bool({vp_}.isnumeric())", f"bool({vp_}.isdecimal())") and w_ is True]
                        if gates and "int(" in rtxt:
                            rep.check("T-R3", f"{name}.{famname}[{key}]:return#{i}:sign-admitted", False, f"{h.qualname}: the text reaches int() only if `{gates[0][:40]}`: str.isdigit() is False for a leading sign, so '-1' - which the writer emits for a negative value and int() reads - is refused on the way back (and it is True for digits int() rejects, such as superscripts)", tloc(p, h.fn))
                            continue
                    if ok and name == "Integer" and "float(" in rtxt:
                        rep.check("T-R3", f"{name}.{famname}[{key}]:return#{i}", False, f"{h.qualname}: a path returns {rtxt[:80]}: the text goes through float(), which holds 53 bits - an integer beyond 2**53 (unbounded Integer fields admit them) comes back as a neighbouring number, silently", tloc(p, h.fn))
                        continue
                    rep.check("T-R3", f"{name}.{famname}[{key}]:return#{i}", ok, f"{h.qualname}: a path returns {rtxt[:80]}, which did not pass enforce_length" if not ok else "", tloc(p, h.fn))
    ci = scal["OneOf"]
    for famname in ("convert", "unconvert"):
        fam = D.family(ci, famname)
        for key, h in fam.table.items():
            if key == "None" or h.always_raises():
                continue
            n += 1
            rps, pths = h.return_paths()
            ok, why = True, ""
            for pth, rtxt, sc in rps:
                if rtxt in ("None", "self.enforce_required(None)") or sc.get(f"{rtxt} is None") is True:
                    continue
                members = sorted({a for c, _w in pth.conds for a in c.atoms() if a.endswith(" in self.valid")})
                if not members:
                    ok, why = False, f"a path returns {rtxt[:60]} without any `in self.valid` test"
                    continue
                # the membership that counts is that of the value actually returned
                goal = PT.any_of(PT.atom(f"{rtxt} in self.valid"), PT.atom(f"{rtxt} is None"))
                imp = PT.implies(pth.conds, goal)
                if imp is False:
                    ok, why = False, f"a path returns {rtxt[:60]} although its conditions do not establish membership in self.valid"
            rep.check("T-R3", f"OneOf.{famname}[{key}]:membership", ok, f"{h.qualname}: {why}" if not ok else "", tloc(p, h.fn))
    # the token set is what the declaration lists: OneOf("A", "B").valid is the tuple of positional arguments that
    # Element.__init__ binds through the signature; any later re-binding must keep every member a member
    for c_ in ci.repo_mro:
        for fn_ in [x for x in c_.node.body if isinstance(x, ast.FunctionDef)]:
            for st_ in ast.walk(fn_):
                tg_ = None
                if isinstance(st_, ast.Assign):
                    tg_ = next((t for t in st_.targets if text(t) == "self.valid"), None)
                    val_ = st_.value
                elif isinstance(st_, ast.Call) and text(st_.func) == "setattr" and len(st_.args) == 3 and text(st_.args[0]) == "self" and isinstance(st_.args[1], ast.Constant) and st_.args[1].value == "valid":
                    tg_, val_ = st_, st_.args[2]
                if tg_ is None:
                    continue
                n += 1
                keeps = text(val_) in ("self.valid", "valid") or (isinstance(val_, ast.Call) and text(val_.func) in ("tuple", "list", "set", "frozenset", "sorted") and len(val_.args) == 1 and text(val_.args[0]) in ("self.valid", "valid"))
                picks = isinstance(val_, ast.Subscript) and text(val_.value) in ("self.valid", "valid", "args")
                if keeps:
                    rep.check("T-R3", f"{c_.name}.{fn_.name}:valid-rebound-whole", True, "", tloc(p, st_))
                elif picks:
                    rep.check("T-R3", f"{c_.name}.{fn_.name}:valid-rebound-whole", False, f"self.valid is re-bound to {text(val_)}, one of the declared tokens: membership is then tested against the CHARACTERS of that token (`value in 'NONE'` holds for 'N', 'ON', ''), so texts that are not the token are accepted by every single-token enumeration", tloc(p, st_))
                else:
                    rep.note(f"T-R3 undecided: {c_.name}.{fn_.name} re-binds self.valid to {text(val_)[:50]}")
    le = types["ListElement"]
    for famname in ("convert", "unconvert"):
        fam = D.family(le, famname)
        h = fam.default if fam else None
        n += 1
        ok = False
        if h is not None:
            rps, _ = h.return_paths()
            vp = h.value_param()
            ok = bool(rps) and all(rtxt == f"self.converter.{famname}({vp})" for _p, rtxt, _s in rps)
        rep.check("T-R3", f"ListElement.{famname}:delegates", ok, f"ListElement.{famname} does not return self.converter.{famname}(value)" if not ok else "", tloc(p, h.fn if h else le.node))
    rep.floor("T-R3", n, 14, "returns/handlers")


def _conjuncts(test):
    t = norm(test)
    if isinstance(t, ast.BoolOp) and isinstance(t.op, ast.And):
        return [text(v) for v in t.values]
    return [text(t)]


def make_lookup(p: Project, modname: str, ci: Optional[ClassInfo] = None):
    """resolver of a call to the repo function it names: self.m(...) / cls.m(...) through the MRO,
    plain names through the module's bindings"""

    def lookup(call: ast.Call):
        f = call.func
        if isinstance(f, ast.Attribute) and isinstance(f.value, ast.Name) and f.value.id in ("self", "cls") and ci is not None:
            c, fn = ci.find_method(f.attr)
            return fn
        if isinstance(f, ast.Name):
            v = p.resolve(modname, f.id)
            if isinstance(v, Func):
                return v.node
        return None

    return lookup


def guard_table(p: Project, rep: Report, rule: str, label: str, ci: ClassInfo, fn, expected: dict, relevant, where):
    """exhaustive path-condition table of a guard function.
    expected: {'raise': cond-src, 'warn': cond-src or None}; the function must return its first value
    parameter unchanged on every non-raising assignment.  `relevant(atom)` says whether an atom that is
    not one of the expected ones is a (mis-spelt) version of them (=> violation) or unrelated (=> undecided)."""
    from . import paths as PT

    vp = params_of(fn)[1]
    lookup = make_lookup(p, ci.module, ci)
    try:
        from .flat import flat as _flat

        fn = _flat(p, ci.module, fn, ci)  # a private helper may issue the warning / build the message
    except Exception:
        pass

    def events(c):
        d = dotted(c.func) or ""
        if d.split(".")[-1] == "warn":
            return "warn"
        return None

    try:
        pths = PT.enumerate_paths(fn, lookup, event_filter=events)
    except AnalysisError as e:
        rep.note(f"{rule} {label}: undecided ({e})")
        return
    exp_raise = PT.parse_cond(expected["raise"])
    exp_warn = PT.parse_cond(expected["warn"]) if expected.get("warn") else None
    known = exp_raise.atoms() | (exp_warn.atoms() if exp_warn else set())
    atoms = set(PT.atoms_of(pths))
    odd = sorted(a for a in atoms - known)
    bad_atoms = [a for a in odd if relevant(a)]
    if bad_atoms:
        rep.check(rule, f"{label}:comparison", False, f"the guard tests `{bad_atoms[0]}` where `{sorted(known)}` is expected: the limit itself must be accepted and the next value rejected", where)
        return
    if odd:
        rep.note(f"{rule} {label}: undecided - guard depends on unrecognised conditions {odd}")
        return
    problems = []
    for env, ps in PT.truth_table(pths, extra_atoms=sorted(known)):
        if len(ps) != 1:
            problems.append(f"{len(ps)} paths for {env}")
            continue
        pth = ps[0]
        want_raise = exp_raise.ev(env)
        if want_raise != (pth.outcome == "raise"):
            problems.append(f"when {_fmt(env)} the function {'does not raise' if want_raise else 'raises'}")
            continue
        if pth.outcome != "raise":
            v = pth.value
            same = isinstance(v, ast.Name) and v.id == vp
            if pth.outcome == "fall" or v is None or not same:
                # returning None literally where the parameter is known to be None is the same value
                if not (isinstance(v, ast.Constant) and v.value is None and env.get(f"{vp} is None") is True):
                    problems.append(f"when {_fmt(env)} it returns {ast.unparse(v) if v is not None else 'nothing'} instead of its argument unchanged")
            else:
                # the parameter must not have been re-bound on this path
                cfg_nodes = pth.nodes
                from .cfg import CFG as _CFG

            if exp_warn is not None:
                want_warn = exp_warn.ev(env)
                if want_warn != ("warn" in pth.events):
                    problems.append(f"when {_fmt(env)} it {'does not warn' if want_warn else 'warns'}")
    # re-binding of the parameter anywhere in the function (value not kept whole)
    for st in own_statements(fn):
        if isinstance(st, (ast.Assign, ast.AugAssign)):
            tg = st.targets if isinstance(st, ast.Assign) else [st.target]
            if any(isinstance(t, ast.Name) and t.id == vp for t in tg):
                problems.append(f"the argument {vp} is re-bound ({text(st)[:50]}) before it is returned")
    rep.check(rule, f"{label}:guard-table", not problems, "; ".join(problems[:3]), where)


def _fmt(env):
    return ", ".join(f"{'' if v else 'not '}{k}" for k, v in sorted(env.items()))


def t_r4(p: Project, rep: Report):
    rep.rule("T-R4", "guard strictness, decided by an exhaustive path-condition table (every spelling: nested ifs, early returns, De Morgan, helpers that always raise): enforce_required raises iff `value is None and self.required`; String.enforce_length raises iff `length is not None and len(value) > length and strict`, warns iff the same with `not strict`, and returns its argument unchanged otherwise; Integer.enforce_length raises iff `length is not None and value >= 10**length`; NagString only flips `strict`")
    types = D.element_types(p)
    element = p.get_class(TYPES, "Element")
    fn = element.own_func("enforce_required")
    if fn is None:
        raise AnalysisError("Element.enforce_required not found")
    vp = params_of(fn)[1]
    guard_table(p, rep, "T-R4", "Element.enforce_required", element, fn, {"raise": f"{vp} is None and self.required"},
                lambda a: "required" in a and a != "bool(self.required)" or (f"{vp}" in a and "None" in a and a != f"{vp} is None"), tloc(p, fn))
    s = types["String"]
    fn = s.own_func("enforce_length")
    if fn is None:
        raise AnalysisError("String.enforce_length not found")
    vp = params_of(fn)[1]
    guard_table(p, rep, "T-R4", "String.enforce_length", s, fn,
                {"raise": f"self.length is not None and len({vp}) > self.length and self.strict", "warn": f"self.length is not None and len({vp}) > self.length and not self.strict"},
                lambda a: ("len(" in a and "length" in a), tloc(p, fn))
    nag = types["NagString"]
    v = nag.lookup("strict")
    rep.check("T-R4", "NagString.strict", v is False and nag.own_func("enforce_length") is None, f"NagString.strict={v!r}; it must only switch the raise into a warning", tloc(p, nag.node))
    v = s.lookup("strict")
    rep.check("T-R4", "String.strict", v is True, f"String.strict={v!r}", tloc(p, s.node))
    i = types["Integer"]
    fn = i.own_func("enforce_length")
    if fn is None:
        raise AnalysisError("Integer.enforce_length not found")
    vp = params_of(fn)[1]
    # digits counted through a floating-point logarithm: math.log(x, 10) is inexact AT the powers of ten
    # (math.log(1000, 10) == 2.9999999999999996), so the first value beyond a limit of 3 digits passes, and any float
    # route loses integers beyond 2**53
    for c_ in ast.walk(fn):
        if isinstance(c_, ast.Call) and (dotted(c_.func) or "").split(".")[-1] == "log" and len(c_.args) == 2 and any(isinstance(x_, ast.Name) and x_.id == vp for x_ in ast.walk(c_.args[0])):
            rep.check("T-R4", "Integer.enforce_length:comparison", False, f"the number of digits is computed as {text(c_)[:50]}: a two-argument math.log is a quotient of floating-point logarithms and falls short exactly at powers of the base (math.log(1000, 10) = 2.9999999999999996 -> 3 digits), so 10**n is accepted by an Integer(n) for n = 3, 6, 9, 13, 15 ...", tloc(p, c_))
            return
    guard_table(p, rep, "T-R4", "Integer.enforce_length", i, fn, {"raise": f"self.length is not None and {vp} >= 10 ** self.length"},
                # also mis-spelt: counting the characters of str(value) - the minus sign of a negative value is not a digit
                lambda a: ("10 **" in a or "10**" in a or f"len(str({vp}))" in a.replace(" ", "")), tloc(p, fn))


def t_r5(p: Project, rep: Report):
    rep.rule("T-R5", "values of an unregistered Python type are rejected: the default handler of Bool/String/NagString/DateTime/Time convert and of every scalar unconvert (except OneOf, whose default is its writer) raises on every path")
    scal, _ = scalar_types(p)
    n = 0
    for name, ci in scal.items():
        conv, unc = D.family(ci, "convert"), D.family(ci, "unconvert")
        if name in ("Bool", "String", "NagString", "DateTime", "Time"):
            n += 1
            h = conv.default
            rep.check("T-R5", f"{name}.convert[default]", h is not None and h.always_raises(), f"{h.qualname if h else None} accepts values of any unregistered type", tloc(p, h.fn if h else ci.node))
        if name != "OneOf":
            n += 1
            h = unc.default
            rep.check("T-R5", f"{name}.unconvert[default]", h is not None and h.always_raises(), f"{h.qualname if h else None} writes values of any unregistered type", tloc(p, h.fn if h else ci.node))
    rep.floor("T-R5", n, 12, "default handlers")


def t_r6(p: Project, rep: Report):
    rep.rule("T-R6", "Decimal: on every returning path of both readers (str and decimal.Decimal) either no scale is set or the returned value comes out of .quantize(self.scale); every returning path of the writer implies `scale is None or value.same_quantum(scale)`")
    from . import paths as PT

    scal, _ = scalar_types(p)
    ci = scal["Decimal"]
    conv, unc = D.family(ci, "convert"), D.family(ci, "unconvert")
    for key in ("str", "decimal.Decimal"):
        h = conv.get(key)
        if h is None:
            continue
        rps, _ = h.return_paths()
        ok, why = bool(rps), "never returns"
        for pth, rtxt, sc in rps:
            if sc.get("self.scale is None") is True:
                continue
            if ".quantize(self.scale)" not in rtxt:
                ok, why = False, f"with a scale set a path returns {rtxt[:70]}, which is not quantized to the declared number of places"
        rep.check("T-R6", f"Decimal.convert[{key}]:quantizes", ok, why if not ok else "", tloc(p, h.fn))
    h = unc.get("decimal.Decimal")
    if h is not None:
        rps, _ = h.return_paths()
        vp = h.value_param()
        goal = PT.any_of(PT.atom("self.scale is None"), PT.atom(f"bool({vp}.same_quantum(self.scale))"))
        ok = bool(rps) and all(PT.implies(pth.conds, goal) is not False for pth, _r, _s in rps)
        known = any(f"bool({vp}.same_quantum(self.scale))" in c.atoms() for pth, _r, _s in rps for c, _w in pth.conds)
        if not known and ok is False:
            pass
        rep.check("T-R6", "Decimal.unconvert[decimal.Decimal]:same-quantum", ok, "the writer does not refuse values whose exponent differs from the declared scale" if not ok else "", tloc(p, h.fn))


def t_r6b_no_context_arithmetic(p: Project, rep: Report):
    """the decimal converters never apply context arithmetic to the value"""
    rep.rule("T-R6b", "decimal values pass through the converters digit for digit: no returning path of a Decimal reader or writer applies an arithmetic operator (unary +/-, binary + - * /, abs, round, normalize) to the value - arithmetic rounds to the ambient decimal context (28 significant digits by default), so longer values are silently changed; quantize(self.scale) is the only permitted operation")
    scal, _ = scalar_types(p)
    ci = scal["Decimal"]
    n = 0
    for famname in ("convert", "unconvert"):
        fam = D.family(ci, famname)
        for key, h in fam.table.items():
            if key in ("None", D.DEFAULT) or h.always_raises():
                continue
            vp = h.value_param()
            rps, _ = h.return_paths()
            for i, (pth, rtxt, sc) in enumerate(rps):
                try:
                    v = ast.parse(rtxt, mode="eval").body
                except SyntaxError:
                    continue
                n += 1
                bad = None
                for x in ast.walk(v):
                    if isinstance(x, ast.UnaryOp) and isinstance(x.op, (ast.UAdd, ast.USub)) and not isinstance(x.operand, ast.Constant):
                        bad = text(x)
                    elif isinstance(x, ast.BinOp) and isinstance(x.op, (ast.Add, ast.Sub, ast.Mult, ast.Div)) and any(isinstance(y, ast.Name) and y.id == vp or (isinstance(y, ast.Call) and text(y.func).endswith("Decimal")) for y in ast.walk(x)) and not any(isinstance(y, ast.Constant) and isinstance(y.value, str) for y in (x.left, x.right)):
                        bad = text(x)
                    elif isinstance(x, ast.Call) and (text(x.func) in ("abs", "round") or (isinstance(x.func, ast.Attribute) and x.func.attr in ("normalize", "__pos__", "__neg__", "__abs__", "to_integral_value"))):
                        bad = text(x)
                rep.check("T-R6b", f"Decimal.{famname}[{key}]:return#{i}:no-arithmetic", bad is None, f"{h.qualname} returns {rtxt[:60]}: `{bad[:40] if bad else ''}` is decimal arithmetic and rounds the value to the context precision" if bad else "", tloc(p, h.fn))
    if n == 0:
        rep.note("T-R6b undecided: no returning path in the Decimal converters")


def t_r7(p: Project, rep: Report):
    rep.rule("T-R7", "the String reader checks the length limit on the DECODED text: on every returning path (other than the empty text) the returned value is enforce_length(<output of the entity decoder>) - checking the escaped wire text rejects valid values at the limit that contain & < >")
    scal, _ = scalar_types(p)
    ci = scal["String"]
    h = D.family(ci, "convert").get("str")
    if h is None:
        raise AnalysisError("String str reader not found")
    rps, _ = h.return_paths()
    for i, (pth, rtxt, sc) in enumerate(rps):
        if rtxt == "self.enforce_required(None)":
            continue
        m = re.search(r"self\.enforce_length\((.*)\)", rtxt)
        if m is None:
            ok, why = False, f"a path returns {rtxt[:80]}: the (decoded) text is not what enforce_length checked"
        else:
            arg = m.group(1)
            ok = "unescape(" in arg or ".replace(" in arg or not _entity_decoders(h.ffn)  # nothing decoded here: the limit is tested on what is returned
            why = f"enforce_length is applied to {arg[:60]}: the limit is tested before entities are decoded, so a valid value such as 'AT&T' at the limit ('AT&amp;T' on the wire) is rejected"
        rep.check("T-R7", f"String.convert[str]:length-on-decoded-text#{i}", ok, why if not ok else "", tloc(p, h.fn))


# --------------------------------------------------------------------------
def _entity_decoders(fn):
    """calls inside fn that decode entity references: <x>.unescape(...) / unescape(...) / .replace('&...;', ...)"""
    out = []
    for x in ast.walk(fn):
        if not isinstance(x, ast.Call):
            continue
        f = x.func
        nm = f.attr if isinstance(f, ast.Attribute) else (f.id if isinstance(f, ast.Name) else "")
        if nm == "unescape":
            out.append(x)
        elif nm == "replace" and x.args and isinstance(x.args[0], ast.Constant) and isinstance(x.args[0].value, str) and re.fullmatch(r"&#?\w+;", x.args[0].value):
            out.append(x)
    return out


def t_r10_supplied_text_kept(p: Project, rep: Report):
    """a value the CALLER supplies is stored as given; only text that came off the wire is entity-decoded"""
    rep.rule("T-R10", "a string the caller supplies (keyword of a model constructor, attribute assignment) is kept as given: the descriptor's __set__ hands every value - the caller's and the parser's alike - to convert(); a str reader reached that way therefore must not decode entity references, or else a supplied 'a&amp;b' is stored (and sent) as 'a&b'. Holds when no str reader decodes, or when __set__ / the constructors tell the two routes apart")
    scal, types = scalar_types(p)
    el = p.get_class(D.TYPES, "Element")
    setter = next((x for x in el.node.body if isinstance(x, ast.FunctionDef) and x.name == "__set__"), None)
    if setter is None:
        raise AnalysisError("Element.__set__ not found")
    vp = [a.arg for a in setter.args.args][2:3]
    # the shared route: __set__ stores self.convert(<its value argument>) with no other branch
    calls = [x for x in ast.walk(setter) if isinstance(x, ast.Call) and text(x.func) == "self.convert"]
    shared = len(calls) == 1 and vp and [text(a) for a in calls[0].args] == vp and not any(isinstance(x, (ast.If, ast.IfExp, ast.Try, ast.Match)) for x in ast.walk(setter))
    n = 0
    seen = set()
    for name, ci in scal.items():
        fam = D.family(ci, "convert")
        h = fam.get("str") if fam else None
        if h is None:
            continue
        n += 1
        if h.qualname in seen:
            continue
        seen.add(h.qualname)
        name = f"{h.cls.name}.convert[str]"
        dec = _entity_decoders(h.ffn)
        if not dec:
            rep.check("T-R10", f"{name}:supplied-text-kept", True, "", tloc(p, h.fn))
        elif shared:
            rep.check("T-R10", f"{name}:supplied-text-kept", False, f"{h.qualname} decodes entity references ({text(dec[0])[:50]}...) and Element.__set__ sends every assigned value through convert(): string values given by the caller (user id, password, account id, memo ...) that contain text like '&amp;' or '&lt;' are stored decoded - the request then says 'a&b' where the caller said 'a&amp;b'", tloc(p, h.fn))
        else:
            rep.note(f"T-R10 undecided: {h.qualname} decodes entities and Element.__set__ is not the plain `self.convert(value)` store; the routes may be told apart")
    rep.floor("T-R10", n, 6, "str readers")


def _resolve_expr(p: Project, modname: str, e):
    """the repo object a dotted expression denotes at module level (ClassInfo / ModRef / ...), or None"""
    from .source import ModRef

    d = dotted(e)
    if d is None:
        return None
    parts = d.split(".")
    cur = p.resolve(modname, parts[0])
    for a in parts[1:]:
        if isinstance(cur, ModRef):
            cur = p.resolve(cur.name, a)
        else:
            return None
    return cur


def t_r4b_guards_constant(p: Project, rep: Report):
    """the switches the limit guards read are declarations, not run-time state"""
    rep.rule("T-R4b", "the attributes the limit guards read on the element type itself (`strict`; `length` / `required` outside the declaration's own __init__) are class-body declarations: no function of the package assigns them on an element class (String.strict = ..., setattr(Types.String, 'strict', ...)) or on `self`/`cls` inside an element type's method - a process-wide switch that a failing call leaves flipped makes every later over-long value pass")
    types = D.element_types(p)
    by_node = {id(ci.node): n for n, ci in types.items()}
    names = {"strict", "length", "required", "valid", "scale", "mapping"}
    sites = 0
    for modname, m in p.modules.items():
        for qn, cls, fn in m.functions():
            in_type = cls is not None and id(cls) in by_node
            for st in ast.walk(fn):
                tgts = []
                if isinstance(st, (ast.Assign, ast.AugAssign, ast.AnnAssign, ast.Delete)):
                    ts = st.targets if isinstance(st, (ast.Assign, ast.Delete)) else [st.target]
                    tgts = [(t.value, t.attr) for t in ts if isinstance(t, ast.Attribute)]
                elif isinstance(st, ast.Call) and text(st.func) in ("setattr", "delattr") and len(st.args) >= 2 and isinstance(st.args[1], ast.Constant):
                    tgts = [(st.args[0], st.args[1].value)]
                for base, attr in tgts:
                    if attr not in names:
                        continue
                    who = None
                    if isinstance(base, ast.Name) and base.id in ("self", "cls") and in_type:
                        if fn.name == "__init__" or attr != "strict" and fn.name in ("__init__", "__set_name__"):
                            continue
                        who = f"{by_node[id(cls)]} (through {base.id})"
                    elif isinstance(base, ast.Call) and text(base.func) in ("type",) and in_type:
                        who = f"{by_node[id(cls)]} (through type(self))"
                    else:
                        r = _resolve_expr(p, modname, base)
                        if isinstance(r, ClassInfo) and id(r.node) in by_node:
                            who = r.name
                    if who is None:
                        continue
                    sites += 1
                    rep.check("T-R4b", f"{who.split(' ')[0]}.{attr}:assigned-in:{modname.split('.')[-1]}.{qn}", False, f"{qn} assigns {who}.{attr} at run time: the guard's switch becomes state shared by every element of that type in the process - a call that raises before restoring it (or another thread) leaves every later value unchecked / checked differently", tloc(p, st))
    rep.check("T-R4b", "guard-switches:declarations-only", sites == 0, "", f"{len(types)} element types, {len(p.modules)} modules searched")


def t_r11_none_only_for_the_empty_text(p: Project, rep: Report):
    """a value that is not the empty text is not read as `nothing there`"""
    rep.rule("T-R11", "the String / NagString / Integer readers return None (through enforce_required) exactly for the EMPTY text: on every path that returns enforce_required(None) the conditions established are an emptiness test of the value as received (value == '', not value, len(value) == 0) - a test of a transformed copy (value.strip(), value.replace(...)) also swallows texts that are not empty: ' ' is a value the writer emits and the element data the document holds, and reading it as None drops an optional element and refuses a required one")
    scal, types = scalar_types(p)
    n = 0
    for name in ("String", "NagString", "Integer"):
        ci = scal[name]
        fam = D.family(ci, "convert")
        h = fam.get("str") if fam else None
        if h is None:
            continue
        vp = h.value_param()
        empties = {(f"'' == {vp}", True), (f"{vp} == ''", True), (f"bool({vp})", False), (f"len({vp}) == 0", True), (f"0 == len({vp})", True), (f"len({vp}) < 1", True), (f"0 < len({vp})", False), (f"len({vp}) > 0", False)}
        rps, _ = h.return_paths()
        for pth, rtxt, sc in rps:
            if rtxt not in ("self.enforce_required(None)", "None"):
                continue
            n += 1
            facts = set(sc.items())
            if facts & empties:
                rep.check("T-R11", f"{name}.convert[str]:None-only-for-empty", True, "", tloc(p, h.fn))
                continue
            about_copy = [a for a, w in sc.items() if vp in a and any(m_ in a for m_ in (".strip(", ".lstrip(", ".rstrip(", ".replace(", ".split(", ".isspace(", ".translate("))]
            if about_copy:
                rep.check("T-R11", f"{name}.convert[str]:None-only-for-empty", False, f"{name}.convert returns None on a path decided by `{about_copy[0][:50]}` - a test of a transformed copy of the text, true for texts that are not empty (' ', '\\t'): whitespace-only element data is read as absent although the writer emits it and the document holds it", tloc(p, h.fn))
            else:
                rep.note(f"T-R11 undecided: {name}.convert returns None under {sorted(sc)[:3]}")
    rep.unit("none_returning_paths", n)
    if n == 0:
        rep.note("T-R11 undecided: no reader path returns enforce_required(None)")
