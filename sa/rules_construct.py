"""Construction rules F-R1..5 (C04): the single funnel and its guards."""
from __future__ import annotations

import ast
from typing import List, Optional

from .cfg import CFG
from .dataflow import Reaching, local_defs, own_nodes, own_statements, params_of
from .match import Expander, is_super_call, norm, passes_star_args, same, text
from .report import Report
from .rules_schema import chains_to_super, loc, reducer
from .schema import BASE, TYPES, Schema
from .source import AnalysisError, ClassInfo, Project, parent


def f_r1_funnel(schema: Schema, rep: Report):
    rep.rule("F-R1", "single funnel: no model class overrides __init__, __new__, _convert or from_etree (unless it delegates to the base on every normally-returning path); _apply_args overrides validate every member")
    n = 0
    for ci in schema.all_aggregate_classes():
        if ci is schema.aggregate:
            continue
        n += 1
        for nm in ("__init__", "__new__", "_convert", "from_etree", "__setattr__"):
            fn = ci.own_func(nm)
            if fn is None:
                if nm in ci.attrs:
                    rep.check("F-R1", f"{ci.name}.{nm}", False, f"{ci.name} rebinds {nm}", loc(ci))
                continue
            ok, why = chains_to_super(fn, nm, star_args=False, ci=ci)
            rep.check("F-R1", f"{ci.name}.{nm}", ok, f"{ci.name} overrides {nm} and {why}: instances can be built without the base checks", loc(ci, fn))
        fn = ci.own_func("_apply_args")
        if fn is not None:
            # members must go through a converter / the base admission test before self.append
            cfg = CFG(fn)
            ex = Expander(fn)
            apps = [c for c in own_nodes(fn) if isinstance(c, ast.Call) and isinstance(c.func, ast.Attribute) and c.func.attr == "append" and ex.t(c.func.value) == "self"]
            ok = bool(apps) or chains_to_super(fn, "_apply_args", star_args=False)[0]
            for a in apps:
                arg = ex.x(a.args[0]) if a.args else None
                good = isinstance(arg, ast.Call) and isinstance(arg.func, ast.Attribute) and arg.func.attr == "convert"
                if not good and isinstance(arg, ast.Name):
                    # the loop variable of `for x in map(<converter>.convert, args)`
                    for lp_ in [x for x in ast.walk(fn) if isinstance(x, ast.For) and isinstance(x.target, ast.Name) and x.target.id == arg.id]:
                        it_ = lp_.iter
                        if isinstance(it_, ast.Call) and isinstance(it_.func, ast.Name) and it_.func.id == "map" and it_.args and isinstance(it_.args[0], ast.Attribute) and it_.args[0].attr == "convert":
                            good = True
                if not good:
                    ok = False
            if chains_to_super(fn, "_apply_args", star_args=False)[0]:
                ok = True
            rep.check("F-R1", f"{ci.name}._apply_args", ok, f"{ci.name}._apply_args appends members that did not pass a converter" if not ok else "", loc(ci, fn))
    rep.unit("model_classes", n)
    rep.floor("F-R1", n, 390, "model classes")


def f_r2_init(schema: Schema, rep: Report):
    rep.rule("F-R2", "Aggregate.__init__: every path to the normal return passes validate_args(*args, **kwargs), the loop that sets every non-list spec attribute through setattr (no handler around it swallows the error), and _apply_args(*args); Element.__set__ stores self.convert(value)")
    p = schema.p
    rel = p.module(BASE).relpath
    from .flat import flat

    fn0 = p.get_function(BASE, "Aggregate.__init__").node
    fn = flat(p, BASE, fn0, schema.aggregate, keep=("validate_args", "_apply_args", "_apply_residual_kwargs"))
    va = fn.args.vararg.arg if fn.args.vararg else None
    kw = fn.args.kwarg.arg if fn.args.kwarg else None
    if va is None or kw is None:
        raise AnalysisError("Aggregate.__init__ no longer takes *args/**kwargs")
    # plain copies of the arguments bound once to a local (`members = tuple(args)`, `unconsumed = dict(kwargs)`) stand for
    # the arguments themselves: same members, same names and values
    copies = {}
    stores_ = {}
    for x_ in ast.walk(fn):
        if isinstance(x_, ast.Name) and isinstance(x_.ctx, ast.Store):
            stores_[x_.id] = stores_.get(x_.id, 0) + 1
    for st_ in ast.walk(fn):
        tg_ = st_.targets[0] if isinstance(st_, ast.Assign) and len(st_.targets) == 1 else (st_.target if isinstance(st_, ast.AnnAssign) and st_.value is not None else None)
        if isinstance(tg_, ast.Name) and stores_.get(tg_.id) == 1:
            t_ = text(st_.value).replace(" ", "")
            if t_ in (f"tuple({va})", f"list({va})", f"{va}[:]"):
                copies[tg_.id] = va
            elif t_ in (f"dict({kw})", f"{kw}.copy()", "{**%s}" % kw, f"dict(**{kw})"):
                copies[tg_.id] = kw
    if copies:
        class _Alias(ast.NodeTransformer):
            def visit_Name(self, node):
                if isinstance(node.ctx, ast.Load) and node.id in copies:
                    return ast.copy_location(ast.Name(id=copies[node.id], ctx=ast.Load()), node)
                return node

        from .dataflow import clone as _clone_fn

        fn = _Alias().visit(_clone_fn(fn))
        ast.fix_missing_locations(fn)
        for x_ in ast.walk(fn):
            for ch_ in ast.iter_child_nodes(x_):
                ch_._parent = x_
    cfg = CFG(fn)
    ex = Expander(fn)

    def self_call(name, need_args=True, need_kwargs=True):
        def pred(c):
            if not (isinstance(c.func, ast.Attribute) and c.func.attr == name and text(c.func.value) == "self"):
                return False
            return passes_star_args(c, va if need_args else None, kw if need_kwargs else None)

        return pred

    via = [n.id for n in cfg.nodes_calling(self_call("validate_args"))]
    ok = bool(via) and cfg.must_pass_through([cfg.exit.id], via)
    rep.check("F-R2", "__init__:validate_args", ok, "an instance can be returned without self.validate_args(*args, **kwargs) having run" if not ok else "", f"{rel}:{fn.lineno}")
    # what is validated is what is applied: neither *args nor **kwargs is re-bound AFTER validate_args has seen them
    # (keys folded to lower case, values normalised ...) - the constraints would have been checked on other names / values
    vcalls = [c_ for c_ in ast.walk(fn) if isinstance(c_, ast.Call) and isinstance(c_.func, ast.Attribute) and c_.func.attr == "validate_args"]
    if vcalls:
        vline = min(c_.lineno for c_ in vcalls)
        def _same_mapping(s_):
            # a plain copy keeps names and values: dict(kwargs) / kwargs.copy() / {**kwargs} / tuple(args) / list(args)
            v_ = getattr(s_, "value", None)
            t_ = text(v_).replace(" ", "") if v_ is not None else ""
            return t_ in (f"dict({kw})", f"{kw}.copy()", "{**%s}" % kw, f"dict(**{kw})", f"tuple({va})", f"list({va})", f"{va}[:]")

        late = [s_ for s_ in ast.walk(fn) if isinstance(s_, (ast.Assign, ast.AnnAssign, ast.AugAssign)) and s_.lineno > vline and any(isinstance(t_, ast.Name) and t_.id in (va, kw) for t_ in (s_.targets if isinstance(s_, ast.Assign) else [s_.target])) and not _same_mapping(s_)]
        rep.check("F-R2", "__init__:validated-arguments-are-the-applied-ones", not late, f"`{text(late[0])[:60]}` re-binds the arguments after validate_args() has judged them: the mutex / group constraints were evaluated on names or values that are not the ones applied (CURRENCY=.., ORIGCURRENCY=.. in upper case count as absent, then both are set)" if late else "", f"{rel}:{(late[0] if late else fn).lineno}")
    via = [n.id for n in cfg.nodes_calling(self_call("_apply_args", True, False))]
    ok = bool(via) and cfg.must_pass_through([cfg.exit.id], via)
    rep.check("F-R2", "__init__:_apply_args", ok, "an instance can be returned without self._apply_args(*args) having run" if not ok else "", f"{rel}:{fn.lineno}")
    # the attribute loop
    loops = [n for n in cfg.nodes if n.kind == "loop" and ex.t(n.stmt.iter) in ("self.spec_no_listaggregates", "self.__class__.spec_no_listaggregates", "self.spec_no_listaggregates.keys()")]
    if not loops and any(isinstance(c, ast.Call) and any(isinstance(a, ast.Name) and a.id in ("self", kw) for a in c.args) and not (isinstance(c.func, ast.Attribute) and text(c.func.value) == "self") and text(c.func) not in ("setattr", "super") for c in own_nodes(fn)):
        rep.note("F-R2 undecided: the attributes are set by a helper that could not be inlined")
        return
    if not loops:
        rep.check("F-R2", "__init__:attribute-loop", False, "no loop over self.spec_no_listaggregates: declared children are not all set through their descriptors", f"{rel}:{fn.lineno}")
        return
    lp = loops[0]
    ok = cfg.must_pass_through([cfg.exit.id], [lp.id])
    rep.check("F-R2", "__init__:attribute-loop-on-every-path", ok, "the attribute loop can be skipped" if not ok else "", f"{rel}:{lp.stmt.lineno}")
    attr = lp.stmt.target.id if isinstance(lp.stmt.target, ast.Name) else None
    sets = [n for n in cfg.nodes_calling(lambda c: isinstance(c.func, ast.Name) and c.func.id == "setattr" and len(c.args) == 3 and text(c.args[0]) == "self" and text(c.args[1]) == attr)]
    if not sets:
        rep.check("F-R2", "__init__:setattr", False, "loop body does not setattr(self, attr, value)", f"{rel}:{lp.stmt.lineno}")
        return
    body_entry = [n for n in cfg.nodes if n.kind == "looptarget" and n.stmt is lp.stmt]
    # from body entry, the back edge to the loop head is reachable only through the setattr node (normal edges)
    ok = cfg.must_pass_through([lp.id], [s.id for s in sets], edge_filter=cfg.normal_only(), start=body_entry[0].id)
    rep.check("F-R2", "__init__:setattr-every-iteration", ok, "an iteration can complete without setting the attribute" if not ok else "", f"{rel}:{sets[0].stmt.lineno}")
    # value provenance: kwargs.pop(attr, None) / kwargs.get(attr) / kwargs[attr]
    reach = Reaching(cfg)
    call = [c for c in sets[0].calls() if isinstance(c.func, ast.Name) and c.func.id == "setattr"][0]
    vals = []
    from .dataflow import resolve_values

    for v in resolve_values(call.args[2], sets[0], reach):
        vals.append(text(v))
    good = {f"{kw}.pop({attr}, None)", f"{kw}.get({attr}, None)", f"{kw}.get({attr})", f"{kw}.pop({attr})", f"{kw}[{attr}]"}
    ok = bool(vals) and all(v in good for v in vals)
    if not ok and vals and set(vals) - {"None"} and all(v in good or v == "None" for v in vals):
        # `kw.pop(attr) if attr in kw else None`: None exactly where the keyword is absent
        tests = {text(norm(t_)) for t_ in [x.test for x in ast.walk(fn) if isinstance(x, (ast.If, ast.IfExp))]}
        ok = bool(tests & {f"{attr} in {kw}", f"{attr} not in {kw}", f"not {attr} in {kw}"})
    rep.check("F-R2", "__init__:value-is-own-kwarg-default-None", ok, f"value set is {vals}; expected the keyword of the same name, None when absent" if not ok else "", f"{rel}:{sets[0].stmt.lineno}")
    # handlers around the setattr must re-raise
    st = sets[0].stmt
    tr = parent(st)
    while tr is not None and tr is not fn:
        if isinstance(tr, ast.Try) and st in ast.walk(tr) and any(st is x or st in ast.walk(x) for x in tr.body):
            for h in tr.handlers:
                hcfg_nodes = [n for n in cfg.nodes if n.kind == "except" and n.stmt is h]
                for hn in hcfg_nodes:
                    r = cfg.reachable(hn.id)
                    swallowed = (lp.id in r) or (cfg.exit.id in r)
                    rep.check("F-R2", f"__init__:handler({ast.unparse(h.type) if h.type else '*'})-reraises", not swallowed, "an exception raised by the descriptor (a violated element constraint) is swallowed and construction continues" if swallowed else "", f"{rel}:{h.lineno}")
        tr = parent(tr)
    # Element.__set__
    el = p.get_class(TYPES, "Element")
    sfn = el.own_func("__set__")
    if sfn is None:
        raise AnalysisError("Element.__set__ not found")
    from .flat import flat as _flat

    sfn = _flat(p, TYPES, sfn, el)
    sp = params_of(sfn)
    stores = [s for s in own_statements(sfn) if isinstance(s, ast.Assign) and isinstance(s.targets[0], ast.Subscript)]
    sx = Expander(sfn)
    def _stored_value(s_):
        """text of what is stored, looking through `value = self.convert(value)` (the parameter re-bound to its conversion)"""
        t_ = sx.t(s_.value)
        if isinstance(s_.value, ast.Name):
            prior = [a_ for a_ in own_statements(sfn) if isinstance(a_, ast.Assign) and len(a_.targets) == 1 and isinstance(a_.targets[0], ast.Name) and a_.targets[0].id == s_.value.id and a_.lineno < s_.lineno]
            if len(prior) == 1:
                t_ = text(prior[0].value)
        return t_

    ok = bool(stores) and all(sx.t(s.targets[0]) == f"{sp[1]}.__dict__[self.name]" and _stored_value(s) == f"self.convert({sp[2]})" for s in stores)
    rep.check("F-R2", "Element.__set__:stores-convert(value)", ok, "the descriptor does not store self.convert(value) under its own name on the instance" if not ok else "", f"{p.module(TYPES).relpath}:{sfn.lineno}")
    # no subclass of Element overrides __set__ / __get__ (Unsupported is not an Element)
    from . import dispatch as D

    for name, ci in D.element_types(p).items():
        for nm in ("__set__", "__set_name__"):
            if ci.own_func(nm) is not None:
                rep.check("F-R2", f"{name}.{nm}:not-overridden", False, f"{name} overrides {nm}; values could be stored without conversion", f"{p.module(TYPES).relpath}:{ci.node.lineno}")


def f_r4_order(schema: Schema, rep: Report):
    rep.rule("F-R4", "reader guards: the keyword store and the list append in the reducer are dominated by a raise on `index <= prev_index unless both are list members` (threaded through the accumulator, starting below 0); a repeated single child is rejected by that guard being strict (<=) or by a separate raise on `key in kwargs`")
    p = schema.p
    rel = p.module(BASE).relpath
    outer, inner, call = reducer(p)
    cfg = CFG(inner)
    ex = Expander(inner, outer)
    params = params_of(inner)
    accum, elem = params[0], params[1]
    defs = local_defs(inner)
    # names unpacked from the accumulator, by position
    unpack = {}
    for nm, ds in defs.items():
        for d in ds:
            if d.kind == "unpack" and isinstance(d.value, ast.Name) and d.value.id == accum:
                unpack[d.index] = nm
    if len(unpack) < 3:
        raise AnalysisError("F-R4: reducer does not unpack (args, kwargs, prev_index, ...) from its accumulator")
    args_n, kwargs_n, prev_n = unpack[0], unpack[1], unpack[2]
    prevlist_n = unpack.get(3)  # None: the accumulator does not remember whether the previous child was a list member
    # the position variable
    idxvars = [nm for nm, ds in defs.items() for d in ds if d.kind == "assign" and isinstance(d.value, ast.Call) and isinstance(d.value.func, ast.Attribute) and d.value.func.attr == "index"]
    if not idxvars:
        raise AnalysisError("F-R4: no position variable in the reducer")
    idx = idxvars[0]
    # stores
    kwstores = [n for n in cfg.nodes if isinstance(n.stmt, ast.Assign) and any(isinstance(t, ast.Subscript) and text(t.value) == kwargs_n for t in n.stmt.targets)]
    appends = cfg.nodes_calling(lambda c: isinstance(c.func, ast.Attribute) and c.func.attr == "append" and text(c.func.value) == args_n)
    if not kwstores or not appends:
        raise AnalysisError("F-R4: reducer has no keyword store / list append")
    # order guard, decided on the enumerated paths (temporaries expanded): wherever a value is stored, the conditions
    # established so far imply `prev < index` or `both this and the previous child are list members`
    from . import paths as PT

    def _atom_of(src: str):
        # the condition as the path engine itself would record it (locals expanded, and/or/not kept as structure)
        return PT.cond_of(ast.parse(src, mode="eval").body, ex.x)

    ppl = PT.enumerate_paths(inner, None, ex)
    pcfg = ppl.cfg
    islist_names = [nm for nm, ds in defs.items() for d in ds if d.kind == "assign" and "listaggregates" in text(ex.x(d.value))]
    after = _atom_of(f"{prev_n} < {idx}")
    not_before = _atom_of(f"{idx} <= {prev_n}")
    not_before = PT.Cond("not", [not_before])  # `not (idx <= prev)` == prev < idx ; kept for symmetry of spellings
    weak_after = PT.Cond("not", [_atom_of(f"{idx} < {prev_n}")])  # prev <= idx
    both_list = PT.Cond("and", [_atom_of(islist_names[0]), _atom_of(prevlist_n)]) if islist_names and prevlist_n is not None else None
    strict_goal = PT.any_of(after, *( [both_list] if both_list is not None else [] ))
    weak_goal = PT.any_of(after, weak_after, *( [both_list] if both_list is not None else [] ))
    keytxt = text(ast.parse(f"{elem}.tag.lower()", mode="eval").body)
    dup_atom = _atom_of(f"{keytxt} in {kwargs_n}")
    pstores = []
    for sn in kwstores + appends:
        pn = [x for x in pcfg.nodes if x.stmt is sn.stmt and x.kind == sn.kind]
        if pn:
            pstores.append((sn, pn[0]))
    if not pstores:
        raise AnalysisError("F-R4: stores not found on the enumerated paths")
    any_order_test = bool((after.atoms() | weak_after.atoms()) & set(PT.atoms_of(ppl)))
    if not any_order_test:
        rep.check("F-R4", "update_args:order-guard", False, f"no raise guarded by `{idx} <= {prev_n}` in the reducer: out-of-order children are accepted", f"{rel}:{inner.lineno}")
        return
    strict = True
    # does the order test exempt anything (list members after list members)?  Then the position cursor can move BACK
    # inside a run of list members, and a strict test against the predecessor no longer rules out a repeat further on
    # (LIST_A, X, LIST_B, LIST_A, X): only a raise on `key in kwargs` does
    exempt_exists = False
    for sn, pn in pstores:
        for q in ppl:
            cb = q.conds_before(pn.id)
            if cb is not None and both_list is not None and PT.implies(cb, after) is not True and PT.implies(cb, strict_goal) is not False:
                exempt_exists = True
    for sn, pn in pstores:
        kind = "kwargs" if sn in kwstores else "args"
        ordered = True
        dup_ok_here = True
        undecided = False
        for q in ppl:
            cb = q.conds_before(pn.id)
            if cb is None:
                continue
            r_strict = PT.implies(cb, strict_goal)
            if r_strict is None:
                undecided = True
                continue
            if r_strict is False:
                r_weak = PT.implies(cb, weak_goal)
                if r_weak is False:
                    ordered = False
                elif kind == "kwargs":
                    strict = False
                    if PT.implies(cb, PT.Cond("not", [dup_atom])) is not True:
                        dup_ok_here = False
            elif kind == "kwargs" and exempt_exists and PT.implies(cb, PT.Cond("not", [dup_atom])) is not True:
                dup_ok_here = False
        if undecided and ordered:
            rep.note(f"F-R4 undecided: too many conditions before the {kind} store")
            continue
        rep.check("F-R4", f"update_args:order-guard-dominates:{kind}", ordered, "a child value is stored on a path on which neither `previous position < this position` nor `both are list members` has been established: out-of-order children are accepted (or the order test is exempted by something else)" if not ordered else "", f"{rel}:{sn.stmt.lineno}")
        if kind == "kwargs":
            rep.check("F-R4", "update_args:duplicate-single-child-rejected", dup_ok_here, "a second occurrence of a non-repeatable child is accepted: no raise on `key in kwargs` precedes the store, and the order test alone does not rule a repeat out (it is not strict, or it exempts runs of list members, inside which the position moves backwards: LIST_A, X, LIST_B, LIST_A, X)" if not dup_ok_here else ("strict order test" if strict else "separate duplicate raise"), f"{rel}:{sn.stmt.lineno}")
    # the accumulator is handed back unchanged only for a tag the class does not declare (failed lookup); a DECLARED
    # child that is skipped this way leaves no trace - its position is not recorded and it is not counted, so a
    # duplicate, an out-of-order sibling or a second member of a mutex group after it is accepted
    skipped = None
    for q in ppl:
        if q.outcome != "return" or not (isinstance(q.value, ast.Name) and q.value.id == accum):
            continue
        facts = PT.simple_conds(q.conds)
        unknown = any((a.startswith("raises(") and ".index(" in a and w is True) for a, w in facts.items()) or any((" in " in a and ("spec" in a) and w is False) for a, w in facts.items())
        if not unknown:
            skipped = facts
    rep.check("F-R4", "update_args:declared-children-always-recorded", skipped is None, f"a path returns the accumulator unchanged although the tag was found in the spec (taken when {dict(list(skipped.items())[-3:]) if skipped else ''}): the child is neither stored nor counted, so a second occurrence, an earlier sibling or another member of an exclusive group after it is accepted" if skipped is not None else "", f"{rel}:{inner.lineno}")
    # state threading: returned tuple carries (args, kwargs, index, is_listmember); initial prev < 0
    rets = [n for n in cfg.nodes if n.kind == "return"]
    for rn in rets:
        v = rn.stmt.value
        if isinstance(v, ast.Name) and v.id == accum:
            continue  # unknown-tag branch: accumulator unchanged (C07)
        ok = isinstance(v, ast.Tuple) and len(v.elts) == len(unpack) and text(v.elts[0]) == args_n and text(v.elts[1]) == kwargs_n and text(v.elts[2]) == idx
        if ok and len(v.elts) > 3:
            islist = [nm for nm, ds in defs.items() for d in ds if d.kind == "assign" and "listaggregates" in text(ex.x(d.value))]
            ok = bool(islist) and text(v.elts[3]) == islist[0]
        rep.check("F-R4", "update_args:threads-position", ok, f"returns {ast.unparse(v) if v else None}; the next step must see this child's position as prev_index" if not ok else "", f"{rel}:{rn.stmt.lineno}")
    exo = Expander(outer)
    init = exo.x(call.args[2]) if len(call.args) > 2 else None
    ok = isinstance(init, ast.Tuple) and len(init.elts) == len(unpack) and text(init.elts[0]) == "[]" and text(init.elts[1]) == "{}" and isinstance(init.elts[2], ast.UnaryOp) and (len(init.elts) < 4 or text(init.elts[3]) == "False")
    rep.check("F-R4", "_convert:initial-accumulator", ok, f"initial accumulator is {ast.unparse(init) if init is not None else None}; expected ([], {{}}, <negative>, False)" if not ok else "", f"{rel}:{call.lineno}")
    # cls(*args, **kwargs) built from exactly the two accumulated collections
    rets = [n for n in own_nodes(outer) if isinstance(n, ast.Return) and isinstance(n.value, ast.Call) and n.value.args or (isinstance(n, ast.Return) and isinstance(n.value, ast.Call) and n.value.keywords)]
    for r in rets:
        v = r.value
        stars = [a for a in v.args if isinstance(a, ast.Starred)]
        dstars = [k for k in v.keywords if k.arg is None]
        ok = len(stars) == 1 and len(dstars) == 1 and len(v.args) == 1 and len(v.keywords) == 1
        syn_ = getattr(call, "_synthetic", None)
        if ok and syn_ is not None:
            # loop form: the two collections the loop fills are the ones handed to the constructor
            ok = text(stars[0].value) == syn_["args"] and text(dstars[0].value) == syn_["kwargs"]
        elif ok:
            # both come from the reduce result [:2]
            odefs = local_defs(outer)
            a, k = text(stars[0].value), text(dstars[0].value)
            da = [d for d in odefs.get(a, []) if d.kind == "unpack"]
            dk = [d for d in odefs.get(k, []) if d.kind == "unpack"]
            ok = bool(da) and bool(dk) and da[0].index == 0 and dk[0].index == 1 and (text(da[0].value).startswith(text(call)) or exo.t(da[0].value).startswith(exo.t(call)))
        rep.check("F-R4", "_convert:instance-from-accumulated-args", ok, f"returns {ast.unparse(v)}; expected cls(*args, **kwargs) with both taken from the reduce() result" if not ok else "", f"{rel}:{r.lineno}")


def f_r5_counting(schema: Schema, rep: Report):
    rep.rule("F-R5", "validate_args (helpers and predicates inlined): for every group of cls.optionalMutexes it raises exactly when more than one member is supplied, for every group of cls.requiredMutexes exactly when the number supplied is not one; `supplied` = the keyword value is not None; decided by the path conditions between the loop over the groups and the raise")
    from . import paths as PT
    from .flat import flat
    import re as _re

    p = schema.p
    rel = p.module(BASE).relpath
    fn0 = p.get_function(BASE, "Aggregate.validate_args").node
    fn = flat(p, BASE, fn0, schema.aggregate, depth=3)
    ex = Expander(fn)
    kwname = fn0.args.kwarg.arg if fn0.args.kwarg else None
    cls = params_of(fn0)[0]
    pths = PT.enumerate_paths(fn, expander=ex)
    cfg = pths.cfg
    found = {}
    for loop in [n for n in cfg.nodes if n.kind == "loop" and hasattr(n.stmt, "iter")]:
        it = ex.t(loop.stmt.iter)
        m = _re.fullmatch(rf"{cls}\.(optionalMutexes|requiredMutexes)", it)
        if not m:
            continue
        which = m.group(1)
        group = loop.stmt.target.id if isinstance(loop.stmt.target, ast.Name) else None
        # outcomes of one iteration: raise, or back to the loop head / onwards
        seg = []  # (conds since loop head, outcome)
        for pth in pths:
            if loop.id not in pth.marks:
                continue
            lo = pth.marks[loop.id]
            # conditions of this loop's (first) iteration only: stop where the path leaves the loop statement
            hi = len(pth.conds)
            for j in cfg.nodes:
                if j.stmt is loop.stmt and j.kind == "join" and j.label in ("after-loop", "loop-else") and j.id in pth.marks:
                    hi = min(hi, pth.marks[j.id])
            conds = pth.conds[lo:hi]
            # cut at the first return to the loop (conditions of later loops do not belong here)
            raised = pth.outcome == "raise" and any(cfg.nodes[i].stmt is not None and _inside(cfg.nodes[i].stmt, loop.stmt) for i in pth.nodes[-2:])
            seg.append((conds, "raise" if raised else "continue"))
        atoms = set()
        for conds, _ in seg:
            for c, _w in conds:
                atoms |= c.atoms()
        # the count: sum([P(m) for m in G]) / sum(P(m) for m in G) / sum(1 for m in G if P(m)) / len([m for m in G if P(m)])
        def _count_parts(call_):
            if not (isinstance(call_, ast.Call) and isinstance(call_.func, ast.Name) and call_.func.id in ("sum", "len") and len(call_.args) == 1):
                return None
            comp = call_.args[0]
            if not (isinstance(comp, (ast.ListComp, ast.GeneratorExp)) and len(comp.generators) == 1 and isinstance(comp.generators[0].target, ast.Name)):
                return None
            g_ = comp.generators[0]
            var_ = g_.target.id
            if call_.func.id == "sum" and not g_.ifs:
                return comp.elt, var_, text(g_.iter)
            if len(g_.ifs) == 1 and ((call_.func.id == "len" and isinstance(comp.elt, ast.Name) and comp.elt.id == var_) or (call_.func.id == "sum" and isinstance(comp.elt, ast.Constant) and comp.elt.value == 1)):
                return g_.ifs[0], var_, text(g_.iter)
            return None

        a = None
        parts = None
        for a_ in sorted(atoms):
            try:
                tree_ = ast.parse(a_, mode="eval").body
            except SyntaxError:
                continue
            for x in ast.walk(tree_):
                pr_ = _count_parts(x)
                if pr_ is not None:
                    a, parts, cexpr = a_, pr_, text(x)
                    break
            if a is not None:
                break
        if a is None:
            rep.note(f"F-R5 undecided for {which}: no count predicate recognised among {sorted(atoms)[:4]}")
            continue
        pred_, var, grp = parts
        pt_ = _re.sub(rf"\b{var}\b", "m", text(pred_))
        supplied_forms = (f"{kwname}.get(m, None) is not None", f"{kwname}.get(m) is not None", f"{kwname}[m] is not None", f"m in {kwname} and {kwname}[m] is not None", f"None is not {kwname}.get(m, None)", f"None is not {kwname}.get(m)")
        presence_forms = (f"m in {kwname}", f"m in {kwname}.keys()")
        truthy_forms = (f"{kwname}.get(m, None)", f"{kwname}.get(m)", f"bool({kwname}.get(m, None))", f"bool({kwname}.get(m))", f"{kwname}[m]")
        if grp != group:
            rep.check("F-R5", f"validate_args:{which}:counts-supplied-members", False, f"the count ranges over {grp}, not over the group {group}", f"{rel}:{loop.stmt.lineno}")
            continue
        if pt_ in presence_forms:
            rep.check("F-R5", f"validate_args:{which}:counts-supplied-members", False, f"group members are counted by `{text(pred_)}` (keyword present), not by their value: a member passed explicitly as None counts as supplied - an exactly-one group is satisfied by nothing at all, and a valid instance with one member and an explicit None is refused", f"{rel}:{loop.stmt.lineno}")
            continue
        if pt_ in truthy_forms:
            rep.check("F-R5", f"validate_args:{which}:counts-supplied-members", False, f"group members are counted by the truth of `{text(pred_)}`: a member supplied with a falsy value (0, False, '') is not counted, so two members of an at-most-one group can be set", f"{rel}:{loop.stmt.lineno}")
            continue
        if pt_ not in supplied_forms:
            rep.note(f"F-R5 undecided for {which}: counted condition `{text(pred_)}` not understood")
            continue
        rep.check("F-R5", f"validate_args:{which}:counts-supplied-members", True, "", f"{rel}:{loop.stmt.lineno}")
        kind = None
        forms = {f"1 < {cexpr}": ("at-most-one", False), f"{cexpr} < 2": ("at-most-one", True), f"1 == {cexpr}": ("exactly-one", True), f"{cexpr} == 1": ("exactly-one", True),
                 f"{cexpr} in (0, 1)": ("at-most-one", True)}
        if a not in forms:
            rep.check("F-R5", f"validate_args:{which}-predicate", False, f"{which} is checked with `{a.replace(cexpr, 'count')}`; expected {'count <= 1' if which == 'optionalMutexes' else 'count == 1'}", f"{rel}:{loop.stmt.lineno}")
            continue
        kind, ok_when = forms[a]
        want = "at-most-one" if which == "optionalMutexes" else "exactly-one"
        problems = []
        if kind != want:
            problems.append(f"{which} is checked with the {kind} predicate; expected {want}")
        for val in (True, False):
            outs = set()
            for conds, outcome in seg:
                consistent = True
                mentioned = False
                for c, w in conds:
                    if c.atoms() == {a}:
                        mentioned = True
                        if c.ev({a: val}) != w:
                            consistent = False
                if consistent and mentioned:
                    outs.add(outcome)
            accept = (val == ok_when)
            if accept and "raise" in outs:
                problems.append("a group that satisfies the predicate still raises")
            if not accept and outs - {"raise"}:
                problems.append("a group that violates the predicate does not raise on every path")
            if not accept and not outs:
                problems.append("no path raises for a violating group")
        found[which] = True
        rep.check("F-R5", f"validate_args:{which}-predicate", not problems, "; ".join(problems), f"{rel}:{loop.stmt.lineno}")
    for which in ("optionalMutexes", "requiredMutexes"):
        if which not in found and not any(o.rule == "F-R5" and which in o.construct for o in rep.obligations):
            # is the list read at all?
            reads = [n for n in ast.walk(fn) if isinstance(n, ast.Attribute) and n.attr == which]
            if not reads:
                rep.check("F-R5", f"validate_args:{which}-predicate", False, f"{which} is never checked", f"{rel}:{fn0.lineno}")
            else:
                rep.note(f"F-R5 undecided: {which} is read but the counting loop was not recognised")


def _inside(node, container) -> bool:
    return any(x is node for x in ast.walk(container))
