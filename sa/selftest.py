"""E8 - self-test of the analyser (thorough tier): seeded faults must be reported, benign edits
must stay silent.  Variants are in-memory overlays of the working tree; nothing is written to
disk, nothing is executed.  A missed fault or an alarming benign edit is an ANALYSIS-ERROR of the
checker, never a property verdict."""
from __future__ import annotations

import concurrent.futures as cf
import json
import os
import sys
import time
from typing import Dict, List, Optional

from . import report as R
from .source import AnalysisError, Project, repo_root


def _apply(files: Dict[str, str], edits) -> Optional[Dict[str, str]]:
    """edits: list of (relpath, old, new[, count]); returns overlay or None if an anchor text is gone"""
    overlay: Dict[str, str] = {}
    for e in edits:
        rel, old, new = e[0], e[1], e[2]
        count = e[3] if len(e) > 3 else 1
        src = overlay.get(rel, files.get(rel))
        if src is None or src.count(old) != count:
            return None
        overlay[rel] = src.replace(old, new)
    return overlay


def _violation_keys(prop: str, project: Project):
    from .check import load

    mod = load(prop)
    rep = R.Report(prop, "thorough")
    mod.run(project, rep)
    return {v.key for v in rep.violations}


def _run_variant(args):
    mid, prop, edits, kind, root = args
    try:
        base = Project(root)
        if isinstance(edits, dict):
            from .corpus import apply_patch

            overlay = apply_patch(base.files, edits["patch"])
        else:
            overlay = _apply(base.files, edits)
        if overlay is None:
            return mid, prop, kind, "not-applicable", []
        for rel, txt in overlay.items():
            compile(txt, rel, "exec")
        try:
            base_keys = _violation_keys(prop, base)
        except AnalysisError as e:
            return mid, prop, kind, "baseline-analysis-error", [str(e)]
        try:
            keys = _violation_keys(prop, Project(root, overlay))
        except AnalysisError as e:
            return mid, prop, kind, "analysis-error", [str(e)]
        new = sorted(keys - base_keys)
        return mid, prop, kind, ("reported" if new else "silent"), new[:5]
    except Exception as e:  # pragma: no cover
        import traceback

        return mid, prop, kind, "crash", [traceback.format_exc()[-800:]]


def catalogue():
    from . import mutants

    return mutants.MUTANTS


def run_for(prop: Optional[str], jobs: int = 16, strict: bool = True, corpora: bool = True) -> dict:
    """run every catalogue entry that names `prop` (or all when prop is None)"""
    root = str(repo_root())
    work = []
    for m in catalogue():
        for pr in m["props"]:
            if prop is None or pr == prop:
                work.append((m["id"], pr, m["edits"], m["kind"], root))
    if corpora:
        from .corpus import corpus_variants

        for m in corpus_variants(prop):
            for pr in m["props"]:
                work.append((m["id"], pr, {"patch": m["patch"]}, m["kind"], root))
    t0 = time.time()
    results = []
    if work:
        with cf.ProcessPoolExecutor(max_workers=min(jobs, len(work))) as ex:
            results = list(ex.map(_run_variant, work))
    summary = {"variants": len(results), "faults_applied": 0, "faults_reported": 0, "benign_applied": 0, "benign_silent": 0,
               "not_applicable": 0, "wall_s": 0.0, "missed": [], "false_alarms": [], "details": []}
    problems = []
    for mid, pr, kind, outcome, info in results:
        summary["details"].append({"id": mid, "property": pr, "kind": kind, "outcome": outcome, "reported": info[:2]})
        if outcome in ("not-applicable", "baseline-analysis-error"):
            summary["not_applicable"] += 1
            continue
        if kind == "declined":
            summary.setdefault("declined_out_of_reach", []).append(f"{mid}/{pr}:{outcome}")
            continue
        if kind == "fault":
            summary["faults_applied"] += 1
            if outcome == "reported":
                summary["faults_reported"] += 1
            elif outcome == "analysis-error":
                # not a silent pass: the analyser refused the variant (exit 2 territory); recorded, not fatal
                summary.setdefault("faults_refused", []).append(f"{mid}/{pr}")
            else:
                summary["missed"].append(f"{mid}/{pr}:{outcome}")
                problems.append(f"seeded fault {mid} ({pr}) was not reported as a violation: {outcome} {info[:1]}")
        else:
            summary["benign_applied"] += 1
            if outcome == "silent":
                summary["benign_silent"] += 1
            else:
                summary["false_alarms"].append(f"{mid}/{pr}:{outcome}")
                problems.append(f"benign edit {mid} ({pr}) made the check alarm: {outcome} {info[:2]}")
    summary["wall_s"] = round(time.time() - t0, 2)
    if problems and strict:
        raise AnalysisError("self-test failed: " + "; ".join(problems[:6]))
    return summary


def crosscheck_schema() -> dict:
    """compare the reconstructed schema with the interpreter's view of the imported package.
    This checks the ANALYSER (trusted base), it is not an obligation of any property: it runs the
    repo's import machinery in a subprocess and never feeds it an input."""
    import subprocess

    from .schema import Schema, dump

    root = str(repo_root())
    static = dump(Schema(Project(root)))
    code = r"""
import json, sys
sys.path.insert(0, %r)
import ofxtools.models as M
from ofxtools.models.base import Aggregate
out = {}
for n in dir(M):
    c = getattr(M, n)
    if isinstance(c, type) and issubclass(c, Aggregate):
        out[n] = {"spec": [[k, type(v).__name__, bool(getattr(v, "required", False))] for k, v in c.spec.items()],
                  "optionalMutexes": [list(g) for g in c.optionalMutexes], "requiredMutexes": [list(g) for g in c.requiredMutexes],
                  "mro": [k.__name__ for k in c.__mro__]}
print(json.dumps(out))
""" % root
    try:
        res = subprocess.run([sys.executable, "-c", code], capture_output=True, text=True, timeout=120, cwd="/")
        if res.returncode != 0:
            return {"status": "skipped", "reason": "package does not import: " + res.stderr[-300:]}
        runtime = json.loads(res.stdout)
    except Exception as e:  # pragma: no cover
        return {"status": "skipped", "reason": repr(e)}
    mism = []
    for n in sorted(set(static) | set(runtime)):
        if n not in static or n not in runtime:
            mism.append(f"{n}: only in {'static' if n in static else 'runtime'}")
            continue
        s, r = static[n], runtime[n]
        if [[x["name"], x["kind"], x["required"]] for x in s["spec"]] != r["spec"]:
            mism.append(f"{n}: spec differs")
        if s["optionalMutexes"] != r["optionalMutexes"] or s["requiredMutexes"] != r["requiredMutexes"]:
            mism.append(f"{n}: mutexes differ")
        if s["mro"] != r["mro"]:
            mism.append(f"{n}: mro differs")
    if mism:
        raise AnalysisError(f"analyser cross-check: reconstructed schema differs from the interpreter's for {len(mism)} classes: {mism[:5]}")
    return {"status": "agrees", "classes": len(static), "children": sum(len(v["spec"]) for v in static.values())}


def main(argv=None):
    import argparse

    ap = argparse.ArgumentParser()
    ap.add_argument("prop", nargs="?", default=None)
    ap.add_argument("--jobs", type=int, default=16)
    ap.add_argument("--no-corpora", action="store_true")
    a = ap.parse_args(argv)
    s = run_for(a.prop.upper() if a.prop else None, a.jobs, strict=False, corpora=not a.no_corpora)
    for d in s["details"]:
        flag = ""
        if d["kind"] == "fault" and d["outcome"] != "reported" and d["outcome"] != "not-applicable":
            flag = "  <-- MISSED"
        if d["kind"] == "benign" and d["outcome"] != "silent" and d["outcome"] != "not-applicable":
            flag = "  <-- FALSE ALARM"
        print(f"{d['id']:40s} {d['property']} {d['kind']:6s} {d['outcome']:16s} {d['reported'][:1]}{flag}")
    print({k: v for k, v in s.items() if k != "details"})
    return 0 if not s["missed"] and not s["false_alarms"] else 2


if __name__ == "__main__":
    sys.exit(main())
