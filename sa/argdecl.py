"""Option declarations of an argparse-building module, by abstract interpretation of the declaring code.

`add_argument` calls are collected with their flags / dest / action / default EVALUATED, not read off the text:
loops over constant tuples are unrolled, `*flags` and `**options` are expanded from the constants they are bound to,
and module-level wrapper functions (`_add_switch(group, *flags, help=..., action='store_true', **kw)`) are
interpreted with the arguments of each call site.  Nothing is executed; values are the constants the evaluator of
`source.Project.ev` can fold.  A declaration whose flags cannot be folded is reported as unresolved (never guessed)."""
from __future__ import annotations

import ast
from typing import Dict, List, Optional

from .source import UNK, Func, Project


class Decl:
    __slots__ = ("dest", "action", "has_default", "default", "call", "resolved", "via")

    def __init__(self, dest, action, has_default, default, call, resolved, via):
        self.dest, self.action, self.has_default, self.default, self.call, self.resolved, self.via = dest, action, has_default, default, call, resolved, via

    def __repr__(self):
        return f"<decl {self.dest} action={self.action} default={'-' if not self.has_default else self.default!r} resolved={self.resolved}>"


_NODEFAULT = object()


def _is_const(v) -> bool:
    if v is UNK:
        return False
    if isinstance(v, (str, int, float, bool, type(None))):
        return True
    if isinstance(v, (list, tuple)):
        return all(_is_const(x) for x in v)
    if isinstance(v, dict):
        return all(_is_const(k) for k in v)
    return False


def _contains_add_argument(fn, p: Project, modname: str, depth=3, _seen=None) -> bool:
    seen = _seen if _seen is not None else set()
    if id(fn) in seen or depth < 0:
        return False
    seen.add(id(fn))
    for n in ast.walk(fn):
        if isinstance(n, ast.Call):
            if isinstance(n.func, ast.Attribute) and n.func.attr == "add_argument":
                return True
            if isinstance(n.func, ast.Name):
                t = p.resolve(modname, n.func.id)
                if isinstance(t, Func) and t.module == modname and _contains_add_argument(t.node, p, modname, depth - 1, seen):
                    return True
    return False


def declared_options(p: Project, modname: str) -> List[Decl]:
    m = p.module(modname)
    decls: Dict[tuple, Decl] = {}
    wrappers_cache: Dict[str, bool] = {}

    def is_wrapper(name: str) -> Optional[ast.FunctionDef]:
        t = p.resolve(modname, name)
        if isinstance(t, Func) and t.module == modname:
            if name not in wrappers_cache:
                wrappers_cache[name] = _contains_add_argument(t.node, p, modname)
            return t.node if wrappers_cache[name] else None
        return None

    def ev(e, env):
        try:
            return p.ev(m, e, env)
        except Exception:
            return UNK

    def record(call: ast.Call, env, via):
        flags = []
        resolved = True
        for a in call.args:
            if isinstance(a, ast.Starred):
                v = ev(a.value, env)
                if isinstance(v, (list, tuple)) and _is_const(v):
                    flags.extend(v)
                else:
                    resolved = False
            else:
                v = ev(a, env)
                if isinstance(v, str):
                    flags.append(v)
                else:
                    resolved = False
        kw: Dict[str, object] = {}
        for k in call.keywords:
            if k.arg is None:
                v = ev(k.value, env)
                if isinstance(v, dict) and all(isinstance(x, str) for x in v):
                    kw.update(v)
                else:
                    resolved = False
            else:
                kw[k.arg] = ev(k.value, env)
        dest = None
        if isinstance(kw.get("dest"), str):
            dest = kw["dest"]
        elif "dest" in kw:
            resolved = False
        else:
            longs = [f for f in flags if isinstance(f, str) and f.startswith("--")]
            if longs:
                dest = longs[0][2:].replace("-", "_")
            elif flags and isinstance(flags[0], str) and not flags[0].startswith("-"):
                dest = flags[0]
            elif flags and isinstance(flags[0], str):
                dest = flags[0].lstrip("-")
        action = kw.get("action", "store")
        if not isinstance(action, str):
            # a custom Action class, or unknown
            action = "<custom>" if "action" in kw and action is not UNK and not _is_const(action) else ("?" if action is UNK else str(action))
            if action == "?":
                resolved = False
        has_default = "default" in kw
        default = kw.get("default", _NODEFAULT)
        if has_default and not _is_const(default):
            default = UNK
        if dest is None:
            resolved = False
        key = (id(call), dest if resolved else None)
        d = Decl(dest, action, has_default, default, call, resolved, via)
        if key not in decls:
            decls[key] = d

    def bind(fn: ast.FunctionDef, call: ast.Call, env) -> Optional[dict]:
        a = fn.args
        new: Dict[str, object] = {}
        pos = []
        for x in call.args:
            if isinstance(x, ast.Starred):
                v = ev(x.value, env)
                if isinstance(v, (list, tuple)):
                    pos.extend(v)
                else:
                    return None
            else:
                pos.append(ev(x, env))
        names = [q.arg for q in a.posonlyargs + a.args]
        for i, nm in enumerate(names):
            if i < len(pos):
                new[nm] = pos[i]
        rest = pos[len(names):]
        if a.vararg is not None:
            new[a.vararg.arg] = tuple(rest)
        elif rest:
            return None
        extra: Dict[str, object] = {}
        kwnames = names + [q.arg for q in a.kwonlyargs]
        for k in call.keywords:
            if k.arg is None:
                v = ev(k.value, env)
                if isinstance(v, dict):
                    for kk, vv in v.items():
                        (new if kk in kwnames else extra)[kk] = vv
                else:
                    return None
            elif k.arg in kwnames:
                new[k.arg] = ev(k.value, env)
            else:
                extra[k.arg] = ev(k.value, env)
        if a.kwarg is not None:
            new[a.kwarg.arg] = extra
        elif extra:
            return None
        # defaults
        dpos = a.defaults
        for nm, dflt in zip(names[len(names) - len(dpos):], dpos):
            if nm not in new:
                new[nm] = ev(dflt, {})
        for q, dflt in zip(a.kwonlyargs, a.kw_defaults):
            if q.arg not in new and dflt is not None:
                new[q.arg] = ev(dflt, {})
        for nm in kwnames:
            new.setdefault(nm, UNK)
        return new

    def bind_target(t, v, env):
        if isinstance(t, ast.Name):
            env[t.id] = v
        elif isinstance(t, (ast.Tuple, ast.List)):
            if isinstance(v, (list, tuple)) and len(v) == len(t.elts):
                for e, x in zip(t.elts, v):
                    bind_target(e, x, env)
            else:
                for e in t.elts:
                    bind_target(e, UNK, env)

    def handle_calls(node, env, depth, via):
        for c in ast.walk(node):
            if not isinstance(c, ast.Call):
                continue
            if isinstance(c.func, ast.Attribute) and c.func.attr == "add_argument":
                record(c, env, via)
            elif isinstance(c.func, ast.Name) and depth > 0:
                w = is_wrapper(c.func.id)
                if w is not None:
                    new = bind(w, c, env)
                    if new is not None:
                        run_block(w.body, new, depth - 1, via + [w.name])

    def run_block(stmts, env, depth, via):
        for st in stmts:
            if isinstance(st, (ast.FunctionDef, ast.AsyncFunctionDef, ast.ClassDef)):
                continue
            if isinstance(st, ast.Assign):
                handle_calls(st.value, env, depth, via)
                v = ev(st.value, env)
                for t in st.targets:
                    bind_target(t, v, env)
            elif isinstance(st, ast.AnnAssign):
                if st.value is not None:
                    handle_calls(st.value, env, depth, via)
                    bind_target(st.target, ev(st.value, env), env)
            elif isinstance(st, ast.For):
                it = ev(st.iter, env)
                if isinstance(it, dict):
                    it = list(it.keys())
                if isinstance(it, (list, tuple)) and len(it) <= 64:
                    for x in it:
                        bind_target(st.target, x, env)
                        run_block(st.body, env, depth, via)
                else:
                    bind_target(st.target, UNK, env)
                    run_block(st.body, env, depth, via)
                run_block(st.orelse, env, depth, via)
            elif isinstance(st, (ast.If, ast.While)):
                handle_calls(st.test, env, depth, via)
                run_block(st.body, env, depth, via)
                run_block(st.orelse, env, depth, via)
            elif isinstance(st, ast.With):
                for it in st.items:
                    handle_calls(it.context_expr, env, depth, via)
                run_block(st.body, env, depth, via)
            elif isinstance(st, ast.Try):
                run_block(st.body, env, depth, via)
                for h in st.handlers:
                    run_block(h.body, env, depth, via)
                run_block(st.orelse, env, depth, via)
                run_block(st.finalbody, env, depth, via)
            else:
                handle_calls(st, env, depth, via)

    for qn, cls, fn in m.functions():
        if cls is not None:
            continue
        if not _contains_add_argument(fn, p, modname, depth=0):
            # only functions that declare something themselves (wrappers are entered from their call sites too)
            if not any(isinstance(n, ast.Call) and isinstance(n.func, ast.Name) and is_wrapper(n.func.id) is not None for n in ast.walk(fn)):
                continue
        env = {a.arg: UNK for a in fn.args.posonlyargs + fn.args.args + fn.args.kwonlyargs}
        if fn.args.vararg:
            env[fn.args.vararg.arg] = UNK
        if fn.args.kwarg:
            env[fn.args.kwarg.arg] = UNK
        run_block(fn.body, env, 3, [fn.name])
    out = list(decls.values())
    # a call site that was resolved through at least one caller: its stand-alone (parameter-dependent) reading is dropped
    resolved_sites = {id(d.call) for d in out if d.resolved}
    return [d for d in out if d.resolved or id(d.call) not in resolved_sites]
