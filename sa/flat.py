"""Flattened (canonical) views of functions: private helpers of the same module / class inlined,
accumulate-loops turned into comprehensions (see canon.py)."""
from __future__ import annotations

import ast
from typing import Iterable, Optional

from . import canon
from .source import ClassInfo, Func, Project


def resolver(p: Project, modname: str, ci: Optional[ClassInfo] = None, private_only: bool = True, scope_fn=None):
    nested = {}
    if scope_fn is not None:
        for st in ast.walk(scope_fn):
            if isinstance(st, ast.FunctionDef) and st is not scope_fn:
                nested[st.name] = st

    def res(call: ast.Call):
        f = call.func
        name = None
        if isinstance(f, ast.Name) and f.id in nested:
            return nested[f.id], None
        if isinstance(f, ast.Attribute) and isinstance(f.value, ast.Name) and f.value.id in ("self", "cls") and ci is not None:
            name = f.attr
            if private_only and not (name.startswith("_") and not name.startswith("__")):
                return None
            c, fn = ci.find_method(name)
            if fn is None:
                return None
            return fn, f.value.id
        if isinstance(f, ast.Name):
            name = f.id
            if private_only and not name.startswith("_"):
                return None
            v = p.resolve(modname, name)
            if isinstance(v, Func) and v.module == modname:
                return v.node, None
        if isinstance(f, ast.Attribute) and isinstance(f.value, ast.Name) and ci is not None:
            # ClassName._helper(...) / super-style static helpers of the same class
            v = p.resolve(modname, f.value.id)
            if isinstance(v, ClassInfo) and (v is ci or v in ci.mro):
                if private_only and not (f.attr.startswith("_") and not f.attr.startswith("__")):
                    return None
                c, fn = v.find_method(f.attr)
                if fn is not None and any(ast.unparse(d) == "staticmethod" for d in fn.decorator_list):
                    return fn, None
        return None

    return res


def flat(p: Project, modname: str, fn, ci: Optional[ClassInfo] = None, keep: Iterable[str] = (), depth: int = 4):
    keepset = set(keep)
    return canon.canonical(fn, resolver(p, modname, ci, scope_fn=fn), keep=lambda n: n in keepset, depth=depth)
