"""Client rules N-R1..8 (C14): effects, routing and ordering in ofxtools/Client.py."""
from __future__ import annotations

import ast
from typing import Dict, List, Optional, Set, Tuple

from .cfg import CFG, Node, assume
from .dataflow import Reaching, local_defs, own_nodes, own_statements, params_of, resolve_values, root_name
from .match import Expander, text
from .report import Report
from .source import AnalysisError, ClassInfo, Ext, Project, dotted, parent

CLIENT = "ofxtools.Client"
NET_MODULES = ("urllib", "requests", "socket", "http.client", "httplib", "ftplib", "smtplib", "ssl", "aiohttp", "httpx", "urllib3")
# attribute names that do not touch the network even on a network module / object
PURE_ATTRS = {"Request", "HTTPCookieProcessor", "build_opener", "Session", "CookieJar", "LWPCookieJar", "MozillaCookieJar",
              "ProxyHandler", "HTTPSHandler", "HTTPHandler", "quote", "unquote", "urlencode", "urlparse", "urljoin",
              "__enter__", "__exit__", "close", "cookies", "headers", "add_header", "mount", "_GLOBAL_DEFAULT_TIMEOUT", "timeout", "error"}


# calls that build an object able to talk to the network (the object's other methods are sinks)
CONSTRUCTORS = {"build_opener", "Session", "OpenerDirector", "HTTPConnection", "HTTPSConnection", "socket", "create_connection", "PoolManager", "Client"}


def client_class(p: Project) -> ClassInfo:
    return p.get_class(CLIENT, "OFXClient")


def loc(p: Project, node) -> str:
    return f"{p.module(CLIENT).relpath}:{getattr(node, 'lineno', '?')}"


def net_aliases(p: Project, modname=CLIENT) -> Dict[str, str]:
    """module-level names bound to network modules / names imported from them"""
    out = {}
    for bname, kind, payload in p.module(modname).bindings:
        if kind == "module":
            full = payload
            # `import http.cookiejar` binds `http`; only http.client is network
            if any(full == m or full.startswith(m + ".") for m in NET_MODULES):
                out[bname] = full
        elif kind == "from":
            src, orig = payload
            if src and any(src == m or src.startswith(m + ".") for m in NET_MODULES):
                out[bname] = f"{src}.{orig}"
    return out


def net_attributes(ci: ClassInfo, aliases: Dict[str, str]) -> Dict[str, List[ast.Assign]]:
    """attributes (of self / the class) that hold an object built by a network constructor, with the
    assignments that put it there"""
    out: Dict[str, List[ast.Assign]] = {}
    for node in ast.walk(ci.node):
        if isinstance(node, (ast.Assign, ast.AnnAssign)) and node.value is not None:
            v = node.value
            if isinstance(v, ast.Call):
                last = v.func.attr if isinstance(v.func, ast.Attribute) else (v.func.id if isinstance(v.func, ast.Name) else None)
                if root_name(v) in aliases and last in CONSTRUCTORS:
                    tgts = node.targets if isinstance(node, ast.Assign) else [node.target]
                    for t in tgts:
                        if isinstance(t, ast.Attribute):
                            out.setdefault(t.attr, []).append(node)
                        elif isinstance(t, ast.Name) and isinstance(parent(node), ast.ClassDef):
                            out.setdefault(t.id, []).append(node)
    return out


def sink_calls(fn, aliases: Dict[str, str], netattrs=()) -> List[ast.Call]:
    """calls in fn's own body that can perform network I/O: a call rooted at a network-module alias
    (other than the pure constructors), or a method call on a local object (or an attribute of self /
    the class) built from one"""
    defs = local_defs(fn)
    netobjs: Set[str] = set()
    changed = True
    while changed:
        changed = False
        for nm, ds in defs.items():
            if nm in netobjs:
                continue
            for d in ds:
                v = d.value
                if d.kind in ("assign", "with") and isinstance(v, ast.Call):
                    r = root_name(v)
                    last = v.func.attr if isinstance(v.func, ast.Attribute) else (v.func.id if isinstance(v.func, ast.Name) else None)
                    if (r in aliases or r in netobjs) and last in CONSTRUCTORS:
                        netobjs.add(nm)
                        changed = True
    out = []
    for n in own_nodes(fn):
        if not isinstance(n, ast.Call):
            continue
        f = n.func
        r = root_name(f)
        last = f.attr if isinstance(f, ast.Attribute) else (f.id if isinstance(f, ast.Name) else None)
        if r in aliases:
            full = aliases[r]
            if full.startswith("http") and not full.startswith("http.client") and isinstance(f, ast.Attribute) and "cookiejar" in text(f):
                continue
            if last in PURE_ATTRS:
                continue
            out.append(n)
        elif r in netobjs and isinstance(f, ast.Attribute):
            if last in PURE_ATTRS:
                continue
            if isinstance(f.value, ast.Call):
                # a method of what a network call RETURNED (opener.open(req).read()): reading the response, the inner
                # call is the sink
                continue
            out.append(n)
        elif isinstance(f, ast.Attribute) and isinstance(f.value, ast.Attribute) and f.value.attr in netattrs and last not in PURE_ATTRS:
            out.append(n)
    return out


def methods(ci: ClassInfo):
    return [(nm, a[1]) for nm, a in ci.attrs.items() if a[0] == "func"]


KEEP_CLIENT = ("_request_profile", "_get_service_urls")


def fmethods(p: Project, ci: ClassInfo):
    """(name, original FunctionDef, flattened FunctionDef) for every method of the client class"""
    from .flat import flat

    cache = p.__dict__.setdefault("_flat_methods", {})  # per Project object (never keyed by id(): ids are reused)
    if ci.name not in cache:
        cache[ci.name] = [(nm, fn, flat(p, ci.module, fn, ci, keep=KEEP_CLIENT)) for nm, fn in methods(ci)]
    return cache[ci.name]


def fmethod(p: Project, ci: ClassInfo, name: str):
    for nm, fn, ffn in fmethods(p, ci):
        if nm == name:
            return ffn
    return None


def need(p: Project, ci: ClassInfo, name: str):
    f = fmethod(p, ci, name)
    if f is None:
        raise AnalysisError(f"OFXClient.{name} not found")
    return f


def private_callers_only(p: Project, ci: ClassInfo, helper: str, allowed: str) -> bool:
    """is the private method `helper` called (transitively through private helpers) only from `allowed`?"""
    seen = set()
    work = [helper]
    while work:
        h = work.pop()
        if h in seen:
            continue
        seen.add(h)
        for nm, fn in methods(ci):
            if nm == h:
                continue
            calls = [c for c in own_nodes(fn) if isinstance(c, ast.Call) and isinstance(c.func, ast.Attribute) and c.func.attr == h and text(c.func.value) in ("self", "cls")]
            if calls:
                if nm == allowed:
                    continue
                if nm.startswith("_") and not nm.startswith("__"):
                    work.append(nm)
                else:
                    return False
    # nobody outside the class calls it
    for name, mod in p.modules.items():
        for qn, cls, fn in mod.functions():
            if cls is not None and cls.name == ci.name and name == ci.module:
                continue
            for c in own_nodes(fn):
                if isinstance(c, ast.Call) and isinstance(c.func, ast.Attribute) and c.func.attr == helper:
                    return False
    return True


# --------------------------------------------------------------------------
def n_r1_sinks(p: Project, rep: Report):
    rep.rule("N-R1", "network sinks (urlopen, opener.open, requests/Session calls, sockets, http.client) occur in ofxtools/Client.py only inside OFXClient.post_request; no global opener is installed anywhere in the package")
    m = p.module(CLIENT)
    aliases = net_aliases(p)
    if not aliases:
        raise AnalysisError("N-R1: Client.py imports no network module - transport not recognised")
    nfn = 0
    total_sinks = 0
    nattrs = net_attributes(client_class(p), aliases)
    for qn, cls, fn in m.functions():
        nfn += 1
        sinks = sink_calls(fn, aliases, nattrs)
        if qn == "OFXClient.post_request":
            total_sinks += len(sinks)
            continue
        if sinks and cls is not None and cls.name == "OFXClient" and qn.count(".") == 1 and fn.name.startswith("_") and private_callers_only(p, client_class(p), fn.name, "post_request"):
            # a private transport helper reachable only through post_request is part of post_request
            total_sinks += len(sinks)
            continue
        for s in sinks:
            rep.check("N-R1", f"{qn}:{text(s.func)}", False, f"network call {text(s.func)}(...) outside post_request: it bypasses the dry-run gate, the POST discipline and the per-client cookie jar", loc(p, s))
    # module-level statements
    _M = ast.FunctionDef(name="<module>", args=ast.arguments(posonlyargs=[], args=[], kwonlyargs=[], kw_defaults=[], defaults=[], vararg=None, kwarg=None),
                         body=[s for s in m.tree.body if not isinstance(s, (ast.FunctionDef, ast.ClassDef))], decorator_list=[])
    for s in sink_calls(_M, aliases):
        rep.check("N-R1", f"<module>:{text(s.func)}", False, "network call at import time", loc(p, s))
    rep.check("N-R1", "Client.py:sinks-confined", True, f"{nfn} functions scanned; {total_sinks} sink calls, all inside post_request")
    rep.floor("N-R1", total_sinks, 2, "sink calls in post_request")
    rep.unit("client_functions", nfn)
    for name, mod in p.modules.items():
        for n in ast.walk(mod.tree):
            if isinstance(n, ast.Call) and (dotted(n.func) or "").split(".")[-1] == "install_opener":
                rep.check("N-R1", f"{name}:install_opener", False, "a process-global opener is installed: cookies and handlers become shared by every client", f"{mod.relpath}:{n.lineno}")


def _self_calls(fn, name) -> List[ast.Call]:
    return [n for n in own_nodes(fn) if isinstance(n, ast.Call) and isinstance(n.func, ast.Attribute) and n.func.attr == name and text(n.func.value) == "self"]


def n_r2_dryrun(p: Project, rep: Report):
    rep.rule("N-R2", "post_request is called only from download and is unreachable there when dryrun is true; every OFXClient method with a dryrun parameter forwards it unchanged to download/request_profile/_request_profile")
    ci = client_class(p)
    callers = []
    for name, mod in p.modules.items():
        for qn, cls, fn in mod.functions():
            for n in own_nodes(fn):
                if isinstance(n, ast.Call) and isinstance(n.func, ast.Attribute) and n.func.attr == "post_request":
                    callers.append((name, qn, n))
    for name, qn, n in callers:
        ok = name == CLIENT and qn == "OFXClient.download"
        rep.check("N-R2", f"{name}:{qn}->post_request", ok, "post_request is invoked outside download(): the dry-run gate does not cover this call" if not ok else "", f"{p.module(name).relpath}:{n.lineno}")
    dl = need(p, ci, "download")
    if "dryrun" not in params_of(dl):
        raise AnalysisError("download has no dryrun parameter")
    cfg = CFG(dl)
    posts = cfg.nodes_calling(lambda c: isinstance(c.func, ast.Attribute) and c.func.attr == "post_request")
    if not posts:
        rep.check("N-R2", "download:posts", False, "download() never reaches post_request", loc(p, dl))
    else:
        r_true = cfg.reachable(cfg.entry.id, edge_filter=assume({"dryrun": True}))
        r_false = cfg.reachable(cfg.entry.id, edge_filter=assume({"dryrun": False}))
        rep.check("N-R2", "download:no-post-on-dryrun", not any(n.id in r_true for n in posts), "post_request is reachable in download() with dryrun=True" if any(n.id in r_true for n in posts) else "", loc(p, posts[0].stmt))
        rep.check("N-R2", "download:posts-otherwise", all(n.id in r_false for n in posts), "post_request unreachable with dryrun=False (vacuous gate)", loc(p, posts[0].stmt))
        # dryrun is not rebound before the gate
        reach = Reaching(cfg)
        for n in cfg.nodes:
            if n.kind == "test" and "dryrun" in {x.id for x in ast.walk(n.stmt.test) if isinstance(x, ast.Name)}:
                ds = reach.defs_at(n, "dryrun")
                ok = all(d.kind == "param" for d in ds)
                rep.check("N-R2", "download:dryrun-is-the-parameter", ok, "dryrun is re-bound before it is tested" if not ok else "", loc(p, n.stmt))
    # forwarding
    nfw = 0
    for nm, fn0, fn in fmethods(p, ci):
        if "dryrun" not in params_of(fn0) or nm == "download":
            continue
        cfg = CFG(fn)
        reach = Reaching(cfg)
        for target in ("download", "_request_profile", "request_profile"):
            for node in cfg.nodes_calling(lambda c, t=target: isinstance(c.func, ast.Attribute) and c.func.attr == t and text(c.func.value) == "self"):
                for c in node.calls():
                    if not (isinstance(c.func, ast.Attribute) and c.func.attr == target):
                        continue
                    nfw += 1
                    kw = [k for k in c.keywords if k.arg == "dryrun"]
                    ok = len(kw) == 1 and isinstance(kw[0].value, ast.Name) and kw[0].value.id == "dryrun" and all(d.kind == "param" for d in reach.defs_at(node, "dryrun"))
                    rep.check("N-R2", f"{nm}->{target}:forwards-dryrun", ok, f"{nm}() calls {target}() without passing its own dryrun flag through unchanged: a dry run of {nm} would hit the network" if not ok else "", loc(p, c))
    rep.floor("N-R2", nfw, 5, "dryrun forwarding call sites")


def credentialed(ci: ClassInfo, p: Project = None):
    if p is not None:
        return [(nm, ffn) for nm, fn, ffn in fmethods(p, ci) if {"dryrun", "skip_profile"} <= set(params_of(fn)) and not nm.startswith("_")]
    return [(nm, fn) for nm, fn in methods(ci) if {"dryrun", "skip_profile"} <= set(params_of(fn))]


def n_r3_profile_lookup(p: Project, rep: Report):
    rep.rule("N-R3", "_get_service_urls (a network round trip) is unreachable in the credentialed requests when dryrun or skip_profile is set, reachable otherwise")
    ci = client_class(p)
    fns = credentialed(ci, p)
    for nm, fn in fns:
        cfg = CFG(fn)
        look = cfg.nodes_calling(lambda c: isinstance(c.func, ast.Attribute) and c.func.attr in ("_get_service_urls", "request_profile", "_request_profile"))
        if not look:
            rep.check("N-R3", f"{nm}:looks-up-profile", False, "never consults the profile for the service URL", loc(p, fn))
            continue
        for flags, want in (({"dryrun": True}, False), ({"dryrun": False, "skip_profile": True}, False), ({"dryrun": False, "skip_profile": False}, True)):
            r = cfg.reachable(cfg.entry.id, edge_filter=assume(flags))
            got = any(n.id in r for n in look)
            rep.check("N-R3", f"{nm}:lookup-under{sorted(flags.items())}", got == want,
                      (f"profile lookup (network) is reachable with {flags}" if got else f"profile lookup unreachable with {flags}") if got != want else "", loc(p, look[0].stmt))
    rep.floor("N-R3", len(fns), 3, "credentialed request methods")


def _sources(expr, node: Node, reach: Reaching, depth=8, seen=None) -> Set[str]:
    """leaf sources an expression derives from, following reaching definitions transitively"""
    seen = seen if seen is not None else set()
    out: Set[str] = set()
    if isinstance(expr, ast.Constant):
        return {f"const:{expr.value!r}"}
    if isinstance(expr, ast.Attribute) and text(expr.value) == "self":
        return {f"self.{expr.attr}"}
    if isinstance(expr, ast.Call):
        f = expr.func
        if isinstance(f, ast.Attribute) and text(f.value) == "self":
            return {f"call:self.{f.attr}"}
        out |= _sources(f.value, node, reach, depth, seen) if isinstance(f, ast.Attribute) else set()
        for a in expr.args:
            out |= _sources(a.value if isinstance(a, ast.Starred) else a, node, reach, depth, seen)
        for k in expr.keywords:
            out |= _sources(k.value, node, reach, depth, seen)
        if isinstance(f, ast.Name):
            out.add(f"fn:{f.id}")
        return out
    if isinstance(expr, ast.Name):
        ds = reach.defs_at(node, expr.id)
        if not ds:
            return {f"global:{expr.id}"}
        for d in ds:
            if d.kind == "param":
                out.add(f"param:{d.name}")
            elif isinstance(d.value, ast.AST) and id(d) not in seen and depth > 0:
                seen.add(id(d))
                dn = reach.cfg.node_of(d.stmt) or node
                out |= _sources(d.value, dn, reach, depth - 1, seen)
            else:
                out.add(f"opaque:{d.name}")
        return out
    if isinstance(expr, ast.IfExp):
        # the value is one of the two arms; the test selects, it is not a source of the value
        return _sources(expr.body, node, reach, depth, seen) | _sources(expr.orelse, node, reach, depth, seen)
    for ch in ast.iter_child_nodes(expr):
        if isinstance(ch, ast.expr):
            out |= _sources(ch, node, reach, depth, seen)
    return out


def n_r7_routing(p: Project, rep: Report):
    rep.rule("N-R7", "in each credentialed request the URL handed to download() is, branch by branch: self.url (and nothing else) under skip_profile, a value derived from _get_service_urls() and never self.url otherwise; download() posts to exactly the URL it was given (self.url only when none was given)")
    ci = client_class(p)
    for nm, fn in credentialed(ci, p):
        cfg = CFG(fn)
        dls = cfg.nodes_calling(lambda c: isinstance(c.func, ast.Attribute) and c.func.attr == "download" and text(c.func.value) == "self")
        if not dls:
            rep.check("N-R7", f"{nm}:downloads", False, "no call to self.download", loc(p, fn))
            continue
        for node in dls:
            call = [c for c in node.calls() if isinstance(c.func, ast.Attribute) and c.func.attr == "download"][0]
            kw = [k for k in call.keywords if k.arg == "url"]
            if not kw:
                rep.check("N-R7", f"{nm}:passes-url", False, "download() is called without url=: it falls back to the configured URL and the credentials go there whatever the profile advertises", loc(p, call))
                continue
            for flags, label in (({"dryrun": False, "skip_profile": True}, "skip_profile"), ({"dryrun": False, "skip_profile": False}, "normal")):
                reach = Reaching(cfg, edge_filter=assume(flags))
                src = _sources(kw[0].value, node, reach)
                if label == "skip_profile":
                    ok = src == {"self.url"}
                    why = f"under skip_profile the URL derives from {sorted(src)}; expected exactly self.url"
                else:
                    ok = "call:self._get_service_urls" in src and "self.url" not in src and not any(s.startswith("const:") and s not in ("const:None",) for s in src)
                    why = f"with profile lookup the URL derives from {sorted(src)}; expected the value advertised by _get_service_urls(), never self.url or a constant: credentials would be sent to the wrong place"
                rep.check("N-R7", f"{nm}:url-under-{label}", ok, why if not ok else "", loc(p, call))
    # download: url -> post_request
    dl = need(p, ci, "download")
    cfg = CFG(dl)
    reach = Reaching(cfg, edge_filter=assume({"dryrun": False}))
    for node in cfg.nodes_calling(lambda c: isinstance(c.func, ast.Attribute) and c.func.attr == "post_request"):
        call = [c for c in node.calls() if isinstance(c.func, ast.Attribute) and c.func.attr == "post_request"][0]
        pr = ci.own_func("post_request")
        pparams = params_of(pr)[1:]
        bound = {pparams[i]: a for i, a in enumerate(call.args) if i < len(pparams)}
        bound.update({k.arg: k.value for k in call.keywords if k.arg})
        u = bound.get("url")
        src = _sources(u, node, reach) if u is not None else set()
        ok = u is not None and src <= {"param:url", "self.url"} and "param:url" in src
        rep.check("N-R7", "download:posts-to-given-url", ok, f"post_request url derives from {sorted(src)}; expected the url parameter (self.url only as the fallback for None)" if not ok else "", loc(p, call))
        # fallback only when url is None
        fall = [n for n in cfg.nodes if isinstance(n.stmt, ast.Assign) and text(n.stmt.value) == "self.url" and any(isinstance(t, ast.Name) and t.id == "url" for t in n.stmt.targets)]
        for fnode in fall:
            par = getattr(fnode.stmt, "_parent", None)
            ok = isinstance(par, ast.If) and text(par.test) in ("url is None", "not url") and fnode.stmt in par.body
            rep.check("N-R7", "download:self.url-only-as-fallback", ok, "the given URL is overwritten with self.url unconditionally" if not ok else "", loc(p, fnode.stmt))
        b = bound.get("serialized_request")
        srcb = _sources(b, node, reach) if b is not None else set()
        ok = srcb == {"call:self.serialize"}
        rep.check("N-R4", "download:body-is-serialized-request", ok, f"body posted derives from {sorted(srcb)}; expected self.serialize(ofx, ...)" if not ok else "", loc(p, call))
        # serialize receives the ofx parameter
        sers = _self_calls(dl, "serialize")
        ok = bool(sers) and all(s.args and text(s.args[0]) == params_of(dl)[1] for s in sers)
        rep.check("N-R4", "download:serializes-the-given-request", ok, "serialize() is not applied to the request passed in" if not ok else "", loc(p, dl))


def n_r7c_service_urls(p: Project, rep: Report):
    rep.rule("N-R7c", "_get_service_urls: every URL in the mapping it returns is the .url of a message set of the profile response it has just requested and parsed (never the configured URL or a constant)")
    ci = client_class(p)
    fn = need(p, ci, "_get_service_urls")
    vals = []
    for n in ast.walk(fn):
        if isinstance(n, ast.DictComp):
            vals.append((n.value, n))
        elif isinstance(n, ast.Assign) and isinstance(n.targets[0], ast.Subscript) and text(n.targets[0].value) == "urls":
            vals.append((n.value, n))
        elif isinstance(n, ast.Dict) and isinstance(parent(n), ast.Assign) and text(parent(n).targets[0]) == "urls":
            for v in n.values:
                vals.append((v, n))
    if not vals:
        raise AnalysisError("N-R7c: _get_service_urls builds no url mapping")
    for v, node in vals:
        ok = isinstance(v, ast.Attribute) and v.attr == "url" and isinstance(v.value, ast.Name) and v.value.id != "self"
        rep.check("N-R7c", f"_get_service_urls:value({text(v)})", ok, f"a service URL is taken from {text(v)}, not from a message set of the profile" if not ok else "", loc(p, node))
    defs = local_defs(fn)
    from .match import Expander as _Ex

    gx = _Ex(fn)
    chain_ok = any(isinstance(c, ast.Call) and text(c.func).endswith(".parse") and c.args and gx.t(c.args[0]).startswith("self.request_profile(") for c in own_nodes(fn))
    rep.check("N-R7c", "_get_service_urls:from-requested-profile", chain_ok, "" if chain_ok else "the URLs do not come from parsing the profile just requested", loc(p, fn))
    iters = {text(v.value) for v, _n in vals if isinstance(v, ast.Attribute) and isinstance(v.value, ast.Name)}
    ml = []
    for x in ast.walk(fn):
        if isinstance(x, (ast.For, ast.comprehension)) and isinstance(x.target, ast.Name) and x.target.id in iters:
            ml.append(gx.t(x.iter))
        if isinstance(x, ast.Assign) and isinstance(x.targets[0], ast.Name) and x.targets[0].id in iters and isinstance(x.value, ast.Subscript):
            ml.append(gx.t(x.value.value))
    ok = bool(ml) and all(v.endswith(".msgsetlist") or ".msgsetlist" in v for v in ml)
    rep.check("N-R7c", "_get_service_urls:message-sets-of-the-profile", ok, "" if ok else "message sets are not read from the profile's MSGSETLIST", loc(p, fn))
    rets = [r for r in own_nodes(fn) if isinstance(r, ast.Return)]
    ok = bool(rets) and all(r.value is not None and text(r.value) == "urls" for r in rets)
    rep.check("N-R7c", "_get_service_urls:returns-mapping", ok, "" if ok else "does not return the mapping it built", loc(p, fn))


def _bind(call: ast.Call, names: List[str]) -> Dict[str, ast.AST]:
    b = {names[i]: a for i, a in enumerate(call.args) if i < len(names) and not isinstance(a, ast.Starred)}
    b.update({k.arg: k.value for k in call.keywords if k.arg})
    return b


def n_r4_post(p: Project, rep: Report):
    rep.rule("N-R4", "post_request: on every path exactly one request is issued; its method is the literal POST, its body the serialized_request parameter, its headers self.http_headers, its URL the url parameter - on each transport")
    ci = client_class(p)
    fn = need(p, ci, "post_request")
    aliases = net_aliases(p)
    sinks = sink_calls(fn, aliases, net_attributes(ci, aliases))
    cfg = CFG(fn)
    reach = Reaching(cfg)
    snodes = []
    for s in sinks:
        for n in cfg.nodes:
            if any(c is s for c in n.calls()):
                snodes.append((n, s))
    if not snodes:
        rep.check("N-R4", "post_request:sends", False, "no network call in post_request", loc(p, fn))
        return
    ids = [n.id for n, _ in snodes]
    ok = cfg.must_pass_through([cfg.exit.id], ids)
    rep.check("N-R4", "post_request:at-least-one-request", ok, "a path returns without sending the request" if not ok else "", loc(p, fn))
    twice = False
    for n, _ in snodes:
        for b, lab in cfg.succ[n.id]:
            if cfg.reachable(b) & set(ids):
                twice = True
    rep.check("N-R4", "post_request:at-most-one-request", not twice, "a path issues two requests (retry / duplicate POST)" if twice else "", loc(p, fn))
    params = params_of(fn)
    url_p, body_p = params[1], params[2]

    def is_param(expr, node, name):
        if expr is None:
            return False
        vals = resolve_values(expr, node, reach)
        return all(isinstance(v, ast.Name) and v.id == name and getattr(getattr(v, "_def", None), "kind", "param") == "param" for v in vals) and bool(vals)

    for n, s in snodes:
        f = s.func
        label = text(f)
        if isinstance(f, ast.Attribute) and f.attr == "request":
            b = _bind(s, ["method", "url"])
        elif isinstance(f, ast.Attribute) and f.attr in ("post", "put", "get", "patch", "delete", "head"):
            b = _bind(s, ["url", "data"])
            b["method"] = ast.Constant(value=f.attr.upper())
        elif isinstance(f, ast.Attribute) and f.attr in ("open", "urlopen") or (isinstance(f, ast.Name) and f.id == "urlopen"):
            # urllib: first argument is a Request object (or a bare URL => GET/POST by data)
            first = s.args[0] if s.args else None
            reqs = [v for v in resolve_values(first, n, reach)] if first is not None else []
            b = {}
            for v in reqs:
                if isinstance(v, ast.Call) and text(v.func).split(".")[-1] == "Request":
                    b = _bind(v, ["url", "data", "headers", "origin_req_host", "unverifiable", "method"])
                    if "method" not in b:
                        b["method"] = ast.Constant(value="POST" if "data" in b else "GET")
                else:
                    b = {"url": v, "method": ast.Constant(value="GET")}
        else:
            rep.check("N-R4", f"post_request:{label}:recognised", False, f"unrecognised network call {label}", loc(p, s))
            continue
        m = b.get("method")
        ok = isinstance(m, ast.Constant) and m.value == "POST"
        rep.check("N-R4", f"post_request:{label}:method", ok, f"HTTP method is {ast.unparse(m) if m is not None else None}, not the literal 'POST'" if not ok else "", loc(p, s))
        ok = is_param(b.get("url"), n, url_p)
        rep.check("N-R4", f"post_request:{label}:url", ok, f"request goes to {ast.unparse(b['url']) if b.get('url') is not None else None}, not to the url parameter" if not ok else "", loc(p, s))
        ok = is_param(b.get("data"), n, body_p)
        rep.check("N-R4", f"post_request:{label}:body", ok, f"request body is {ast.unparse(b['data']) if b.get('data') is not None else None}, not the serialized request" if not ok else "", loc(p, s))
        h = b.get("headers")
        hv = [text(v) for v in resolve_values(h, n, reach)] if h is not None else []
        ok = bool(hv) and all(v == "self.http_headers" for v in hv)
        rep.check("N-R4", f"post_request:{label}:headers", ok, f"request headers are {hv or None}, not self.http_headers (Content-Type / Accept / User-Agent are lost)" if not ok else "", loc(p, s))
    rep.unit("transports", len(snodes))


_FOLD_PROJECT = None


def _fold(expr, fn) -> Optional[str]:
    """constant-fold a string expression (locals with a single constant assignment, module-level string constants, +,
    .format, f-strings)"""
    defs = local_defs(fn)
    if isinstance(expr, ast.Constant) and isinstance(expr.value, str):
        return expr.value
    if isinstance(expr, ast.Name):
        ds = defs.get(expr.id, [])
        if len(ds) == 1 and ds[0].kind == "assign":
            return _fold(ds[0].value, fn)
        if not ds and _FOLD_PROJECT is not None and _FOLD_PROJECT.has_binding(CLIENT, expr.id):
            v_ = _FOLD_PROJECT.resolve(CLIENT, expr.id)
            return v_ if isinstance(v_, str) else None
        return None
    if isinstance(expr, ast.BinOp) and isinstance(expr.op, ast.Add):
        a, b = _fold(expr.left, fn), _fold(expr.right, fn)
        return a + b if a is not None and b is not None else None
    if isinstance(expr, ast.JoinedStr):
        out = ""
        for v in expr.values:
            if isinstance(v, ast.Constant):
                out += str(v.value)
            elif isinstance(v, ast.FormattedValue) and v.format_spec is None and v.conversion == -1:
                s = _fold(v.value, fn)
                if s is None:
                    return None
                out += s
            else:
                return None
        return out
    if isinstance(expr, ast.Call) and isinstance(expr.func, ast.Attribute) and expr.func.attr == "format":
        base = _fold(expr.func.value, fn)
        args = [_fold(a, fn) for a in expr.args]
        kws = {k.arg: _fold(k.value, fn) for k in expr.keywords if k.arg}
        if base is None or any(a is None for a in args) or any(v is None for v in kws.values()):
            return None
        try:
            return base.format(*args, **kws)
        except Exception:
            return None
    if isinstance(expr, ast.Call) and isinstance(expr.func, ast.Attribute) and expr.func.attr == "join" and len(expr.args) == 1 and isinstance(expr.args[0], (ast.List, ast.Tuple)):
        sep = _fold(expr.func.value, fn)
        parts = [_fold(e, fn) for e in expr.args[0].elts]
        if sep is None or any(x is None for x in parts):
            return None
        return sep.join(parts)
    return None


def n_r5_headers(p: Project, rep: Report):
    global _FOLD_PROJECT
    _FOLD_PROJECT = p
    rep.rule("N-R5", "http_headers folds to Content-Type application/x-ofx, an Accept header that admits application/x-ofx (explicitly or by a wildcard range with non-zero quality), and User-Agent = self.useragent")
    ci = client_class(p)
    fn = ci.own_func("http_headers")
    if fn is None:
        raise AnalysisError("OFXClient.http_headers not found")
    decos = [text(d) for d in fn.decorator_list]
    cached = [d for d in decos if d.split(".")[-1].split("(")[0] in ("cached_property", "lru_cache", "cache")]
    rep.check("N-R5", "http_headers:computed-on-every-request", not cached, f"http_headers is decorated with {cached}: the headers are frozen at the first request - `client.useragent = ...` on a live client (the usual remedy when an institution turns the default agent away) no longer reaches the wire" if cached else "", loc(p, fn))
    rets = [r for r in own_nodes(fn) if isinstance(r, ast.Return)]
    if not rets:
        raise AnalysisError("N-R5: http_headers returns nothing")
    for r in rets:
        d = {}
        lit = r.value
        # a copy / selection of a dict built first: {k: v for k, v in <name>.items() [if ...]}
        if isinstance(lit, ast.DictComp) and len(lit.generators) == 1 and isinstance(lit.generators[0].iter, ast.Call) and isinstance(lit.generators[0].iter.func, ast.Attribute) and lit.generators[0].iter.func.attr == "items" and isinstance(lit.generators[0].iter.func.value, ast.Name):
            g_ = lit.generators[0]
            tgt_ = [e.id for e in g_.target.elts] if isinstance(g_.target, ast.Tuple) and all(isinstance(e, ast.Name) for e in g_.target.elts) else []
            if len(tgt_) == 2 and text(lit.key) == tgt_[0] and text(lit.value) == tgt_[1]:
                dropped_ = [f_ for f_ in g_.ifs if any(isinstance(n_, ast.Name) and n_.id == tgt_[1] for n_ in ast.walk(f_))]
                rep.check("N-R5", "http_headers:every-header-sent", not dropped_, f"headers are filtered by their value (`if {text(dropped_[0])[:40]}`): a client configured with a blank user agent - the documented setting for servers that turn Python clients away - sends no User-Agent header at all, and urllib then adds its own `Python-urllib/3.x`" if dropped_ else "", loc(p, r))
                lit = g_.iter.func.value
        if isinstance(lit, ast.Name):
            # a dict filled key by key: <name> = {...} ; <name>[k] = v ...
            nm = lit.id
            init = [st.value for st in own_statements(fn) if isinstance(st, (ast.Assign, ast.AnnAssign)) and any(isinstance(t, ast.Name) and t.id == nm for t in (st.targets if isinstance(st, ast.Assign) else [st.target])) and isinstance(st.value, (ast.Dict, ast.Call))]
            if len(init) != 1:
                raise AnalysisError("N-R5: http_headers builds its result in an unrecognised way")
            lit = init[0] if isinstance(init[0], ast.Dict) else ast.Dict(keys=[ast.Constant(value=k.arg) for k in init[0].keywords], values=[k.value for k in init[0].keywords])
            lit = ast.Dict(keys=list(lit.keys), values=list(lit.values))
            for st in own_statements(fn):
                if isinstance(st, ast.Assign) and isinstance(st.targets[0], ast.Subscript) and text(st.targets[0].value) == nm:
                    lit.keys.append(st.targets[0].slice)
                    lit.values.append(st.value)
        if not isinstance(lit, ast.Dict):
            raise AnalysisError("N-R5: http_headers does not return a dict")
        for k, v in zip(lit.keys, lit.values):
            if isinstance(k, ast.Constant):
                d[str(k.value).lower()] = v
        ct = _fold(d.get("content-type"), fn) if "content-type" in d else None
        rep.check("N-R5", "http_headers:Content-Type", ct is not None and ct.split(";")[0].strip().lower() == "application/x-ofx", f"Content-Type folds to {ct!r}, expected application/x-ofx", loc(p, r))
        acc = _fold(d.get("accept"), fn) if "accept" in d else None
        admitted = False
        if acc is not None:
            for rng in acc.split(","):
                parts = [x.strip().lower() for x in rng.split(";")]
                q = 1.0
                for prm in parts[1:]:
                    if prm.startswith("q="):
                        try:
                            q = float(prm[2:])
                        except ValueError:
                            q = 0.0
                if parts[0] in ("application/x-ofx", "*/*", "application/*") and q > 0:
                    admitted = True
        rep.check("N-R5", "http_headers:Accept", admitted, f"Accept folds to {acc!r}, which does not admit application/x-ofx", loc(p, r))
        ua = d.get("user-agent")
        rep.check("N-R5", "http_headers:User-Agent", ua is not None and text(ua) == "self.useragent", f"User-Agent is {text(ua) if ua is not None else None}, expected self.useragent", loc(p, r))
    # useragent is settable from the constructor
    init = ci.own_func("__init__")
    ok = "useragent" in params_of(init)
    rep.check("N-R5", "__init__:useragent-configurable", ok, "useragent is not a constructor parameter", loc(p, init))


def n_r6_placeholder(p: Project, rep: Report):
    rep.rule("N-R6", "_request_profile signs on with the anonymous placeholder for both user id and password (never self.userid or a caller-supplied secret), puts that sign-on in the request it sends, and forwards its url parameter")
    ci = client_class(p)
    fn = need(p, ci, "_request_profile")
    so = ci.own_func("signon")
    if so is None:
        raise AnalysisError("signon not found")
    cfg = CFG(fn)
    reach = Reaching(cfg)
    sparams = params_of(so)[1:]
    calls = cfg.nodes_calling(lambda c: isinstance(c.func, ast.Attribute) and c.func.attr == "signon" and text(c.func.value) == "self")
    if not calls:
        rep.check("N-R6", "_request_profile:signs-on", False, "no sign-on built", loc(p, fn))
        return
    for node in calls:
        call = [c for c in node.calls() if isinstance(c.func, ast.Attribute) and c.func.attr == "signon"][0]
        b = _bind(call, sparams)
        for role in ("userpass", "userid"):
            e = b.get(role)
            src = _sources(e, node, reach) if e is not None else {"<not passed: signon() falls back to self.userid>"}
            ok = src == {"global:AUTH_PLACEHOLDER"}
            rep.check("N-R6", f"_request_profile:signon({role})", ok, f"{role} of the profile request derives from {sorted(src)}; expected only AUTH_PLACEHOLDER" if not ok else "", loc(p, call))
    # AUTH_PLACEHOLDER itself is a module constant not derived from configuration
    v = [pl for b, k, pl in p.module(CLIENT).bindings if b == "AUTH_PLACEHOLDER" and k == "assign"]
    ok = len(v) == 1 and not any(isinstance(x, ast.Name) and x.id not in ("format",) for x in ast.walk(v[0]))
    rep.check("N-R6", "AUTH_PLACEHOLDER:constant", ok, "AUTH_PLACEHOLDER is not a single literal constant" if not ok else "", loc(p, v[0] if v else fn))
    # the sign-on reaches the OFX that is sent; url forwarded
    dls = cfg.nodes_calling(lambda c: isinstance(c.func, ast.Attribute) and c.func.attr == "download" and text(c.func.value) == "self")
    for node in dls:
        call = [c for c in node.calls() if isinstance(c.func, ast.Attribute) and c.func.attr == "download"][0]
        src = _sources(call.args[0], node, reach) if call.args else set()
        ok = "call:self.signon" in src and "self.userid" not in src
        rep.check("N-R6", "_request_profile:sends-that-signon", ok, f"the request sent derives from {sorted(src)}" if not ok else "", loc(p, call))
        kw = [k for k in call.keywords if k.arg == "url"]
        ok = bool(kw) and _sources(kw[0].value, node, reach) == {"param:url"}
        rep.check("N-R6", "_request_profile:forwards-url", ok, "the url parameter is not forwarded unchanged to download()" if not ok else "", loc(p, call))
    # signon(): userid falls back to self.userid only when None; userpass is used as given
    so = fmethod(p, ci, "signon")
    scfg = CFG(so)
    sreach = Reaching(scfg)
    sonrq = scfg.nodes_calling(lambda c: isinstance(c.func, ast.Name) and c.func.id == "SONRQ")
    for node in sonrq:
        call = [c for c in node.calls() if isinstance(c.func, ast.Name) and c.func.id == "SONRQ"][0]
        b = _bind(call, [])
        src = _sources(b.get("userid"), node, sreach) if "userid" in b else set()
        ok = src <= {"param:userid", "self.userid"} and "param:userid" in src
        rep.check("N-R6", "signon:userid-from-argument", ok, f"SONRQ.userid derives from {sorted(src)}" if not ok else "", loc(p, call))
        src = _sources(b.get("userpass"), node, sreach) if "userpass" in b else set()
        rep.check("N-R6", "signon:userpass-from-argument", src == {"param:userpass"}, f"SONRQ.userpass derives from {sorted(src)}" if src != {"param:userpass"} else "", loc(p, call))


def n_r8_cookies(p: Project, rep: Report):
    rep.rule("N-R8", "the cookie jar is created fresh per instance in __init__ on every constructing path, is assigned nowhere else, is not a class or module attribute; both transports attach self.cookiejar whenever persist_cookies is set, whose class default is True")
    ci = client_class(p)
    init = ci.own_func("__init__")
    if init is None:
        raise AnalysisError("OFXClient.__init__ not found")
    try:
        from .flat import flat as _flat

        init = _flat(p, CLIENT, init, ci)  # `self.cookiejar = self._new_cookiejar()`
    except Exception:
        pass
    cfg = CFG(init)
    jx = Expander(init)
    sets = [n for n in cfg.nodes if (isinstance(n.stmt, ast.Assign) and any(text(t) == "self.cookiejar" for t in n.stmt.targets)) or (isinstance(n.stmt, ast.AnnAssign) and n.stmt.value is not None and text(n.stmt.target) == "self.cookiejar")]
    ok = bool(sets) and cfg.must_pass_through([cfg.exit.id], [n.id for n in sets])
    rep.check("N-R8", "__init__:creates-jar-on-every-path", ok, "an instance can be constructed without its own cookie jar" if not ok else "", loc(p, init))
    for n in sets:
        v = jx.x(n.stmt.value)  # a jar created into a local first
        fresh = isinstance(v, ast.Call) and (dotted(v.func) or "").split(".")[-1].endswith("CookieJar") and not v.args
        if fresh and any(not (k.arg == "policy" and isinstance(k.value, ast.Constant) and k.value.value is None) for k in v.keywords):
            # CookieJar(policy=...): which of the server's cookies are kept and replayed is then the policy's decision
            rep.check("N-R8", "__init__:jar-default-policy", False, f"self.cookiejar = {text(v)[:70]}: the jar is given a cookie policy of its own; cookies a server sets that this policy refuses (domain cookies of multi-label hosts under a strict-domain policy, ...) are not replayed on the later requests of the client", loc(p, n.stmt))
        rep.check("N-R8", "__init__:jar-is-fresh", fresh, f"self.cookiejar = {text(v)}: not a freshly constructed jar, so it can be shared between client instances" if not fresh else "", loc(p, n.stmt))
    rep.check("N-R8", "OFXClient:no-class-level-jar", "cookiejar" not in ci.attrs, "cookiejar is a class attribute (shared by all instances)" if "cookiejar" in ci.attrs else "", loc(p, ci.node))
    # nowhere else
    for nm, fn in methods(ci):
        if nm == "__init__":
            continue
        for s in own_statements(fn):
            if isinstance(s, (ast.Assign, ast.AugAssign)):
                tg = s.targets if isinstance(s, ast.Assign) else [s.target]
                if any(text(t) == "self.cookiejar" for t in tg):
                    rep.check("N-R8", f"{nm}:rebinds-jar", False, "self.cookiejar is re-bound after construction", loc(p, s))
    # ... nor by any other function of the package (on whatever object), and nobody empties / edits a jar: the stdlib
    # cookie processor is the only writer, so what a server set is what is replayed - by that client only
    JAR_EDITS = ("clear", "clear_session_cookies", "clear_expired_cookies", "set_cookie", "set_cookie_if_ok", "set_policy")
    for modname, m in p.modules.items():
        for qn, cls, fn in m.functions():
            if modname == CLIENT and cls is ci.node and fn.name == "__init__":
                continue
            for s in ast.walk(fn):
                if isinstance(s, (ast.Assign, ast.AugAssign, ast.AnnAssign)):
                    tg = s.targets if isinstance(s, ast.Assign) else [s.target]
                    for t in tg:
                        if isinstance(t, ast.Attribute) and t.attr == "cookiejar" and not (modname == CLIENT and cls is ci.node and text(t) == "self.cookiejar"):
                            rep.check("N-R8", f"{modname.split('.')[-1]}.{qn}:rebinds-jar", False, f"{text(t)} = {text(s.value)[:50] if getattr(s, 'value', None) is not None else '...'}: a client's cookie jar is replaced after construction - a jar handed to several clients makes one client's cookies appear in another's requests", f"{m.relpath}:{s.lineno}")
                elif isinstance(s, ast.Call) and text(s.func) == "setattr" and len(s.args) >= 2 and isinstance(s.args[1], ast.Constant) and s.args[1].value == "cookiejar":
                    rep.check("N-R8", f"{modname.split('.')[-1]}.{qn}:rebinds-jar", False, "setattr(.., 'cookiejar', ..): a client's cookie jar is replaced after construction", f"{m.relpath}:{s.lineno}")
                elif isinstance(s, ast.Call) and isinstance(s.func, ast.Attribute) and s.func.attr in JAR_EDITS and isinstance(s.func.value, ast.Attribute) and s.func.value.attr == "cookiejar":
                    rep.check("N-R8", f"{modname.split('.')[-1]}.{qn}:edits-jar:{s.func.attr}", False, f"{text(s)[:60]}: cookies a server set are dropped / changed by the client itself, so they are not replayed on the later requests of that client", f"{m.relpath}:{s.lineno}")
    # module-level jars
    for bname, kind, payload in p.module(CLIENT).bindings:
        if kind == "assign" and isinstance(payload, ast.Call) and (dotted(payload.func) or "").endswith("CookieJar"):
            rep.check("N-R8", f"<module>.{bname}:module-level-jar", False, "a module-level cookie jar exists", loc(p, payload))
    d = ci.lookup("persist_cookies")
    rep.check("N-R8", "persist_cookies:default-True", d is True, f"class default of persist_cookies is {d!r}: cookies set by the profile response are not replayed", loc(p, ci.node))
    # transports attach the jar
    fn = need(p, ci, "post_request")
    aliases = net_aliases(p)
    pcfg = CFG(fn)
    flt = assume({"self.persist_cookies": True})
    nattrs = net_attributes(ci, aliases)
    for attr, assigns in nattrs.items():
        for a in assigns:
            tgts = a.targets if isinstance(a, ast.Assign) else [a.target]
            for t in tgts:
                per_instance = isinstance(t, ast.Attribute) and text(t.value) == "self"
                rep.check("N-R8", f"network-object:{text(t)}:per-instance", per_instance, f"the opener/session built by {text(a.value.func)} is stored on {text(t)} - shared by every OFXClient instance: it carries the first client's cookie jar, so later clients send that client's cookies and never fill their own jar" if not per_instance else "", loc(p, a))
    for s in sink_calls(fn, aliases, nattrs):
        node = [n for n in pcfg.nodes if any(c is s for c in n.calls())][0]
        # the object the call is made on
        recv = root_name(s.func)
        uses = [n for n in pcfg.nodes if any(isinstance(x, ast.Attribute) and text(x) == "self.cookiejar" for e in n.exprs() for x in ast.walk(e))]
        ok = bool(uses) and pcfg.dominated_by(node.id, [u.id for u in uses], edge_filter=flt)
        # the requests transport: a jar passed as `cookies=` of a single call is only SENT; what the server sets goes
        # into the session's own jar and is thrown away with it - the jar has to BE the session's (sess.cookies = jar)
        kwjar = next((k_ for k_ in s.keywords if k_.arg == "cookies" and "cookiejar" in text(k_.value)), None) if isinstance(s, ast.Call) else None
        if kwjar is not None:
            rep.check("N-R8", f"post_request:{text(s.func)}:jar-receives-what-the-server-sets", False, f"{text(s.func)}(..., cookies={text(kwjar.value)[:40]}): the jar is only read for this one request; cookies set by the response are stored in the library's internal session jar and discarded, so they are not replayed on the client's later requests", loc(p, s))
        rep.check("N-R8", f"post_request:{text(s.func)}:attaches-jar", ok, "with persist_cookies set this transport can send the request without self.cookiejar attached" if not ok else "", loc(p, s))
        # and the jar use is connected to the sending object
        if ok:
            connected = False
            defs = local_defs(fn)
            for u in uses:
                for e in u.exprs():
                    for x in ast.walk(e):
                        if isinstance(x, ast.Attribute) and text(x) == "self.cookiejar":
                            st = u.stmt
                            if isinstance(st, ast.Assign) and any(root_name(t) == recv for t in st.targets):
                                connected = True  # sess.cookies = self.cookiejar
                            else:
                                # handlers.append(HTTPCookieProcessor(self.cookiejar)); opener = build_opener(*handlers)
                                holder = root_name(st.value.func) if isinstance(st, ast.Expr) and isinstance(st.value, ast.Call) else None
                                for d in defs.get(recv, []):
                                    if isinstance(d.value, ast.AST) and holder and holder in {y.id for y in ast.walk(d.value) if isinstance(y, ast.Name)}:
                                        connected = True
                                    if isinstance(d.value, ast.AST) and "self.cookiejar" in text(d.value):
                                        connected = True
            if connected:
                rep.check("N-R8", f"post_request:{text(s.func)}:jar-on-sending-object", True, "", loc(p, s))
            else:
                rep.note(f"N-R8 undecided: could not connect self.cookiejar to the object behind {text(s.func)}")


def n_r9_constructor_params(p: Project, rep: Report):
    """every constructor argument of the client is kept under its own name"""
    from .fold import fold
    from .source import UNK

    rep.rule("N-R9", "what the client is configured with is what it uses: every parameter of OFXClient.__init__ is stored on the instance under its own name - directly (`self.x = x`), or by a setattr loop whose names are a constant table (`locals()[name]`) or the keys of a dict display whose values are the like-named parameters.  A parameter that is accepted and never stored (e.g. useragent) silently falls back to the class default")
    ci = client_class(p)
    fn = ci.own_func("__init__")
    if fn is None:
        raise AnalysisError("OFXClient.__init__ not found")
    params = [a for a in params_of(fn)[1:]]
    stored: Set[str] = set()
    unknown = False
    for st in own_statements(fn):
        if isinstance(st, (ast.Assign, ast.AnnAssign)):
            t = st.targets[0] if isinstance(st, ast.Assign) else st.target
            if isinstance(t, ast.Attribute) and text(t.value) == "self" and st.value is not None:
                if any(isinstance(x, ast.Name) and x.id == t.attr for x in ast.walk(st.value)):
                    stored.add(t.attr)
    defs = local_defs(fn)
    for lp in [x for x in ast.walk(fn) if isinstance(x, ast.For)]:
        sets = [c for c in ast.walk(lp) if isinstance(c, ast.Call) and isinstance(c.func, ast.Name) and c.func.id == "setattr" and len(c.args) == 3 and text(c.args[0]) == "self"]
        if not sets:
            continue
        it = lp.iter
        if isinstance(it, ast.Name) and len(defs.get(it.id, [])) == 1 and isinstance(defs[it.id][0].value, ast.AST):
            it = defs[it.id][0].value
        names = None
        # for name in ["a", "b", ...]: value = locals()[name]
        v = fold(it, {}, p, CLIENT)
        if v is UNK and isinstance(it, ast.Attribute) and isinstance(it.value, ast.Name) and it.value.id in ("self", "cls", ci.name):
            # a table kept as a class attribute: self._names / OFXClient._names
            cv = ci.lookup(it.attr)
            if isinstance(cv, (tuple, list)):
                v = tuple(cv)
        if isinstance(v, (tuple, list)) and all(isinstance(x, str) for x in v) and isinstance(lp.target, ast.Name):
            # locals()[name], or <alias>[name] with `alias = locals()` bound once
            loc_aliases = {nm for nm, ds in defs.items() if len(ds) == 1 and isinstance(ds[0].value, ast.Call) and text(ds[0].value.func) == "locals"}
            uses_locals = any(isinstance(c, ast.Subscript) and text(c.slice) == lp.target.id and ((isinstance(c.value, ast.Call) and text(c.value.func) == "locals") or (isinstance(c.value, ast.Name) and c.value.id in loc_aliases)) for c in ast.walk(lp))
            if uses_locals and all(text(c.args[1]) == lp.target.id for c in sets):
                names = set(v)
        # for name, value in dict(a=a, ...).items()  /  {"a": a, ...}.items()
        if names is None and isinstance(it, ast.Call) and isinstance(it.func, ast.Attribute) and it.func.attr == "items":
            d = it.func.value
            if isinstance(d, ast.Name) and len(defs.get(d.id, [])) == 1 and isinstance(defs[d.id][0].value, ast.AST):
                d = defs[d.id][0].value
            pairs = None
            if isinstance(d, ast.Call) and text(d.func) == "dict" and not d.args:
                pairs = [(k.arg, k.value) for k in d.keywords if k.arg]
            elif isinstance(d, ast.Dict):
                pairs = [(k.value, v_) for k, v_ in zip(d.keys, d.values) if isinstance(k, ast.Constant)]
            if pairs is not None:
                names = {k for k, v_ in pairs if isinstance(v_, ast.Name) and v_.id == k}
        if names is None:
            unknown = True
        else:
            stored |= names
    # a private method that stores whatever keywords it is given: self._store(**kw) with `for k, v in kw.items(): setattr(self, k, v)`
    for c in own_nodes(fn):
        if isinstance(c, ast.Call) and isinstance(c.func, ast.Attribute) and text(c.func.value) == "self" and c.keywords:
            _d, h = ci.find_method(c.func.attr)
            if h is None or h.args.kwarg is None:
                continue
            kwn = h.args.kwarg.arg
            stores_all = False
            for lp in [x for x in ast.walk(h) if isinstance(x, ast.For)]:
                if text(lp.iter) == f"{kwn}.items()" and isinstance(lp.target, ast.Tuple) and len(lp.target.elts) == 2:
                    kn, vn = text(lp.target.elts[0]), text(lp.target.elts[1])
                    if any(isinstance(x, ast.Call) and isinstance(x.func, ast.Name) and x.func.id == "setattr" and len(x.args) == 3 and text(x.args[0]) == "self" and text(x.args[1]) == kn and text(x.args[2]) == vn for x in ast.walk(lp)):
                        stores_all = True
            if stores_all:
                stored |= {k.arg for k in c.keywords if k.arg and isinstance(k.value, ast.Name) and k.value.id == k.arg}
    missing = [x for x in params if x not in stored]
    # a parameter handed to some other call (a helper this rule cannot read) is not known to be dropped
    handed = {x.id for c in own_nodes(fn) if isinstance(c, ast.Call) and text(c.func) not in ("locals",) and not text(c.func).startswith("logger.") for a in list(c.args) + [k.value for k in c.keywords] for x in ast.walk(a) if isinstance(x, ast.Name)}
    if missing and all(x in handed for x in missing):
        rep.note(f"N-R9 undecided: {missing} are handed to a helper the rule cannot read")
        return
    if unknown and missing:
        rep.note(f"N-R9 undecided: constructor stores attributes through an unrecognised loop; not seen stored: {missing}")
        return
    for x in params:
        rep.check("N-R9", f"__init__:{x}:stored", x in stored, f"the constructor accepts `{x}` and never stores it: the client keeps the class default whatever it was configured with" if x not in stored else "", loc(p, fn))


def n_r11_url_fixed(p: Project, rep: Report):
    """the configured endpoint is not replaced by what a profile advertises"""
    rep.rule("N-R11", "the configured URL stays the configured URL: no method of OFXClient other than __init__ stores self.url (directly, in a chained assignment, by setattr with that name).  A URL taken from a profile is a routing decision for ONE request; written to self.url it becomes the address of every later profile request and of every request made with the profile lookup skipped, so the anonymous profile request no longer goes to the configured server")
    ci = client_class(p)
    n = 0
    bad = None
    unknown = None
    for fn in [x for x in ci.node.body if isinstance(x, ast.FunctionDef) and x.name not in ("__init__", "__new__")]:
        n += 1
        for x in ast.walk(fn):
            if isinstance(x, ast.Attribute) and x.attr == "url" and isinstance(x.ctx, (ast.Store, ast.Del)) and text(x.value) == "self":
                bad = bad or (fn, x, text(x))
            elif isinstance(x, ast.Call) and isinstance(x.func, ast.Name) and x.func.id == "setattr" and len(x.args) == 3 and text(x.args[0]) == "self":
                if isinstance(x.args[1], ast.Constant):
                    if x.args[1].value == "url":
                        bad = bad or (fn, x, text(x))
                else:
                    unknown = unknown or (fn, x)
            elif isinstance(x, ast.Call) and text(x.func) in ("self.__dict__.update", "vars(self).update"):
                unknown = unknown or (fn, x)
    if bad is not None:
        rep.check("N-R11", f"OFXClient.{bad[0].name}:stores-self.url", False, f"{bad[0].name}() executes {bad[2][:60]}: the client's configured URL is overwritten at run time (with the service URL a profile advertises), so later requests that are to go to the configured URL - every profile request, and statement / account / tax requests with skip_profile - go elsewhere", f"{ci.mod.relpath}:{bad[1].lineno}")
    elif unknown is not None:
        rep.note(f"N-R11 undecided: OFXClient.{unknown[0].name} stores instance attributes under computed names ({text(unknown[1])[:50]})")
    else:
        rep.check("N-R11", "OFXClient:self.url-stored-only-by-__init__", True, f"{n} methods", f"{ci.mod.relpath}:{ci.node.lineno}")


def n_r12_no_resending_handler(p: Project, rep: Report):
    """nothing between the client and the wire repeats the request somewhere else"""
    rep.rule("N-R12", "one request is one POST to the URL chosen for it: the opener / session the client posts through is built from cookie handling only - no handler class of the repository (a urllib BaseHandler / HTTPRedirectHandler subclass) builds a new Request carrying the body (`data=`), which would re-POST the signed-on request, credentials included, to whatever URL a server's 3xx answer names; no retry wrapper re-issues the call")
    mod = p.module(CLIENT)
    rel = mod.relpath
    n = 0
    # handler classes defined in the repository
    for bname, kind, payload in mod.bindings:
        if kind != "class":
            continue
        ci = p.get_class(CLIENT, bname)
        is_handler = any(isinstance(b, Ext) and any(t in b.name for t in ("Handler", "HTTPAdapter", "Processor")) for b in ci.mro)
        if not is_handler:
            continue
        n += 1
        resend = None
        for fn in [x for x in ci.node.body if isinstance(x, ast.FunctionDef)]:
            for c in ast.walk(fn):
                if isinstance(c, ast.Call) and (dotted(c.func) or "").split(".")[-1] == "Request" and any(k.arg == "data" for k in c.keywords):
                    resend = (fn, c)
        rep.check("N-R12", f"{bname}:does-not-resend-the-body", resend is None, f"{bname}.{resend[0].name}() builds a new Request with data= (the body of the request being answered): a 307/308 answer makes the client POST the same signed-on request again, to a URL that is neither configured nor advertised by the profile" if resend else "", f"{rel}:{(resend[1] if resend else ci.node).lineno}")
    # retry loops around the opener call in post_request
    ci = client_class(p)
    pr = ci.own_func("post_request")
    if pr is not None:
        sends = [c for c in ast.walk(pr) if isinstance(c, ast.Call) and isinstance(c.func, ast.Attribute) and c.func.attr in ("open", "post", "urlopen", "send", "request")]
        in_loop = [c for c in sends if any(isinstance(a, (ast.For, ast.While)) for a in _ancestors(c, pr))]
        in_handler = [c for c in sends if any(isinstance(a, ast.ExceptHandler) for a in _ancestors(c, pr))]
        bad = in_loop or in_handler
        rep.check("N-R12", "post_request:sends-once", not bad, f"{text(bad[0])[:50]} sits inside a {'loop' if in_loop else 'exception handler'}: a request that was already sent (and may have been processed) is sent again" if bad else "", f"{rel}:{(bad[0] if bad else pr).lineno}")
    rep.unit("handler_classes", n)


def _ancestors(node, top):
    from .source import parent

    out = []
    cur = parent(node)
    while cur is not None and cur is not top:
        out.append(cur)
        cur = parent(cur)
    return out


def n_r14_msgset_wiring(p: Project, rep: Report):
    """two tables of one relation: which message set serves which kind of request"""
    rep.rule("N-R14", "the URL a credentialed request is sent to is the one the profile advertises FOR ITS OWN message set: every pairing <X>MSGSET -> request tuple in _get_service_urls (the class map, module-level or local, and the closing-statement calls) names the message set whose request wrapper <X>MSGSRQV1 the module's own wrap_stmtrq handler puts that tuple's requests in - the two tables are siblings and must agree (an investment statement request routed by SECLISTMSGSET's URL goes, with the user's credentials, to a server the profile did not name for it)")
    m = p.module(CLIENT)
    ci = client_class(p)
    # table 1: request tuple -> message-set request wrapper, from the singledispatch handlers
    wrapper = {}
    for st in m.tree.body:
        if not isinstance(st, ast.FunctionDef):
            continue
        for d in st.decorator_list:
            if isinstance(d, ast.Call) and isinstance(d.func, ast.Attribute) and d.func.attr == "register" and d.args and isinstance(d.args[0], ast.Name):
                for r in ast.walk(st):
                    if isinstance(r, ast.Return) and isinstance(r.value, ast.Tuple) and r.value.elts and isinstance(r.value.elts[0], ast.Name) and r.value.elts[0].id.endswith("MSGSRQV1"):
                        wrapper[d.args[0].id] = r.value.elts[0].id[: -len("MSGSRQV1")]
    if len(wrapper) < 5:
        rep.note(f"N-R14 undecided: only {len(wrapper)} request wrappers recognised")
        return
    fn = ci.own_func("_get_service_urls")
    if fn is None:
        raise AnalysisError("OFXClient._get_service_urls not found")
    pairs = []
    dicts = [d for d in ast.walk(fn) if isinstance(d, ast.Dict)]
    # a class map hoisted to module level and used by name
    for nm in {x.id for x in ast.walk(fn) if isinstance(x, ast.Name)}:
        for st in m.tree.body:
            tg = st.targets[0] if isinstance(st, ast.Assign) and len(st.targets) == 1 else (st.target if isinstance(st, ast.AnnAssign) else None)
            if isinstance(tg, ast.Name) and tg.id == nm and isinstance(getattr(st, "value", None), ast.Dict):
                dicts.append(st.value)
    for d in dicts:
        for k, v in zip(d.keys, d.values):
            if isinstance(k, ast.Name) and k.id.endswith("MSGSET") and isinstance(v, ast.Name):
                pairs.append((k.id, v.id, k))
    for c in ast.walk(fn):
        if isinstance(c, ast.Call) and len(c.args) == 2 and all(isinstance(a, ast.Name) for a in c.args) and c.args[0].id.endswith("MSGSET") and c.args[1].id in wrapper:
            pairs.append((c.args[0].id, c.args[1].id, c))
    for ms, rq, node in pairs:
        if rq not in wrapper:
            continue
        stem = ms[: -len("MSGSET")]
        ok = stem == wrapper[rq]
        rep.check("N-R14", f"_get_service_urls:{rq}<-{ms}", ok, f"{rq} requests are sent to the URL of {ms}, but wrap_stmtrq puts them in {wrapper[rq]}MSGSRQV1: the profile's URL for {wrapper[rq]}MSGSET is the one that serves them" if not ok else "", loc(p, node))
    rep.floor("N-R14", len(pairs), 5, "message-set / request-tuple pairings")


def n_r15_one_service_url_or_none(p: Project, rep: Report):
    """picking `the` service URL out of a set requires the set to have one member"""
    rep.rule("N-R15", "where a credentialed request takes its URL out of the SET of URLs the profile advertises (`urls = set(<mapping>.values()); url = urls.pop()`), every path to the pop() has established that the set has exactly one member (assert len(urls) == 1, or a raise unless it is): set.pop() of a larger set returns an ARBITRARY member, so with different URLs advertised for banking and investments the user's credentials go to a server the profile did not name for that message set - failing closed is what the code does today")
    from . import paths as PT
    from .flat import flat

    ci = client_class(p)
    n = 0
    for fn0 in [f for f in ci.node.body if isinstance(f, ast.FunctionDef)]:
        pops = [c for c in ast.walk(fn0) if isinstance(c, ast.Call) and isinstance(c.func, ast.Attribute) and c.func.attr == "pop" and not c.args and isinstance(c.func.value, ast.Name)]
        sets_ = {st.targets[0].id for st in ast.walk(fn0) if isinstance(st, ast.Assign) and len(st.targets) == 1 and isinstance(st.targets[0], ast.Name) and isinstance(st.value, ast.Call) and text(st.value.func) == "set" and st.value.args and text(st.value.args[0]).endswith(".values()")}
        pops = [c for c in pops if c.func.value.id in sets_]
        if not pops:
            continue
        try:
            pl = PT.enumerate_paths(fn0, None, Expander(fn0), resolve=False)
        except AnalysisError as e:
            rep.note(f"N-R15 undecided: {fn0.name}: {e}")
            continue
        cfg = pl.cfg
        for c in pops:
            nm = c.func.value.id
            n += 1
            node = next((x for x in cfg.nodes if x.stmt is not None and x.kind not in ("join", "handlers", "test", "loop") and isinstance(x.stmt, (ast.Assign, ast.AnnAssign, ast.Expr, ast.Return, ast.AugAssign)) and any(y is c for y in ast.walk(x.stmt))), None)
            if node is None:
                rep.note(f"N-R15 undecided: {fn0.name}: pop() not located")
                continue
            goal = PT.any_of(PT.atom(f"len({nm}) == 1", True), PT.atom(f"1 == len({nm})", True))
            ok = True
            for q in pl:
                cb = q.conds_before(node.id)
                if cb is None:
                    continue
                facts = PT.simple_conds(cb)
                est = facts.get(f"len({nm}) == 1") is True or facts.get(f"1 == len({nm})") is True or facts.get(f"len({nm}) != 1") is False or facts.get(f"raises(assert len({nm}) == 1)") is False
                if not est:
                    ok = False
            rep.check("N-R15", f"OFXClient.{fn0.name}:{nm}.pop():one-member", ok, f"{fn0.name} takes `{nm}.pop()` on a path that has not established len({nm}) == 1: when the profile advertises different URLs for different message sets an arbitrary one is used, and the signed-on request reaches a server not advertised for it" if not ok else "", loc(p, c))
    rep.unit("service_url_picks", n)
    if n == 0:
        rep.note("N-R15: no `set(...values()).pop()` pick of a service URL found")
