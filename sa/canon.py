"""Canonicalisation of function bodies before rule evaluation, so that behaviour-preserving
refactorings (extract / inline a private helper, loop <-> comprehension, named temporaries) lead to
the same shape:

* `inline(fn, resolver)`  - returns a copy of `fn` in which calls to small private helpers of the
  same module / class are replaced by the helper's body (parameters bound by assignment, locals
  renamed, `return` turned into assignment + exit of a one-shot `while True:` block).  Only calls in
  statement position (`helper(...)`, `x = helper(...)`, `return helper(...)`) and calls to
  single-expression helpers (anywhere) are inlined.
* `loops_to_comprehensions(fn)` - rewrites the three accumulate-in-a-loop idioms (list append, dict
  store, conditional counter) into the equivalent comprehension / sum().

Both are purely syntactic source-to-source transformations of the analysed code (nothing is run);
they are applied on copies, the module trees stay as parsed."""
from __future__ import annotations

import ast
import itertools
from typing import Callable, Dict, List, Optional, Tuple

from .dataflow import clone, own_nodes, own_statements, params_of

_counter = itertools.count(1)
MAX_BODY = 45


def _set_parents(tree):
    for parent in ast.walk(tree):
        for child in ast.iter_child_nodes(parent):
            child._parent = parent  # type: ignore[attr-defined]
    return tree


def copy_fn(fn):
    new = ast.parse(ast.unparse(fn)).body[0]
    # keep line numbers of the original where the structure is identical
    for a, b in zip(ast.walk(fn), ast.walk(new)):
        if type(a) is type(b) and hasattr(a, "lineno"):
            b.lineno = a.lineno
            b.col_offset = getattr(a, "col_offset", 0)
    return _set_parents(new)


# --------------------------------------------------------------------------
# helper eligibility
# --------------------------------------------------------------------------
def _is_simple_helper(h) -> bool:
    if not isinstance(h, ast.FunctionDef):
        return False
    a = h.args
    if a.vararg or a.kwarg or a.posonlyargs:
        return False
    for d in h.decorator_list:
        name = ast.unparse(d)
        if name not in ("staticmethod", "classmethod"):
            return False
    n_stmts = sum(1 for _ in ast.walk(h) if isinstance(_, ast.stmt))
    if n_stmts > MAX_BODY:
        return False
    for x in ast.walk(h):
        if isinstance(x, (ast.Yield, ast.YieldFrom, ast.Await, ast.Global, ast.Nonlocal)):
            return False
        if isinstance(x, (ast.FunctionDef, ast.ClassDef, ast.Lambda)) and x is not h:
            # closures inside helpers: keep it simple
            if isinstance(x, (ast.FunctionDef, ast.ClassDef)):
                return False
        if isinstance(x, ast.Call) and isinstance(x.func, ast.Name) and x.func.id == h.name:
            return False  # recursive
        if isinstance(x, ast.Call) and isinstance(x.func, ast.Attribute) and x.func.attr == h.name and isinstance(x.func.value, ast.Name) and x.func.value.id in ("self", "cls"):
            return False
    return True


def _specialise_kwargs(h, call: ast.Call):
    """a helper `def h(a, b, **kw)` that does nothing with kw but forward it (`f(.., **kw)`), called with explicit
    keywords: the copy `def h(a, b, *, k1, k2)` with `f(.., k1=k1, k2=k2)` - what this call site executes"""
    kw = h.args.kwarg.arg
    uses = [x for x in ast.walk(h) if isinstance(x, ast.Name) and x.id == kw]
    fwd = [k for c in ast.walk(h) if isinstance(c, ast.Call) for k in c.keywords if k.arg is None and isinstance(k.value, ast.Name) and k.value.id == kw]
    if not fwd or len(uses) != len(fwd):
        return None
    if any(k.arg is None for k in call.keywords) or any(isinstance(a, ast.Starred) for a in call.args):
        return None
    named = {a.arg for a in h.args.args} | {a.arg for a in h.args.kwonlyargs}
    surplus = [k.arg for k in call.keywords if k.arg not in named]
    locals_ = {x.id for x in ast.walk(h) if isinstance(x, ast.Name) and isinstance(x.ctx, ast.Store)}
    if any(s in locals_ for s in surplus):
        return None
    new = copy_fn(h)
    new.args.kwarg = None
    for s_ in surplus:
        new.args.kwonlyargs.append(ast.arg(arg=s_, annotation=None))
        new.args.kw_defaults.append(None)
    for c in ast.walk(new):
        if isinstance(c, ast.Call):
            out = []
            for k in c.keywords:
                if k.arg is None and isinstance(k.value, ast.Name) and k.value.id == kw:
                    out += [ast.keyword(arg=s_, value=ast.Name(id=s_, ctx=ast.Load())) for s_ in surplus]
                else:
                    out.append(k)
            c.keywords = out
    ast.fix_missing_locations(new)
    return new


def _body_wo_doc(h):
    body = list(h.body)
    if body and isinstance(body[0], ast.Expr) and isinstance(body[0].value, ast.Constant) and isinstance(body[0].value.value, str):
        body = body[1:]
    return body


def _single_expr(h) -> Optional[ast.expr]:
    """the helper as one expression: `return e`, or `if c: return a` (else/then) `return b` -> `a if c else b`"""
    body = _body_wo_doc(h)

    def max_uses(e, name) -> int:
        if isinstance(e, ast.IfExp):
            return max_uses(e.test, name) + max(max_uses(e.body, name), max_uses(e.orelse, name))
        return sum(1 for x in ast.walk(e) if isinstance(x, ast.Name) and x.id == name)

    def expr_of(stmts) -> Optional[ast.expr]:
        if len(stmts) == 1 and isinstance(stmts[0], ast.Return):
            return stmts[0].value if stmts[0].value is not None else ast.Constant(value=None)
        # a leading temporary, bound once and used at most once on any evaluation: `kw = rq._asdict(); return f(kw)`
        if len(stmts) > 1 and isinstance(stmts[0], ast.Assign) and len(stmts[0].targets) == 1 and isinstance(stmts[0].targets[0], ast.Name):
            nm = stmts[0].targets[0].id
            stores = sum(1 for s_ in body for x in ast.walk(s_) if isinstance(x, ast.Name) and x.id == nm and isinstance(x.ctx, ast.Store))
            rest = expr_of(stmts[1:])
            if rest is not None and stores == 1 and max_uses(rest, nm) <= 1 and not any(isinstance(x, (ast.Lambda, ast.ListComp, ast.GeneratorExp, ast.DictComp, ast.SetComp)) for x in ast.walk(rest)):
                return _Rename({nm: stmts[0].value}).visit(clone(rest))
            return None
        if stmts and isinstance(stmts[0], ast.If):
            a = expr_of(stmts[0].body)
            rest = stmts[0].orelse if stmts[0].orelse else stmts[1:]
            if stmts[0].orelse and len(stmts) > 1:
                return None
            b = expr_of(rest)
            if a is not None and b is not None:
                return ast.IfExp(test=stmts[0].test, body=a, orelse=b)
        return None

    return expr_of(body)


def _fold_const_tests(e):
    """conditional expressions whose test is a comparison of constants (`'bankid' is None` after a constant argument was
    substituted for a parameter) are replaced by the arm that is evaluated"""

    class T(ast.NodeTransformer):
        def visit_IfExp(self, node):
            self.generic_visit(node)
            t = node.test
            neg = False
            if isinstance(t, ast.UnaryOp) and isinstance(t.op, ast.Not):
                t, neg = t.operand, True
            val = None
            if isinstance(t, ast.Compare) and len(t.ops) == 1 and isinstance(t.left, ast.Constant) and isinstance(t.comparators[0], ast.Constant):
                a, b = t.left.value, t.comparators[0].value
                if isinstance(t.ops[0], ast.Is):
                    val = (a is b) if (a is None or b is None) else None
                elif isinstance(t.ops[0], ast.IsNot):
                    val = (a is not b) if (a is None or b is None) else None
                elif isinstance(t.ops[0], ast.Eq):
                    val = a == b
                elif isinstance(t.ops[0], ast.NotEq):
                    val = a != b
            elif isinstance(t, ast.Constant):
                val = bool(t.value)
            if val is None:
                return node
            if neg:
                val = not val
            return node.body if val else node.orelse

    return T().visit(e)


def _bind_args(h, call: ast.Call, skip_first: bool) -> Optional[Dict[str, ast.expr]]:
    params = [a.arg for a in h.args.args]
    if skip_first:
        params = params[1:]
    defaults = h.args.defaults
    dmap = {}
    if defaults:
        for p, d in zip(params[len(params) - len(defaults):] if not skip_first else [a.arg for a in h.args.args][len(h.args.args) - len(defaults):], defaults):
            dmap[p] = d
    for a, d in zip(h.args.kwonlyargs, h.args.kw_defaults):
        params.append(a.arg)
        if d is not None:
            dmap[a.arg] = d
    bound: Dict[str, ast.expr] = {}
    pos = [p for p in params if p not in [a.arg for a in h.args.kwonlyargs]]
    if any(isinstance(a, ast.Starred) for a in call.args):
        return None
    if len(call.args) > len(pos):
        return None
    for p, a in zip(pos, call.args):
        bound[p] = a
    for k in call.keywords:
        if k.arg is None:
            # **dict(literal) is handled by callers' normalisation; give up here
            return None
        if k.arg not in params or k.arg in bound:
            return None
        bound[k.arg] = k.value
    for p in params:
        if p not in bound:
            if p in dmap:
                bound[p] = dmap[p]
            else:
                return None
    return bound


class _Rename(ast.NodeTransformer):
    def __init__(self, mapping: Dict[str, ast.expr]):
        self.mapping = mapping

    def visit_Name(self, node):
        if node.id in self.mapping:
            rep = self.mapping[node.id]
            if isinstance(rep, str):
                return ast.copy_location(ast.Name(id=rep, ctx=node.ctx), node)
            if isinstance(node.ctx, ast.Load):
                return ast.copy_location(clone(rep), node)
        return node

    def visit_arg(self, node):
        return node


def _locals_of(h) -> List[str]:
    names = []
    for x in ast.walk(h):
        if isinstance(x, ast.Name) and isinstance(x.ctx, (ast.Store, ast.Del)) and x.id not in names:
            names.append(x.id)
        if isinstance(x, ast.ExceptHandler) and x.name and x.name not in names:
            names.append(x.name)
    return names


def _simple_arg(e) -> bool:
    """argument expressions that can be substituted textually (no side effects, cheap)"""
    if isinstance(e, (ast.Name, ast.Constant)):
        return True
    if isinstance(e, ast.Attribute):
        return _simple_arg(e.value)
    return False


def _instantiate(h, bound: Dict[str, ast.expr], recv: Optional[str], tag: str):
    """(prelude assignments, renamed body)"""
    body = [ast.parse(ast.unparse(s)).body[0] for s in _body_wo_doc(h)]
    for orig, new in zip(_body_wo_doc(h), body):
        for a, b in zip(ast.walk(orig), ast.walk(new)):
            if type(a) is type(b) and hasattr(a, "lineno"):
                b.lineno = a.lineno
    params = set(bound)
    stored = set(_locals_of(h))
    mapping: Dict[str, object] = {}
    prelude: List[ast.stmt] = []
    for p, a in bound.items():
        if p in stored or not _simple_arg(a):
            new = f"{p}__{tag}"
            mapping[p] = new
            prelude.append(ast.Assign(targets=[ast.Name(id=new, ctx=ast.Store())], value=clone(a), lineno=getattr(h, "lineno", 0)))
        else:
            mapping[p] = a
    for l in stored:
        if l not in params:
            mapping[l] = f"{l}__{tag}"
    first = h.args.args[0].arg if h.args.args else None
    if recv is not None and first is not None and first not in bound:
        mapping[first] = recv
    rn = _Rename(mapping)
    body = [rn.visit(s) for s in body]
    return prelude, body


class _RetToBreak(ast.NodeTransformer):
    def __init__(self, target: Optional[ast.expr]):
        self.target = target

    def visit_FunctionDef(self, node):
        return node

    def visit_Lambda(self, node):
        return node

    def visit_Return(self, node):
        out: List[ast.stmt] = []
        if self.target is not None:
            out.append(ast.copy_location(ast.Assign(targets=[clone_store(self.target)], value=node.value or ast.Constant(value=None)), node))
        elif node.value is not None and not isinstance(node.value, (ast.Name, ast.Constant)):
            out.append(ast.copy_location(ast.Expr(value=node.value), node))
        out.append(ast.copy_location(ast.Break(), node))
        return out


class _NotALadder(Exception):
    pass


def _own_breaks(st) -> bool:
    """does the statement contain a break that belongs to the enclosing (one-shot) loop?"""
    if isinstance(st, ast.Break):
        return True
    if isinstance(st, (ast.For, ast.While, ast.FunctionDef, ast.ClassDef, ast.Lambda)):
        # breaks inside an inner loop belong to that loop; its else-arm could break the outer one - not generated
        return any(_own_breaks(x) for x in getattr(st, "orelse", []) or [])
    for fld in ("body", "orelse", "finalbody"):
        for x in getattr(st, fld, []) or []:
            if isinstance(x, ast.stmt) and _own_breaks(x):
                return True
    for h in getattr(st, "handlers", []) or []:
        if any(_own_breaks(x) for x in h.body):
            return True
    return False


def _terminates(block) -> bool:
    if not block:
        return False
    last = block[-1]
    if isinstance(last, (ast.Break, ast.Raise, ast.Return)):
        return True
    if isinstance(last, ast.If) and last.orelse:
        return _terminates(last.body) and _terminates(last.orelse)
    return False


def _structure_one_shot(stmts, depth: int = 0):
    """the body of `while True: ...; break` whose breaks are the ends of if-arms, rewritten as nested if/else without the
    loop (statements after a terminating arm move into the other arm).  Raises _NotALadder for any other shape."""
    if depth > 12:
        raise _NotALadder()
    out = []
    for i, st in enumerate(stmts):
        if isinstance(st, ast.Break):
            return out
        if isinstance(st, (ast.Raise, ast.Return)):
            out.append(st)
            return out
        if isinstance(st, ast.Continue):
            raise _NotALadder()
        if isinstance(st, ast.If) and (_own_breaks(st) or _terminates(st.body) or _terminates(st.orelse)):
            rest = list(stmts[i + 1:])
            bt, et = _terminates(st.body), _terminates(st.orelse)
            if not bt and not et and not _own_breaks(st):
                out.append(st)
                continue
            nb = _structure_one_shot(st.body if bt else list(st.body) + [clone(r) for r in rest], depth + 1)
            ne = _structure_one_shot(st.orelse if et else list(st.orelse) + [clone(r) for r in rest], depth + 1)
            new_if = ast.If(test=st.test, body=nb or [ast.Pass()], orelse=ne)
            ast.copy_location(new_if, st)
            out.append(new_if)
            return out
        if _own_breaks(st):
            raise _NotALadder()  # a break under try / with / match: keep the loop form
        out.append(st)
    # fell off the end without a break: the generated block always ends in one
    raise _NotALadder()


def clone_store(t):
    c = clone(t)
    for x in ast.walk(c):
        if isinstance(x, (ast.Name, ast.Attribute, ast.Subscript, ast.Tuple, ast.List)) and hasattr(x, "ctx"):
            pass
    c.ctx = ast.Store() if hasattr(c, "ctx") else None
    if isinstance(c, (ast.Tuple, ast.List)):
        for e in c.elts:
            if hasattr(e, "ctx"):
                e.ctx = ast.Store()
    return c


def _has_inner_loop_return(body) -> bool:
    """a `return` inside a loop of the helper would turn into a `break` of the wrong loop"""
    for s in body:
        for x in ast.walk(s):
            if isinstance(x, (ast.For, ast.While)):
                if any(isinstance(y, ast.Return) for y in ast.walk(x)):
                    return True
    return False


def _tail_returns_only(body) -> bool:
    """every return is in tail position (so no wrapper is needed when the call itself is returned)"""
    return True


# --------------------------------------------------------------------------
def method_values_to_calls(fn):
    """in place: a local that only ever holds a method of the receiver (`send = self._via_a` / `send = self._via_b` on
    the branches of a decision) and is then called - `return send(x)` - is a dispatch; the call statement becomes

        if send == self._via_a: return self._via_a(x)
        else:                   return self._via_b(x)

    so that the helpers can be inlined and every path still makes exactly one of the calls"""
    binds = {}
    other = set()
    for st in ast.walk(fn):
        if isinstance(st, ast.Assign) and len(st.targets) == 1 and isinstance(st.targets[0], ast.Name):
            v = st.value
            if isinstance(v, ast.Attribute) and isinstance(v.value, ast.Name) and v.value.id in ("self", "cls") and v.attr.startswith("_") and not v.attr.startswith("__"):
                binds.setdefault(st.targets[0].id, []).append(v)
            elif isinstance(v, ast.Attribute) and isinstance(v.value, ast.Call) and isinstance(v.value.func, ast.Name) and v.value.func.id == "super":
                # hook = super(C, C).groom ... hook(x): the inherited method, called through a local
                binds.setdefault(st.targets[0].id, []).append(v)
            else:
                other.add(st.targets[0].id)
        elif isinstance(st, (ast.AugAssign, ast.AnnAssign)) and isinstance(st.target, ast.Name):
            other.add(st.target.id)
    names = {n for n, vs in binds.items() if n not in other and len({ast.unparse(v) for v in vs}) >= 1}
    if not names:
        return fn

    def rewrite(stmts):
        out = []
        for st in stmts:
            for fld in ("body", "orelse", "finalbody"):
                sub = getattr(st, fld, None)
                if isinstance(sub, list) and sub and isinstance(sub[0], ast.stmt) and not isinstance(st, (ast.FunctionDef, ast.ClassDef)):
                    setattr(st, fld, rewrite(sub))
            for h in getattr(st, "handlers", []) or []:
                h.body = rewrite(h.body)
            call = None
            if isinstance(st, (ast.Return, ast.Expr, ast.Assign)) and isinstance(getattr(st, "value", None), ast.Call):
                call = st.value
            if call is not None and isinstance(call.func, ast.Name) and call.func.id in names:
                nm = call.func.id
                alts = []
                for v in binds[nm]:
                    if ast.unparse(v) not in [ast.unparse(a) for a in alts]:
                        alts.append(v)
                chain = None
                for v in reversed(alts):
                    s2 = ast.parse(ast.unparse(st)).body[0]
                    s2.value.func = ast.parse(ast.unparse(v), mode="eval").body
                    ast.copy_location(s2, st)
                    if chain is None:
                        chain = [s2]
                    else:
                        test = ast.parse(f"{nm} == {ast.unparse(v)}", mode="eval").body
                        chain = [ast.copy_location(ast.If(test=test, body=[s2], orelse=chain), st)]
                out.extend(chain)
            else:
                out.append(st)
        return out

    fn.body = rewrite(fn.body)
    ast.fix_missing_locations(fn)
    return _set_parents(fn)


def inline(fn, resolver: Callable[[ast.Call], Optional[Tuple[ast.FunctionDef, Optional[str]]]], depth: int = 2, keep: Callable[[str], bool] = None):
    """copy of fn with eligible helper calls inlined.  resolver(call) -> (helper FunctionDef, receiver name or None).
    `keep(name)` may veto inlining of a helper (rules that look the helper up by name keep it as a call)."""
    new = method_values_to_calls(copy_fn(fn))
    # a helper called in an arm of a conditional expression (`x = a if c else self._h(..)`) is reachable for inlining once
    # the assignment is an if statement (canonical() makes it one afterwards anyway)
    new = ifexp_assignments_to_if(new)
    for _ in range(depth):
        changed = _inline_once(new, resolver, keep)
        if not changed:
            break
    ast.fix_missing_locations(new)
    return _set_parents(new)


def _pure_operand(e) -> bool:
    """evaluating it has no effect and cannot be affected by a call evaluated after it"""
    if isinstance(e, (ast.Name, ast.Constant)):
        return True
    if isinstance(e, ast.Attribute):
        return _pure_operand(e.value)
    return False


def _hoist_spine_call(st, eligible):
    """if the first thing `st.value` evaluates (after plain names) is an inlinable multi-statement helper call that is
    not the whole value, replace it by a fresh temp and return the `temp = call` statement to put in front"""
    parent, fld, node = st, "value", st.value
    top = True
    while True:
        if isinstance(node, ast.Call) and not top:
            el = eligible(node)
            if el is not None and _single_expr(el[0]) is None:
                tmp = f"_t{next(_counter)}"
                setattr(parent, fld, ast.copy_location(ast.Name(id=tmp, ctx=ast.Load()), node)) if not isinstance(fld, tuple) else getattr(parent, fld[0]).__setitem__(fld[1], ast.copy_location(ast.Name(id=tmp, ctx=ast.Load()), node))
                return ast.copy_location(ast.Assign(targets=[ast.Name(id=tmp, ctx=ast.Store())], value=node), st)
        top = False
        if isinstance(node, ast.BinOp) and _pure_operand(node.left):
            parent, fld, node = node, "right", node.right
        elif isinstance(node, (ast.Attribute, ast.Subscript, ast.Starred)):
            parent, fld, node = node, "value", node.value
        elif isinstance(node, ast.Call):
            f = node.func
            if isinstance(f, ast.Name) or (isinstance(f, ast.Attribute) and isinstance(f.value, ast.Name)):
                if node.args:
                    parent, fld, node = node, ("args", 0), node.args[0]
                    continue
                return None
            parent, fld, node = node, "func", f
        else:
            return None


def _inline_once(fn, resolver, keep) -> bool:
    changed = False

    def eligible(call):
        r = resolver(call)
        if r is None:
            return None
        h, recv = r
        if isinstance(h, ast.FunctionDef) and h.args.kwarg is not None and not h.args.vararg:
            h = _specialise_kwargs(h, call) or h
        if h is fn or not _is_simple_helper(h) or (keep and keep(h.name)):
            return None
        if h.name == fn.name:
            return None
        is_method = recv is not None
        static = any(ast.unparse(d) == "staticmethod" for d in h.decorator_list)
        bound = _bind_args(h, call, skip_first=is_method and not static)
        if bound is None:
            return None
        return h, (recv if (is_method and not static) else None), bound

    def do_block(stmts: List[ast.stmt]) -> List[ast.stmt]:
        nonlocal changed
        out: List[ast.stmt] = []
        for st in stmts:
            # recurse into compound statements first
            for fld in ("body", "orelse", "finalbody"):
                sub = getattr(st, fld, None)
                if isinstance(sub, list) and sub and isinstance(sub[0], ast.stmt) and not isinstance(st, (ast.FunctionDef, ast.ClassDef)):
                    setattr(st, fld, do_block(sub))
            for h in getattr(st, "handlers", []) or []:
                h.body = do_block(h.body)
            # a helper call on the evaluation spine of a simple statement (`h(x).a[0]`, `g(h(x))`): hoist into a temp
            if isinstance(st, (ast.Assign, ast.AnnAssign, ast.Expr, ast.Return)) and getattr(st, "value", None) is not None:
                hoisted = _hoist_spine_call(st, eligible)
                if hoisted is not None:
                    changed = True
                    out.extend(do_block([hoisted, st]))
                    continue
            # a multi-statement helper called as (the negation of / the first operand of) an if test: the test is the first
            # thing the statement evaluates, so `if not self._h(x):` is `t = self._h(x); if not t:`
            if isinstance(st, ast.If):
                holder, fld_, node_ = st, "test", st.test
                for _ in range(3):
                    if isinstance(node_, ast.UnaryOp) and isinstance(node_.op, ast.Not):
                        holder, fld_, node_ = node_, "operand", node_.operand
                    elif isinstance(node_, ast.BoolOp):
                        holder, fld_, node_ = node_, ("values", 0), node_.values[0]
                    else:
                        break
                if isinstance(node_, ast.Call):
                    el_ = eligible(node_)
                    if el_ is not None and _single_expr(el_[0]) is None:
                        tmp_ = f"_t{next(_counter)}"
                        nm_ = ast.copy_location(ast.Name(id=tmp_, ctx=ast.Load()), node_)
                        if isinstance(fld_, tuple):
                            getattr(holder, fld_[0])[fld_[1]] = nm_
                        else:
                            setattr(holder, fld_, nm_)
                        hoisted_if = ast.copy_location(ast.Assign(targets=[ast.Name(id=tmp_, ctx=ast.Store())], value=node_), st)
                        changed = True
                        out.extend(do_block([hoisted_if]))
                        out.append(st)
                        continue
            call, target, mode = None, None, None
            if isinstance(st, ast.Expr) and isinstance(st.value, ast.Call):
                call, mode = st.value, "expr"
            elif isinstance(st, ast.Return) and isinstance(st.value, ast.Call):
                call, mode = st.value, "return"
            elif isinstance(st, ast.Assign) and len(st.targets) == 1 and isinstance(st.value, ast.Call):
                call, target, mode = st.value, st.targets[0], "assign"
            elif isinstance(st, ast.AnnAssign) and st.value is not None and isinstance(st.value, ast.Call):
                call, target, mode = st.value, st.target, "assign"
            el = eligible(call) if call is not None else None
            if el is not None:
                h, recv, bound = el
                tag = f"{h.name.strip('_')}{next(_counter)}"
                prelude, body = _instantiate(h, bound, recv, tag)
                if mode == "return" and not _has_inner_loop_return(body):
                    # returns stay returns; falling off the end returns None
                    new_stmts = prelude + body
                    if not (body and isinstance(body[-1], (ast.Return, ast.Raise))):
                        new_stmts.append(ast.copy_location(ast.Return(value=ast.Constant(value=None)), st))
                    out.extend(new_stmts)
                    changed = True
                    continue
                if not _has_inner_loop_return(body):
                    has_ret = any(isinstance(x, ast.Return) for s in body for x in ast.walk(s))
                    tail_only = has_ret and isinstance(body[-1], ast.Return) and sum(isinstance(x, ast.Return) for s in body for x in ast.walk(s)) == 1
                    if not has_ret:
                        new_stmts = prelude + body
                        if mode == "assign":
                            new_stmts.append(ast.copy_location(ast.Assign(targets=[clone_store(target)], value=ast.Constant(value=None)), st))
                        out.extend(new_stmts)
                        changed = True
                        continue
                    if tail_only:
                        last = body[-1]
                        new_stmts = prelude + body[:-1]
                        if mode == "assign":
                            new_stmts.append(ast.copy_location(ast.Assign(targets=[clone_store(target)], value=last.value or ast.Constant(value=None)), st))
                        elif last.value is not None and isinstance(last.value, ast.Call):
                            new_stmts.append(ast.copy_location(ast.Expr(value=last.value), st))
                        out.extend(new_stmts)
                        changed = True
                        continue
                    # early returns: one-shot block
                    tr = _RetToBreak(target if mode == "assign" else None)
                    wbody: List[ast.stmt] = []
                    for s in body:
                        r = tr.visit(s)
                        wbody.extend(r if isinstance(r, list) else [r])
                    if mode == "assign":
                        wbody.append(ast.Assign(targets=[clone_store(target)], value=ast.Constant(value=None)))
                    wbody.append(ast.Break())
                    w = ast.While(test=ast.Constant(value=True), body=wbody, orelse=[])
                    ast.copy_location(w, st)
                    # a helper whose early returns all sit in if-arms is an if/else ladder: say so, instead of a one-shot loop
                    for s_ in wbody:
                        for x_ in ast.walk(s_):
                            if isinstance(x_, (ast.stmt, ast.expr)) and not hasattr(x_, "lineno"):
                                ast.copy_location(x_, st)
                    try:
                        ladder = _structure_one_shot(wbody)
                    except _NotALadder:
                        ladder = None
                    if ladder is not None:
                        for s_ in ladder:
                            ast.fix_missing_locations(ast.copy_location(s_, st) if not hasattr(s_, "lineno") else s_)
                        out.extend(prelude + ladder)
                    else:
                        out.extend(prelude + [w])
                    changed = True
                    continue
            out.append(st)
        return out

    fn.body = do_block(fn.body)

    # expression-level inlining of single-expression helpers
    class ExprInline(ast.NodeTransformer):
        def visit_FunctionDef(self, node):
            if node is fn:
                self.generic_visit(node)
            return node

        def visit_Call(self, node):
            nonlocal changed
            self.generic_visit(node)
            # beta-reduction: a call of a local name bound (once) to a lambda
            if isinstance(node.func, ast.Name) and not node.keywords:
                lams = [st.value for st in ast.walk(fn) if isinstance(st, ast.Assign) and len(st.targets) == 1 and isinstance(st.targets[0], ast.Name) and st.targets[0].id == node.func.id]
                if len(lams) == 1 and isinstance(lams[0], ast.Lambda):
                    lam = lams[0]
                    ps = [a.arg for a in lam.args.args]
                    if len(ps) == len(node.args) and not lam.args.vararg and not lam.args.kwarg and all(_simple_arg(a) or sum(isinstance(x, ast.Name) and x.id == q for x in ast.walk(lam.body)) <= 1 for q, a in zip(ps, node.args)):
                        changed = True
                        return ast.copy_location(_Rename(dict(zip(ps, node.args))).visit(clone(lam.body)), node)
            if isinstance(node.func, ast.Lambda) and not node.keywords:
                lam = node.func
                ps = [a.arg for a in lam.args.args]
                if len(ps) == len(node.args):
                    changed = True
                    return ast.copy_location(_Rename(dict(zip(ps, node.args))).visit(clone(lam.body)), node)
            el = eligible(node)
            if el is None:
                return node
            h, recv, bound = el
            e = _single_expr(h)
            if e is None:
                return node
            if not all(_simple_arg(a) or sum(isinstance(x, ast.Name) and x.id == p for x in ast.walk(e)) <= 1 for p, a in bound.items()):
                return node
            mapping: Dict[str, object] = dict(bound)
            first = h.args.args[0].arg if h.args.args else None
            if recv is not None and first is not None and first not in bound:
                mapping[first] = recv
            changed = True
            return ast.copy_location(_fold_const_tests(_Rename(mapping).visit(clone(e))), node)

    ExprInline().visit(fn)
    return changed


# --------------------------------------------------------------------------
def loops_to_comprehensions(fn):
    """in place (call on a copy): acc=[]/{}/0 followed by the accumulate loop -> comprehension"""

    def guard_split(body):
        """(list of filter conditions, core statements) for bodies of the form
        `if not c: continue` ... core   or   `if c: core`"""
        conds = []
        body = list(body)
        while body and isinstance(body[0], ast.If) and not body[0].orelse and len(body[0].body) == 1 and isinstance(body[0].body[0], ast.Continue):
            conds.append(ast.UnaryOp(op=ast.Not(), operand=body[0].test))
            body = body[1:]
        if len(body) == 1 and isinstance(body[0], ast.If) and not body[0].orelse:
            conds.append(body[0].test)
            body = list(body[0].body)
        return conds, body

    def do_block(stmts):
        out = []
        i = 0
        while i < len(stmts):
            st = stmts[i]
            for fld in ("body", "orelse", "finalbody"):
                sub = getattr(st, fld, None)
                if isinstance(sub, list) and sub and isinstance(sub[0], ast.stmt) and not isinstance(st, (ast.FunctionDef, ast.ClassDef)):
                    setattr(st, fld, do_block(sub))
            for h in getattr(st, "handlers", []) or []:
                h.body = do_block(h.body)
            nxt = stmts[i + 1] if i + 1 < len(stmts) else None
            done = False
            if isinstance(st, (ast.Assign, ast.AnnAssign)) and isinstance(nxt, ast.For) and not nxt.orelse:
                tgt = st.targets[0] if isinstance(st, ast.Assign) and len(st.targets) == 1 else (st.target if isinstance(st, ast.AnnAssign) else None)
                val = st.value
                if isinstance(tgt, ast.Name) and val is not None:
                    conds, core = guard_split(nxt.body)
                    acc = tgt.id
                    uses_acc_elsewhere = any(isinstance(x, ast.Name) and x.id == acc for c in conds for x in ast.walk(c))
                    if len(core) == 1 and not uses_acc_elsewhere:
                        c0 = core[0]
                        gen = ast.comprehension(target=nxt.target, iter=nxt.iter, ifs=conds, is_async=0)
                        new_val = None
                        if isinstance(val, ast.List) and not val.elts and isinstance(c0, ast.Expr) and isinstance(c0.value, ast.Call) and isinstance(c0.value.func, ast.Attribute) and c0.value.func.attr == "append" and isinstance(c0.value.func.value, ast.Name) and c0.value.func.value.id == acc and len(c0.value.args) == 1:
                            new_val = ast.ListComp(elt=c0.value.args[0], generators=[gen])
                        elif isinstance(val, ast.Dict) and not val.keys and isinstance(c0, ast.Assign) and len(c0.targets) == 1 and isinstance(c0.targets[0], ast.Subscript) and isinstance(c0.targets[0].value, ast.Name) and c0.targets[0].value.id == acc:
                            new_val = ast.DictComp(key=c0.targets[0].slice, value=c0.value, generators=[gen])
                        elif isinstance(val, ast.Constant) and val.value == 0 and isinstance(c0, ast.AugAssign) and isinstance(c0.op, ast.Add) and isinstance(c0.target, ast.Name) and c0.target.id == acc and isinstance(c0.value, ast.Constant) and c0.value.value == 1 and conds:
                            test = conds[0] if len(conds) == 1 else ast.BoolOp(op=ast.And(), values=conds)
                            gen2 = ast.comprehension(target=nxt.target, iter=nxt.iter, ifs=[], is_async=0)
                            new_val = ast.Call(func=ast.Name(id="sum", ctx=ast.Load()), args=[ast.ListComp(elt=test, generators=[gen2])], keywords=[])
                        if new_val is not None:
                            new_st = ast.Assign(targets=[ast.Name(id=acc, ctx=ast.Store())], value=new_val)
                            ast.copy_location(new_st, nxt)
                            out.append(ast.fix_missing_locations(new_st))
                            i += 2
                            done = True
            if not done:
                out.append(st)
                i += 1
        return out

    fn.body = do_block(fn.body)
    ast.fix_missing_locations(fn)
    return _set_parents(fn)


def formats_to_fstrings(fn):
    """in place: '<const>'.format(positional / keyword simple fields) -> the equivalent f-string, so that the two
    spellings compare equal"""
    import string

    class T(ast.NodeTransformer):
        def visit_Call(self, node):
            self.generic_visit(node)
            f = node.func
            if isinstance(f, ast.Attribute) and f.attr == "format" and isinstance(f.value, ast.Constant) and isinstance(f.value.value, str):
                if any(isinstance(a, ast.Starred) for a in node.args) or any(k.arg is None for k in node.keywords):
                    return node
                try:
                    parts = list(string.Formatter().parse(f.value.value))
                except ValueError:
                    return node
                values = []
                auto = 0
                kw = {k.arg: k.value for k in node.keywords}
                for lit, field, spec, conv in parts:
                    if lit:
                        values.append(ast.Constant(value=lit))
                    if field is None:
                        continue
                    if field == "":
                        if auto >= len(node.args):
                            return node
                        v = node.args[auto]
                        auto += 1
                    elif field.isdigit():
                        if int(field) >= len(node.args):
                            return node
                        v = node.args[int(field)]
                    elif field in kw:
                        v = kw[field]
                    else:
                        return node
                    fs = ast.JoinedStr(values=[ast.Constant(value=spec)]) if spec else None
                    values.append(ast.FormattedValue(value=v, conversion=ord(conv) if conv else -1, format_spec=fs))
                return ast.copy_location(ast.JoinedStr(values=values), node)
            return node

    T().visit(fn)
    ast.fix_missing_locations(fn)
    return _set_parents(fn)


def ifexp_assignments_to_if(fn):
    """in place: `x = a if c else b`  ->  if c: x = a  else: x = b   (so that path enumeration sees the decision)"""

    def do_block(stmts):
        out = []
        for st in stmts:
            for fld in ("body", "orelse", "finalbody"):
                sub = getattr(st, fld, None)
                if isinstance(sub, list) and sub and isinstance(sub[0], ast.stmt) and not isinstance(st, (ast.FunctionDef, ast.ClassDef)):
                    setattr(st, fld, do_block(sub))
            for h in getattr(st, "handlers", []) or []:
                h.body = do_block(h.body)
            tgt = val = None
            # `x = <obj>.<attr> or <call>(...)` is `x = <obj>.<attr> if <obj>.<attr> else <call>(...)` (an attribute
            # read is repeatable); only this narrow form - `a or None` defaults stay expressions
            v0 = getattr(st, "value", None)
            if isinstance(st, (ast.Assign, ast.AnnAssign)) and isinstance(v0, ast.BoolOp) and isinstance(v0.op, ast.Or) and len(v0.values) == 2 and isinstance(v0.values[0], ast.Attribute) and isinstance(v0.values[0].value, ast.Name) and isinstance(v0.values[1], ast.Call):
                st.value = ast.copy_location(ast.IfExp(test=v0.values[0], body=v0.values[0], orelse=v0.values[1]), v0)
            if isinstance(st, ast.Assign) and len(st.targets) == 1 and isinstance(st.value, ast.IfExp):
                tgt, val = st.targets[0], st.value
            elif isinstance(st, ast.AnnAssign) and isinstance(st.value, ast.IfExp):
                tgt, val = st.target, st.value
            if isinstance(st, ast.Return) and isinstance(st.value, ast.IfExp):
                a = ast.copy_location(ast.Return(value=st.value.body), st)
                b = ast.copy_location(ast.Return(value=st.value.orelse), st)
                out.append(ast.copy_location(ast.If(test=st.value.test, body=[a], orelse=[b]), st))
                continue
            if tgt is not None and isinstance(tgt, ast.Name):
                a = ast.copy_location(ast.Assign(targets=[ast.Name(id=tgt.id, ctx=ast.Store())], value=val.body), st)
                b = ast.copy_location(ast.Assign(targets=[ast.Name(id=tgt.id, ctx=ast.Store())], value=val.orelse), st)
                # chained conditional expressions: the branches are converted in turn
                out.append(ast.copy_location(ast.If(test=val.test, body=do_block([a]), orelse=do_block([b])), st))
            else:
                out.append(st)
        return out

    fn.body = do_block(fn.body)
    ast.fix_missing_locations(fn)
    return _set_parents(fn)


def expand_starstar_dicts(fn):
    """in place: f(**{'k': v, ...}) and f(**name) with `name = {'k': v, ...}` (single binding, constant string keys,
    no later mutation) -> f(k=v, ...)"""
    binds = {}
    muts = set()
    mutkeys = {}
    for st in ast.walk(fn):
        if isinstance(st, ast.Assign) and len(st.targets) == 1 and isinstance(st.targets[0], ast.Name) and isinstance(st.value, ast.Dict):
            binds.setdefault(st.targets[0].id, []).append(st.value)
        elif isinstance(st, (ast.Assign, ast.AnnAssign)) and isinstance(getattr(st, "value", None), ast.Call) and isinstance(st.value.func, ast.Name) and st.value.func.id == "dict" and not st.value.args and all(k.arg for k in st.value.keywords):
            tgt_ = st.targets[0] if isinstance(st, ast.Assign) and len(st.targets) == 1 else (st.target if isinstance(st, ast.AnnAssign) else None)
            if isinstance(tgt_, ast.Name):
                # name = dict(k=v, ...)  is  name = {'k': v, ...}
                binds.setdefault(tgt_.id, []).append(ast.Dict(keys=[ast.Constant(value=k.arg) for k in st.value.keywords], values=[k.value for k in st.value.keywords]))
        elif isinstance(st, ast.AnnAssign) and isinstance(st.target, ast.Name) and isinstance(st.value, ast.Dict):
            binds.setdefault(st.target.id, []).append(st.value)
        if isinstance(st, ast.Subscript) and isinstance(st.ctx, (ast.Store, ast.Del)) and isinstance(st.value, ast.Name):
            if isinstance(st.ctx, ast.Store) and isinstance(st.slice, ast.Constant) and isinstance(st.slice.value, str):
                # one key re-assigned later (`opts["newfileuid"] = ...`, possibly under a condition): that key's value
                # is no longer the literal's, the other keys' values are
                mutkeys.setdefault(st.value.id, set()).add(st.slice.value)
            else:
                muts.add(st.value.id)
        if isinstance(st, ast.Call) and isinstance(st.func, ast.Attribute) and st.func.attr in ("update", "pop", "setdefault", "clear") and isinstance(st.func.value, ast.Name):
            muts.add(st.func.value.id)

    class T(ast.NodeTransformer):
        def visit_Call(self, node):
            self.generic_visit(node)
            new_kw = []
            for k in node.keywords:
                d = None
                if k.arg is None:
                    if isinstance(k.value, ast.Dict):
                        d = k.value
                    elif isinstance(k.value, ast.Name) and len(binds.get(k.value.id, [])) == 1 and k.value.id not in muts:
                        d = binds[k.value.id][0]
                    elif isinstance(k.value, ast.Call) and isinstance(k.value.func, ast.Name) and k.value.func.id == "dict" and not k.value.args:
                        new_kw.extend(k.value.keywords)
                        continue
                if d is not None and all(isinstance(x, ast.Constant) and isinstance(x.value, str) for x in d.keys):
                    mk_ = mutkeys.get(k.value.id, set()) if isinstance(k.value, ast.Name) else set()
                    if mk_ - {x.value for x in d.keys}:
                        new_kw.append(k)  # a key added later: the set of keywords is not the literal's
                        continue
                    new_kw.extend(ast.keyword(arg=x.value, value=(v if x.value not in mk_ else ast.Subscript(value=ast.Name(id=k.value.id, ctx=ast.Load()), slice=ast.Constant(value=x.value), ctx=ast.Load()))) for x, v in zip(d.keys, d.values))
                else:
                    new_kw.append(k)
            node.keywords = new_kw
            return node

    T().visit(fn)
    ast.fix_missing_locations(fn)
    return _set_parents(fn)


def getattr_consts_to_attributes(fn):
    """in place: getattr(x, '<identifier>') (two arguments) -> x.<identifier>"""

    class T(ast.NodeTransformer):
        def visit_Call(self, node):
            self.generic_visit(node)
            if isinstance(node.func, ast.Name) and node.func.id == "getattr" and len(node.args) == 2 and not node.keywords \
                    and isinstance(node.args[1], ast.Constant) and isinstance(node.args[1].value, str) and node.args[1].value.isidentifier():
                return ast.copy_location(ast.Attribute(value=node.args[0], attr=node.args[1].value, ctx=ast.Load()), node)
            return node

    T().visit(fn)
    ast.fix_missing_locations(fn)
    return _set_parents(fn)


def propagate_type_test_locals(fn):
    """in place: a local bound ONCE to a pure type test - isinstance(..) calls combined with not / and / or and other
    such locals - is substituted where it is read and its assignment dropped (`is_stmt = isinstance(t, STMTTRNRS)` ...
    `x = t.stmtrs if is_stmt else t.stmtendrs`), so that narrowing sees the tests themselves"""

    def pure(e, known):
        if isinstance(e, ast.Call):
            return isinstance(e.func, ast.Name) and e.func.id == "isinstance" and len(e.args) == 2 and isinstance(e.args[0], ast.Name) and not e.keywords
        if isinstance(e, ast.BoolOp):
            return all(pure(v, known) for v in e.values)
        if isinstance(e, ast.UnaryOp) and isinstance(e.op, ast.Not):
            return pure(e.operand, known)
        if isinstance(e, ast.Name):
            return e.id in known
        return False

    stores = {}
    for x in ast.walk(fn):
        if isinstance(x, ast.Name) and isinstance(x.ctx, ast.Store):
            stores[x.id] = stores.get(x.id, 0) + 1
    known = {}
    changed = True
    while changed:
        changed = False
        for st in ast.walk(fn):
            if isinstance(st, ast.Assign) and len(st.targets) == 1 and isinstance(st.targets[0], ast.Name):
                nm = st.targets[0].id
                if nm not in known and stores.get(nm) == 1 and pure(st.value, known):
                    # the tested variables are not re-bound by a plain assignment elsewhere in the function
                    subjects = {c.args[0].id for c in ast.walk(st.value) if isinstance(c, ast.Call)}
                    if all(stores.get(sj, 0) <= 1 for sj in subjects):
                        known[nm] = st
                        changed = True
    if not known:
        return fn

    class Sub(ast.NodeTransformer):
        def visit_Name(self, node):
            if isinstance(node.ctx, ast.Load) and node.id in known:
                return self.visit(clone(known[node.id].value))
            return node

    class Drop(ast.NodeTransformer):
        def visit_Assign(self, node):
            if any(node is st for st in known.values()):
                return None
            return node

    # substitute inside the definitions first (they may refer to one another), then everywhere, then drop
    Sub().visit(fn)
    Drop().visit(fn)
    ast.fix_missing_locations(fn)
    return _set_parents(fn)


def setattr_consts_to_assignments(fn):
    """in place: the statement `setattr(x, '<identifier>', v)` -> `x.<identifier> = v`"""

    class T(ast.NodeTransformer):
        def visit_Expr(self, node):
            c = node.value
            if isinstance(c, ast.Call) and isinstance(c.func, ast.Name) and c.func.id == "setattr" and len(c.args) == 3 and not c.keywords \
                    and isinstance(c.args[1], ast.Constant) and isinstance(c.args[1].value, str) and c.args[1].value.isidentifier():
                tgt = ast.Attribute(value=c.args[0], attr=c.args[1].value, ctx=ast.Store())
                return ast.copy_location(ast.Assign(targets=[tgt], value=c.args[2]), node)
            return node

    T().visit(fn)
    ast.fix_missing_locations(fn)
    return _set_parents(fn)


def _known_not_none(e) -> bool:
    if isinstance(e, ast.Constant):
        return e.value is not None
    if isinstance(e, (ast.Tuple, ast.List, ast.Dict, ast.Set, ast.JoinedStr, ast.ListComp, ast.DictComp, ast.SetComp)):
        return True
    if isinstance(e, ast.Call):
        if isinstance(e.func, ast.Attribute) and e.func.attr in ("index", "find", "count", "lower", "upper", "strip", "format", "join", "split"):
            return True
        if isinstance(e.func, ast.Name) and e.func.id in ("len", "int", "str", "bool", "list", "tuple", "dict", "set", "sorted"):
            return True
    return False


def thread_sentinel_tests(fn):
    """in place: an if statement whose arms end by binding a name, directly followed by a test of that name against None,

        if c: x = <value>            if c: x = <value>; [<not-None arm of the test>]
        else: ...; x = None     ->   else: ...; <None arm of the test>
        if x is None: <A> [else: <B>]

    - the arm that binds the constant None continues with the test's None arm, an arm that binds a value known not to be
    None (an .index() / len() result, a literal) with the other arm, any other arm keeps the whole test.  A None store that
    is then dead (the arm leaves the function and never reads the name) is dropped, so the name has ONE definition again.
    This is what a helper that signals `not found` by returning None looks like once it is inlined."""

    def last_bind(arm, name):
        if arm and isinstance(arm[-1], ast.Assign) and len(arm[-1].targets) == 1 and isinstance(arm[-1].targets[0], ast.Name) and arm[-1].targets[0].id == name:
            return arm[-1].value
        return None

    def leaves(block):
        return bool(block) and isinstance(block[-1], (ast.Return, ast.Raise, ast.Continue, ast.Break))

    def do_block(stmts):
        out = []
        i = 0
        while i < len(stmts):
            st = stmts[i]
            for fld in ("body", "orelse", "finalbody"):
                sub = getattr(st, fld, None)
                if isinstance(sub, list) and sub and isinstance(sub[0], ast.stmt) and not isinstance(st, (ast.FunctionDef, ast.ClassDef)):
                    setattr(st, fld, do_block(sub))
            for h in getattr(st, "handlers", []) or []:
                h.body = do_block(h.body)
            nxt = stmts[i + 1] if i + 1 < len(stmts) else None
            done = False
            if isinstance(st, ast.If) and st.orelse and isinstance(nxt, ast.If):
                t = nxt.test
                name = pol = None
                if isinstance(t, ast.Compare) and len(t.ops) == 1 and isinstance(t.left, ast.Name) and isinstance(t.comparators[0], ast.Constant) and t.comparators[0].value is None and isinstance(t.ops[0], (ast.Is, ast.IsNot)):
                    name, pol = t.left.id, isinstance(t.ops[0], ast.Is)
                if name is not None:
                    vb, ve = last_bind(st.body, name), last_bind(st.orelse, name)
                    if vb is not None and ve is not None and any(isinstance(v, ast.Constant) and v.value is None for v in (vb, ve)):
                        none_arm = nxt.body if pol else nxt.orelse
                        some_arm = nxt.orelse if pol else nxt.body

                        def cont(arm, v):
                            if isinstance(v, ast.Constant) and v.value is None:
                                tail = [clone(s_) for s_ in none_arm]
                                if leaves(tail) and not any(isinstance(x, ast.Name) and x.id == name for s_ in tail for x in ast.walk(s_)):
                                    arm = arm[:-1]  # the None store is dead
                                return arm + tail
                            if _known_not_none(v):
                                return arm + [clone(s_) for s_ in some_arm]
                            return arm + [clone(nxt)]

                        st.body = cont(list(st.body), vb) or [ast.Pass()]
                        st.orelse = cont(list(st.orelse), ve)
                        out.append(st)
                        i += 2
                        done = True
            if not done:
                out.append(st)
                i += 1
        return out

    fn.body = do_block(fn.body)
    ast.fix_missing_locations(fn)
    return _set_parents(fn)


def next_loops_to_for(fn):
    """in place:   it = <expr>                      for v in <expr>:
                   while True:                  ->       BODY
                       v = next(it, None)
                       if v is None: break
                       BODY
    when `it` is used nowhere else (the sentinel form of a plain iteration; BODY never sees v = None)"""

    def uses(name):
        return sum(1 for x in ast.walk(fn) if isinstance(x, ast.Name) and x.id == name)

    def do_block(stmts):
        out = []
        i = 0
        while i < len(stmts):
            st = stmts[i]
            for fld in ("body", "orelse", "finalbody"):
                sub = getattr(st, fld, None)
                if isinstance(sub, list) and sub and isinstance(sub[0], ast.stmt) and not isinstance(st, (ast.FunctionDef, ast.ClassDef)):
                    setattr(st, fld, do_block(sub))
            for h in getattr(st, "handlers", []) or []:
                h.body = do_block(h.body)
            nxt = stmts[i + 1] if i + 1 < len(stmts) else None
            if (isinstance(st, ast.Assign) and len(st.targets) == 1 and isinstance(st.targets[0], ast.Name)
                    and isinstance(nxt, ast.While) and isinstance(nxt.test, ast.Constant) and nxt.test.value is True and not nxt.orelse and len(nxt.body) >= 2):
                it = st.targets[0].id
                b0, b1 = nxt.body[0], nxt.body[1]
                ok = (isinstance(b0, ast.Assign) and len(b0.targets) == 1 and isinstance(b0.targets[0], ast.Name)
                      and isinstance(b0.value, ast.Call) and isinstance(b0.value.func, ast.Name) and b0.value.func.id == "next" and len(b0.value.args) == 2
                      and isinstance(b0.value.args[0], ast.Name) and b0.value.args[0].id == it and isinstance(b0.value.args[1], ast.Constant) and b0.value.args[1].value is None)
                if ok:
                    v = b0.targets[0].id
                    t = b1.test if isinstance(b1, ast.If) else None
                    ok = (isinstance(b1, ast.If) and not b1.orelse and len(b1.body) == 1 and isinstance(b1.body[0], ast.Break)
                          and isinstance(t, ast.Compare) and len(t.ops) == 1 and isinstance(t.ops[0], ast.Is) and isinstance(t.left, ast.Name) and t.left.id == v
                          and isinstance(t.comparators[0], ast.Constant) and t.comparators[0].value is None)
                if ok and uses(it) == 2:
                    src = st.value
                    if isinstance(src, ast.Call) and isinstance(src.func, ast.Name) and src.func.id == "iter" and len(src.args) == 1:
                        src = src.args[0]
                    loop = ast.For(target=ast.Name(id=v, ctx=ast.Store()), iter=src, body=do_block(nxt.body[2:]) or [ast.Pass()], orelse=[])
                    out.append(ast.copy_location(loop, nxt))
                    i += 2
                    continue
            out.append(st)
            i += 1
        return out

    fn.body = do_block(fn.body)
    ast.fix_missing_locations(fn)
    return _set_parents(fn)


def canonical(fn, resolver=None, keep=None, depth=2):
    new = inline(fn, resolver, depth, keep) if resolver is not None else copy_fn(fn)
    if resolver is not None:
        new = thread_sentinel_tests(new)
    new = next_loops_to_for(new)
    new = loops_to_comprehensions(new)
    new = ifexp_assignments_to_if(new)
    new = formats_to_fstrings(new)
    new = getattr_consts_to_attributes(new)
    new = setattr_consts_to_assignments(new)
    return expand_starstar_dicts(new)
