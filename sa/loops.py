"""Uniform view of `for` loops and comprehensions: what is iterated, under which filters a body statement / the
element is reached.  Filters are canonical atoms (paths.canon_atom), so `if c: continue`, `if not c: <body>` and a
comprehension's `if not c` are the same filter."""
from __future__ import annotations

import ast
from typing import Iterator, List, Optional, Tuple

from .paths import canon_atom

Filter = Tuple[str, bool]  # (canonical atom, truth required to reach the item)


class LoopItem:
    """one statement of a loop body (or the element expression of a comprehension) with the filters guarding it"""

    __slots__ = ("node", "filters", "complex")

    def __init__(self, node, filters: List[Filter], complex_: bool):
        self.node, self.filters, self.complex = node, list(filters), complex_


class LoopView:
    __slots__ = ("node", "iter", "target", "items", "kind")

    def __init__(self, node, it, target, items, kind):
        self.node, self.iter, self.target, self.items, self.kind = node, it, target, items, kind

    @property
    def target_names(self) -> List[str]:
        return [x.id for x in ast.walk(self.target) if isinstance(x, ast.Name)]


def _split_cond(test, want: bool) -> Tuple[List[Filter], bool]:
    """filters implied by `test` having truth `want`; second value False when the condition is not a plain conjunction"""
    if isinstance(test, ast.UnaryOp) and isinstance(test.op, ast.Not):
        return _split_cond(test.operand, not want)
    if isinstance(test, ast.BoolOp):
        if (isinstance(test.op, ast.And) and want) or (isinstance(test.op, ast.Or) and not want):
            out: List[Filter] = []
            simple = True
            for v in test.values:
                f, s = _split_cond(v, want)
                out += f
                simple = simple and s
            return out, simple
        # a disjunction that must hold: keep it as one opaque filter
        return [(ast.unparse(test), want)], False
    a, pol = canon_atom(test)
    return [(a, want if pol else not want)], True


def _walk_body(stmts, filters: List[Filter], complex_: bool, out: List[LoopItem]):
    filters = list(filters)
    for st in stmts:
        if isinstance(st, ast.If):
            only_continue = len(st.body) == 1 and isinstance(st.body[0], ast.Continue) and not st.orelse
            if only_continue:
                f, s = _split_cond(st.test, False)
                filters += f
                complex_ = complex_ or not s
                continue
            tf, ts = _split_cond(st.test, True)
            ff, fs = _split_cond(st.test, False)
            _walk_body(st.body, filters + tf, complex_ or not ts, out)
            _walk_body(st.orelse, filters + ff, complex_ or not fs, out)
            # a branch that always leaves the iteration filters what follows
            if st.body and isinstance(st.body[-1], (ast.Continue, ast.Break, ast.Return, ast.Raise)):
                filters += ff
                complex_ = complex_ or not fs
            elif st.orelse and isinstance(st.orelse[-1], (ast.Continue, ast.Break, ast.Return, ast.Raise)):
                filters += tf
                complex_ = complex_ or not ts
            continue
        if isinstance(st, (ast.For, ast.While, ast.With, ast.Try)):
            out.append(LoopItem(st, filters, True))
            continue
        out.append(LoopItem(st, filters, complex_))


def loop_views(fn) -> Iterator[LoopView]:
    for n in ast.walk(fn):
        if isinstance(n, ast.For):
            items: List[LoopItem] = []
            _walk_body(n.body, [], False, items)
            yield LoopView(n, n.iter, n.target, items, "for")
        elif isinstance(n, (ast.ListComp, ast.SetComp, ast.GeneratorExp, ast.DictComp)):
            filters: List[Filter] = []
            simple = True
            for g in n.generators:
                for c in g.ifs:
                    f, s = _split_cond(c, True)
                    filters += f
                    simple = simple and s
            g0 = n.generators[0]
            elt = n if isinstance(n, ast.DictComp) else n.elt
            yield LoopView(n, g0.iter, g0.target, [LoopItem(elt, filters, (not simple) or len(n.generators) > 1)], "comp")


def stores_keyed_by(view: LoopView, key: Optional[str] = None):
    """[(item, container text, key expr, value expr)] for `<c>[<k>] = <v>` statements of a loop and `{k: v ...}` of a
    dict comprehension; restricted to stores whose key is the name `key` when given"""
    out = []
    for it in view.items:
        n = it.node
        if isinstance(n, ast.DictComp):
            if key is None or (isinstance(n.key, ast.Name) and n.key.id == key):
                out.append((it, None, n.key, n.value))
        elif isinstance(n, ast.Assign) and len(n.targets) == 1 and isinstance(n.targets[0], ast.Subscript):
            t = n.targets[0]
            if key is None or (isinstance(t.slice, ast.Name) and t.slice.id == key):
                out.append((it, ast.unparse(t.value), t.slice, n.value))
    return out
