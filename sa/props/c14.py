"""C14 - the client sends only what it should, where it should, and nothing on a dry run."""
from .. import rules_client as N

EXPLANATION = (
    "Static effect, path and provenance analysis of ofxtools/Client.py. N-R1: network sinks (calls rooted at "
    "urllib/requests/socket/http.client aliases or at objects built from them) occur only in post_request; no "
    "install_opener in the package. N-R2: post_request is called only from download() and is unreachable there under "
    "dryrun (flag-pruned CFG reachability); every method with a dryrun parameter forwards it. N-R3: the profile "
    "lookup is unreachable under dryrun/skip_profile. N-R4: each transport issues exactly one request per path with "
    "literal POST, the serialized body, self.http_headers and the url parameter. N-R5: header constants folded. N-R6: "
    "profile sign-on derives only from AUTH_PLACEHOLDER. N-R7: per-branch provenance (reaching definitions on the "
    "flag-pruned CFG) of the URL handed to download(). N-R8: per-instance cookie jar attached on both transports. "
    "Not decided: urllib/requests internals (trusted), and what a server does."
)
ASSUMPTIONS = ["urllib / requests send exactly the method, url, headers and body they are given (trusted library semantics)", "OFXClient subclasses outside the package are out of scope"]


def _profile_freshness(project, rep):
    """credentialed requests are routed by the profile request_profile() returns: it must be the one the server
    just sent (status 0) / the cached one only when the server says it is current (status 1).  Decided by the path rules
    of the cache family (K-R1) on the same flattened method; only these three obligations are taken over."""
    from .. import report as R
    from .. import rules_cache as K

    rep.rule("N-R10", "the service URLs come from the current profile: request_profile() returns the server's new profile when it sent one and the cached copy only on 'up to date', rewound (K-R1 return rules)")
    tmp = R.Report(rep.prop, rep.tier)
    tmp.run(K.k_rules, project, tmp)
    wanted = ("request_profile:fresh-profile-returned", "request_profile:up-to-date-returns-cached", "request_profile:returned-stream-rewound")
    got = [o for o in tmp.obligations if o.construct in wanted]
    for o in got:
        rep.check("N-R10", o.construct, o.ok, o.detail, o.loc)
    if not got:
        rep.note("N-R10 undecided: the return rules of request_profile produced no verdict")
    # ... and it must be THIS institution's profile: ORG and FID reach the cache file name whole and un-merged (the
    # key-quality clauses of K-R3), else another institution's cached profile routes this user's credentials
    rep.rule("N-R13", "the cached profile that routes the credentialed requests is this institution's own: ORG and FID reach the cache file name whole (no with_suffix / splitext cutting at a dot), un-merged (no many-to-one rewriting) and stable (K-R3 key-quality clauses)")
    for o in tmp.obligations:
        if o.construct in ("request_profile:cache-key-components-whole", "request_profile:cache-key-components-unmerged", "request_profile:cache-key-stable-across-processes"):
            rep.check("N-R13", o.construct, o.ok, o.detail, o.loc)


def run(project, rep):
    rep.run(N.n_r1_sinks, project, rep)
    rep.run(N.n_r2_dryrun, project, rep)
    rep.run(N.n_r3_profile_lookup, project, rep)
    rep.run(N.n_r4_post, project, rep)
    rep.run(N.n_r5_headers, project, rep)
    rep.run(N.n_r6_placeholder, project, rep)
    rep.run(N.n_r7_routing, project, rep)
    rep.run(N.n_r7c_service_urls, project, rep)
    rep.run(N.n_r14_msgset_wiring, project, rep)
    rep.run(N.n_r15_one_service_url_or_none, project, rep)
    from .. import rules_request as _Q13
    rep.run(_Q13.q_r13_send_path_leaves_the_request_alone, project, rep)
    rep.run(N.n_r8_cookies, project, rep)
    rep.run(N.n_r9_constructor_params, project, rep)
    rep.run(N.n_r11_url_fixed, project, rep)
    rep.run(N.n_r12_no_resending_handler, project, rep)
    rep.run(_profile_freshness, project, rep)
